#!/bin/bash
# usage: mkcopy.sh <patch.diff> -> prints the path of a scratch export of /repo HEAD with the patch applied (caller removes it)
T=$(mktemp -d /tmp/zcsa-copy-XXXXXX)
git -C /repo archive HEAD src include meson.build meson_options.txt zchunk_format.txt | tar -x -C $T
[ -n "$1" ] && (cd $T && patch -p1 -s < $1) 
echo $T

#!/bin/bash
# usage: eval_copy.sh <patch.diff> [Cnn ...]  -- apply a patch to a scratch export of /repo HEAD and run the checks there
# (ZCSA_REPO points the analyser at the copy; /repo is not touched).  Default: all 20 checks, run in parallel
# (the first alone, to fill the parse cache for the copy).
P=$1; shift
PROPS="$@"; [ -z "$PROPS" ] && PROPS="C01 C02 C03 C04 C05 C06 C07 C08 C09 C10 C11 C12 C13 C14 C15 C16 C17 C18 C19 C20"
T=$(mktemp -d /tmp/zcsa-copy-XXXXXX)
git -C /repo archive HEAD src include meson.build meson_options.txt zchunk_format.txt | tar -x -C $T
(cd $T && patch -p1 -s < $P) || { echo "PATCH-FAILED"; rm -rf $T; exit 2; }
mkdir -p $T/_logs
run1() { ZCSA_REPO=$T ZCSA_OUTDIR=$T/_out/$1 python3 -m zcsa check $1 --tier quick > $T/_logs/$1.log 2>&1; }
export -f run1; export T
set -- $PROPS
run1 $1; shift
[ $# -gt 0 ] && printf "%s\n" "$@" | xargs -P 10 -I{} bash -c 'run1 {}'
for C in $PROPS; do
  grep -E "^(FINDING|VIOLATION|ANALYSIS)" $T/_logs/$C.log | sed "s#$T/##"
done
rm -rf $T

#!/bin/bash
# usage: check_at.sh <git-rev-of-/repo> <Cnn> [more props]  -- run checks against a scratch export of a /repo revision
REV=$1; shift
T=$(mktemp -d /tmp/zcsa-at-XXXXXX)
git -C /repo archive $REV src include meson.build meson_options.txt zchunk_format.txt | tar -x -C $T
for P in "$@"; do
  ZCSA_REPO=$T ZCSA_OUTDIR=$T/_out python3 -m zcsa check $P --tier quick 2>&1 | grep -E "^(FINDING|VIOLATION|ANALYSIS|KNOWN|C[0-9]+:)" 
done
rm -rf $T

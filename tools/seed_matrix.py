#!/usr/bin/env python3
"""Apply every seeded change to a scratch export of /repo HEAD in turn (ZCSA_REPO points the analyser at the copy;
/repo itself is not touched), run all quick checks; write seeded/<id>/meta.json (caught_by) and seeded/MATRIX.md."""
import json, os, subprocess, sys, re
SEEDS = {
 'c01-stale-room-manual': ('C01', 'manual chunking with a write that ends exactly at ZCK_CHUNK_MAX followed by another write: zck_write() never returns (e.g. zck -m on > 10 MiB)'),
 'c02-verdict-guarded-by-data-size': ('C02', 'compression type none + altered chunk body + a whole-data checksum that cannot object (uncompressed-source flag, or re-sealed data/header digests)'),
 'c03-uint32-narrowing': ('C03', 'a sealed header whose compression-type field lies in [2^31, 2^32): negative int indexes the name table (SIGSEGV)'),
 'c04-early-exit-no-truncate': ('C04', 'pre-existing target = complete valid new file followed by extra bytes: zckdl exits 0 and keeps the tail'),
 'c05-resume-offset': ('C05', 'a transport fragment boundary exactly between a multipart part header and its first payload byte'),
 'c06-strncmp-digest': ('C06', 'a header digest containing a 0x00 byte plus a change after it (or a forged 0x00 prefix)'),
 'c07-pairwise-hex': ('C07', 'a pinned digest string with a non-hex byte at an odd offset preceded by a non-zero hex digit'),
 'c08-shared-lookup-helper': ('C08', 'a well-formed but mis-indexed source (same digest and uncompressed size, larger stored size) and a target whose next chunk is already valid'),
 'c09-no-initial-rewind': ('C09', 'zck_validate_data_checksum() failing on a truncated file, error cleared, then a validity scan on the same context'),
 'c10-for-continue-skip': ('C10', 'a range string longer than 32 KiB (thousands of separate missing ranges): one range dropped per buffer growth'),
 'c11-read-loop-stale-tail': ('C11', 'interruption in the middle of a chunk whose predecessor is byte-identical and already on disk'),
 'c12-short-temp-read': ('C12', 'a short (but successful) read of the temporary file before its end: truncated archive, zck exits 0'),
 'c13-flags-bitpack': ('C13', 'reading a file whose flag word has bit 1 or 2 set and then asking zck_get_flags()'),
 'c14-skip-reset-inorder': ('C14', 'data(k); stored(j != k); data(k+1) on one context (zstd): the third request fails or returns 0 bytes'),
 'c15-skip-verify-if-valid': ('C15', 'zck_find_matching_chunks() marks a chunk valid by index only; a damaged zstd chunk is then released without verification'),
 'c16-hoisted-room': ('C16', 'one zck_write() call > 120 KiB containing a refused early boundary followed by low-entropy data: chunk exceeds the maximum and files differ by write segmentation'),
 'c17-lone-quote-boundary': ('C17', 'a Content-Type header whose boundary value is exactly one double quote: heap overflow in zck_header_cb'),
 'c18-sha256-exact-block': ('C18', 'bundled build, SHA-256, an update call that exactly fills the 64-byte block as the last update'),
 'c19-static-hdr-regex': ('C19', 'the first header callback of the process issued from two threads at once'),
 'c20-int-shift': ('C20', 'decoding any value >= 2^31 (e.g. a 2 GiB chunk size)'),
 'c01r2-header-realloc': ('C01', 'overall checksum type SHA-512/128 (lead shorter than the 25 bytes read ahead) and a non-zero data digest: the written file no longer opens'),
 'c02r2-nocomp-dict-skip': ('C02', 'compression type none together with a non-empty dictionary: the reader delivers dictionary + content with success'),
 'c03r2-uncomp-lookup-null': ('C03', 'zck_find_matching_chunks with a source that has the uncompressed-source flag, a target that has not, and different compression types: NULL key hashed'),
 'c05r2-reset-keeps-window': ('C05', 'a transfer that ends inside a chunk, then zck_dl_reset() and a new complete response on the same zckDL'),
 'c08r2-zero-uncompressed-length': ('C08', 'a corrupted matching source chunk in a compressed target whose following chunks are already valid: zero fill runs over the neighbours'),
 'c10r2-resume-point': ('C10', 'a chunk fails verification, a later chunk is fetched, failed chunks are reset: the failed chunk lies before the remembered resume point and is never requested again'),
 'c12r2-error-downgrade': ('C12', 'write() on the temp file fails while a chunk is flushed; the application clears the (now non-fatal) error and closes: success with a chunk missing'),
 'c13r2-optelem-wrap': ('C13', 'optional element size in [2^64 - length, 2^64 - 1] with the header re-sealed: the cursor moves backwards and metadata is read from other fields'),
 'c16r2-empty-flush': ('C16', 'uncompressed-source flag and a boundary candidate on the first byte of a write call: that segmentation fails while others succeed'),
 'c17r2-carryover-free': ('C17', 'a multipart part header spread over three or more write callbacks: carried-over buffer freed and used again'),
 'c01r3-short-write-loop-pipe': ('C01', 'two or more consecutive short writes inside one write_data() call (pipe destination, interrupted writer)'),
 'c02r3-header-only-skips-data-check': ('C02', 'identifier switched to the detached-header magic plus truncation in the middle of a chunk'),
 'c03r3-import-dict-error-free': ('C03', 'a dictionary that zstd refuses after it was handed over: comp_init fails, buffer freed twice'),
 'c04r2-copy-seek-cursor': ('C04', 'source with an intact header but a truncated body, and a target whose chunk order differs: chunks written at a stale offset are marked valid'),
 'c04r3-reset-keeps-tgt-check': ('C04', 'a range response that stops mid-chunk, then reset and a new request on the same zckDL'),
 'c05r3-nested-failure-short-count': ('C05', 'plain single-range body, a damaged chunk whose last byte arrives in an invocation that began in an earlier chunk'),
 'c06r2-header-retry-skip': ('C06', 'first zck_read_header() fails recoverably before the comparison (hash_init OOM), the caller retries on the same context'),
 'c06r3-id-version-byte': ('C06', 'fifth identifier byte lower than the character 1'),
 'c07r2-pin-length-lead-read': ('C07', 'SHA-512/128 header hash (lead shorter than the 25 bytes read ahead) and a pinned total header length'),
 'c07r3-pin-buffer-handover': ('C07', 'pinned context reused: zck_validate_lead() succeeds once, then another lead is read'),
 'c08r3-skip-target-seek': ('C08', 'truncated source and a target whose chunk order differs'),
 'c09r2-hash-reinit-moved': ('C09', 'a validity scan that finds a bad chunk, then completion of the target and a read to end on the same context'),
 'c09r3-scan-stops-at-eof': ('C09', 'target truncated before its last chunk; same context scanned twice or 0/-1 distinguished'),
 'c10r3-limit-before-add': ('C10', 'max_ranges == 0 with at least one missing chunk'),
 'c11r2-scan-fail-fast': ('C11', 'interrupted delta update restarted without the source: chunks behind the half-written one are fetched again'),
 'c11r3-truncated-chunk-keeps-all-good': ('C11', 'interruption in the middle of the last chunk with every other chunk valid'),
 'c12r3-short-write-loop': ('C12', 'two consecutive short writes followed by a complete one'),
 'c13r3-byte-typed-digit': ('C13', 'any compressed integer >= 2^31 (chunk of 2 GiB or more)'),
 'c14r2-comp-data-clamp': ('C14', 'stored data of a chunk whose stored form is larger than its content (incompressible or tiny chunk)'),
 'c14r3-data-loc-reset-guarded': ('C14', 'compression type none and a second chunk request on the same context'),
 'c15r2-short-read-on-bad-chunk': ('C15', 'one read request that straddles verified data and a chunk that fails its checksum'),
 'c15r3-xor-fold-compare': ('C15', 'a corruption whose digest differs from the index digest by bytes that cancel under XOR (1 in 256)'),
 'c16r3-below-min-fast-path': ('C16', 'a write call that starts 0..46 bytes before the minimum chunk size after only short calls, boundary within 47 bytes past it'),
 'c18r2-sha1-final-pad': ('C18', 'bundled build, SHA-1 selected, a hashed message whose length is 56 mod 64'),
 'c18r3-sha1-static-workspace': ('C18', 'bundled build, SHA-1, two threads hashing at once'),
 'c19r2-temp-fd-double-close': ('C19', 'two writer threads: one allocates a descriptor while the other is between the two close() of the same number'),
 'c19r3-strtok-header-split': ('C19', 'two threads feeding Content-Type header lines at the same time'),
 'c20r2-add-overflow-guard': ('C20', 'a terminated ten-byte encoding whose tenth byte is 0x82..0xff'),
 'c20r3-unterminated-tenth-byte': ('C20', 'ten bytes without a stop bit whose tenth byte is 0x00 or 0x01'),
 'c01r4-eager-end-no-eof': ('C01', 'compression none and a read request that ends exactly on the last byte of the data, followed by one more read: -1 instead of 0 (unzck on a multiple of 32 KiB unlinks its complete output)'),
 'c02r4-header-verdict-bang': ('C02', 'a header whose index and data digests were rewritten for altered data while the header digest in the lead is stale, read after a validation call'),
 'c03r4-optelem-add-wrap': ('C03', 'sealed header with optional elements: count 2^64-1 and an element size of 2^64-11 - the cursor wraps to the same element and the parser never ends'),
 'c04r4-fail-no-ranges-off': ('C04', 'a server that answers 200 with the whole file when too many ranges are asked for, more separate missing ranges than its limit, --fail-no-ranges not given'),
 'c05r4-skip-guard-wrong-entry': ('C05', 'a chunk that became valid (copy from a second source) after the range was computed, and damaged bytes for it in the response'),
 'c06r4-lead-reencoded': ('C06', 'a lead that spells the checksum type or header size as a longer equivalent compressed integer, stored digest untouched'),
 'c07r4-type-change-drops-digest': ('C07', 'pin type T1, pin digest D, pin another type T2 (no new digest), then offer a file whose digest is not D'),
 'c08r4-short-read-write-count': ('C08', 'a short (positive) read() on the source descriptor in the middle of a chunk copy'),
 'c09r4-static-scan-buffer': ('C09', 'two contexts scanned from two threads with one read() landing between the other read and its hash update (same change as c19r4)'),
 'c10r4-merge-after-limit': ('C10', 'a finite limit L >= 2 reached by a chunk that directly continues the previous range'),
 'c11r4-allvalid-no-truncate': ('C11', 'pre-existing longer target and an interruption after the last missing chunk byte but before the final ftruncate, then a restart'),
 'c12r4-count-before-write': ('C12', 'write() on the target fails on the last 32 KiB block of a chunk during zck_copy_chunks'),
 'c13r4-count-compare-narrowed': ('C13', 'a chunk-count field equal to the real entry count modulo 2^32 (5..10 byte compressed integer), header re-sealed'),
 'c14r4-scan-leaves-hash-closed': ('C14', 'zck_validate_checksums()/zck_find_valid_chunks() == 1, then zck_get_chunk_data() on the same context'),
 'c15r4-verdict-split-keeps-buffer': ('C15', 'a damaged zstd chunk plus a digest-finalisation fault at its end, then zck_clear_error() and another read'),
 'c16r4-auto-max-raised': ('C16', 'automatic chunking with ZCK_CHUNK_MAX below 8192: every chunk exceeds the configured maximum'),
 'c17r4-regfree-on-new-boundary': ('C17', 'boundary header, body fragment, a second boundary header on the same zckDL without reset, another body fragment: regexec on a released pattern'),
 'c18r4-totlen-width': ('C18', 'bundled build, one hash context fed 2^29 bytes or more'),
 'c19r4-static-scan-buffer': ('C19', 'two threads validating two different files at once'),
 'c20r4-bound-after-stop': ('C20', 'a compressed integer expected exactly at the end of the buffer (*length == max_length)'),
 'c01r5-scratch-fixed-block': ('C01', 'a read request above 32 KiB on a chunk with more than 32 KiB stored (no compression, incompressible data, large manual chunk or dictionary)'),
 'c02r5-end-dchunk-lt0': ('C02', 'allocation failure (or an announced size of 2^62) for one zstd chunk: the chunk is dropped and the read goes on with success'),
 'c03r5-scratch-capped-at-block': ('C03', 'a read request above 32 KiB together with a chunk that has more than 32 KiB of stored data left: read() overruns the scratch block'),
 'c04r5-reset-before-copy': ('C04', 'an old file whose header is intact and shares a chunk with the new one, that chunk corrupted in the old file body'),
 'c05r5-overquoted-boundary': ('C05', "a multipart boundary containing an apostrophe (RFC 2046 allows it): the over-quoted pattern can never match"),
 'c06r5-compare-against-pin': ('C06', 'stepwise open with the expected digest set between zck_read_lead and zck_read_header, stored header checksum altered'),
 'c07r5-hex-half-compare': ('C07', 'pinned and stored digests that differ only in the second half'),
 'c08r5-uncomp-length-dropped': ('C08', 'source and target with different compressors and the uncompressed-source flag, equal uncompressed checksum but different length'),
 'c09r5-data-offset-from-sections': ('C09', 'a header that declares more length than its sections use (unused trailing header bytes)'),
 'c10r5-skip-on-uncompressed-length': ('C10', 'a missing chunk with uncompressed size 0 and stored size > 0 (empty zstd frame)'),
 'c11r5-read-retry-eintr-only': ('C11', 'a restart whose rescan gets one short (non-EOF) read() on the target'),
 'c13r5-uncomp-digest-size': ('C13', 'uncompressed-source flag and a chunk digest size different from the overall digest size (zck -u -h sha512)'),
 'c14r5-static-scratch-block': ('C14', 'two contexts read from two threads with one read() landing between the other read and its use of the block'),
 'c15r5-verdict-bool-return': ('C15', 'a damaged zstd chunk that still decodes (raw block payload)'),
 'c16r5-min-test-off-by-one': ('C16', 'a rolling-hash match at exactly offset chunk_auto_min - 1 of a chunk'),
 'c17r5-pattern-buffer-from-unquoted': ('C17', 'a multipart boundary with three or more regex-special characters'),
 'c18r5-sha1-transform-aliases-input': ('C18', 'bundled build, SHA-1 selected, an update of 128 bytes or more whose buffer is used again afterwards'),
 'c19r5-log-mute-in-validate-lead': ('C19', 'two threads inside zck_validate_lead() on two contexts at the same time, non-default log level'),
 'c20r5-encoder-shift-guard': ('C20', 'encoding a value with bit 63 set'),
}
# rounds 6 and later are registered in seeded/registry.json (id -> [property, what it needs to manifest])
_reg = os.path.join(os.path.dirname(os.path.abspath(__file__)), '..', 'seeded', 'registry.json')
if os.path.exists(_reg):
    for _k, _v in json.load(open(_reg)).items():
        SEEDS.setdefault(_k, tuple(_v))
PROPS = ['C%02d' % i for i in range(1, 21)]
def sh(cmd, **kw):
    return subprocess.run(cmd, shell=True, stdout=subprocess.PIPE, stderr=subprocess.STDOUT, **kw).stdout.decode()
only = sys.argv[1:]
rows = []
import tempfile, shutil
def do_seed(sid):
    prop, needs = SEEDS[sid]
    d = '/verif/seeded/' + sid
    meta_p = d + '/meta.json'
    if only and sid not in only and os.path.exists(meta_p):
        return json.load(open(meta_p))
    if not os.path.exists(d + '/patch.diff'):
        return None
    T = tempfile.mkdtemp(prefix='zcsa-matrix-')
    sh('git -C /repo archive HEAD src include meson.build meson_options.txt zchunk_format.txt | tar -x -C %s' % T)
    out = sh('cd %s && patch -p1 -s < %s/patch.diff' % (T, d))
    if out.strip():
        print(sid, 'DOES NOT APPLY', out); shutil.rmtree(T); return None
    caught, broken, details = [], [], {}
    env = dict(os.environ, ZCSA_REPO=T, ZCSA_OUTDIR=T + '/_out')
    def run1(p):
        return p, subprocess.run(['python3', '-m', 'zcsa', 'check', p, '--tier', 'quick'], cwd='/verif', env=env,
                                 stdout=subprocess.PIPE, stderr=subprocess.STDOUT).stdout.decode()
    # first check alone (fills the parse cache for the copy), the rest in parallel
    props = list(PROPS)
    if os.environ.get('MATRIX_ONLY_OWN'):
        # quick mode: the seed's own property, plus the checks that reported it in the last full run
        prev = []
        if os.path.exists(meta_p):
            try:
                prev = json.load(open(meta_p)).get('caught_by', [])
            except ValueError:
                prev = []
        props = [prop] + [p_ for p_ in prev if p_ != prop][:2]
    outs = [run1(props[0])]
    from concurrent.futures import ThreadPoolExecutor
    if props[1:]:
        with ThreadPoolExecutor(max_workers=6) as ex:
            outs += list(ex.map(run1, props[1:]))
    for p, o in outs:
        if 'VIOLATION property=' in o:
            caught.append(p)
            details[p] = [l[:200].replace(T + '/', '') for l in o.splitlines() if l.startswith('FINDING')][:4]
        elif 'ANALYSIS-BROKEN' in o:
            broken.append(p)
    shutil.rmtree(T)
    meta = {'seed': sid, 'breaks_property': prop, 'needs_to_manifest': needs,
            'base_commit': sh('git -C /repo rev-parse --short HEAD').strip(),
            'confirmed': 'suite 37 ok with the change; demonstration (run.sh) exits non-zero with the change and 0 on the clean tree (see confirm.log)',
            'what_was_run': ['tools/seed_confirm.sh (in the sub-agent\'s scratch worktree)', 'tools/seed_rebase.sh when a fix: commit touched the same lines',
                             'tools/seed_matrix.py: patch applied to a scratch export of /repo HEAD, python3 -m zcsa check Cnn --tier quick for all 20 with ZCSA_REPO pointing at it (equivalent to git -C /repo apply; run; git -C /repo checkout -- .)'],
            'checks_run': ('all 20' if not os.environ.get('MATRIX_ONLY_OWN') else 'own property + previous reporters'),
            'caught_by': caught, 'analysis_broken': broken, 'findings': details,
            'caught_by_own_property': prop in caught}
    json.dump(meta, open(meta_p, 'w'), indent=1)
    print(sid, 'caught by', caught, 'broken', broken, flush=True)
    return meta
from concurrent.futures import ThreadPoolExecutor as _TPE
with _TPE(max_workers=int(os.environ.get('MATRIX_JOBS', '3'))) as _ex:
    rows = [m for m in _ex.map(do_seed, sorted(SEEDS)) if m is not None]
with open('/verif/seeded/MATRIX.md', 'w') as f:
    f.write('# Seeded changes vs checks (generated by tools/seed_matrix.py)\n\n| seed | property | caught by (VIOLATION) | analysis-broken | own property check fires |\n|---|---|---|---|---|\n')
    for m in rows:
        f.write('| %s | %s | %s | %s | %s |\n' % (m['seed'], m['breaks_property'], ' '.join(m['caught_by']) or '-', ' '.join(m['analysis_broken']) or '-', 'yes' if m['caught_by_own_property'] else 'NO'))

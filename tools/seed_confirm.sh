#!/bin/bash
# usage: seed_confirm.sh <worktree> <seed-id> <property>
# Confirms a seeded change produced by a sub-agent: suite green with change, demo fails with
# change, demo passes on clean tree.  Copies the artefacts to /verif/seeded/<seed-id>/.
set -u
WT=$1; ID=$2; PROP=$3
OUT=/verif/seeded/$ID
mkdir -p $OUT
cd $WT || exit 2
LOG=$OUT/confirm.log; : > $LOG
# the worktree is reset to HEAD and the delivered patch applied (git stash is shared between worktrees: never used)
git checkout -- src include 2>/dev/null
git apply seed/patch.diff || { echo "seed/patch.diff does not apply"; exit 2; }
git diff -- src include test > /tmp/seedwork/$ID.cur.diff
echo "== with change: build + suite" >> $LOG
(ninja -C _build >/dev/null 2>&1 || meson setup _build >/dev/null 2>&1 && ninja -C _build >/dev/null 2>&1)
meson test -C _build 2>&1 | grep -E "^(Ok|Expected Fail|Fail|Unexpected Pass|Skipped|Timeout):" | tr '\n' ' ' >> $LOG; echo >> $LOG
SUITE_FAIL=$(meson test -C _build 2>&1 | grep -E "^Fail:" | awk '{print $2}')
echo "== with change: demo" >> $LOG
timeout 300 bash seed/run.sh $WT >> $LOG 2>&1; RC_WITH=$?
echo "rc_with=$RC_WITH" >> $LOG
git checkout -- src include
ninja -C _build >/dev/null 2>&1
echo "== clean tree: demo" >> $LOG
timeout 300 bash seed/run.sh $WT >> $LOG 2>&1; RC_CLEAN=$?
echo "rc_clean=$RC_CLEAN" >> $LOG
git apply seed/patch.diff
ninja -C _build >/dev/null 2>&1
cp -r seed/* $OUT/ 2>/dev/null
echo "suite_fail=${SUITE_FAIL:-?} rc_with=$RC_WITH rc_clean=$RC_CLEAN"
if [ "${SUITE_FAIL:-1}" = "0" ] && [ $RC_WITH -ne 0 ] && [ $RC_CLEAN -eq 0 ]; then echo CONFIRMED; else echo NOT-CONFIRMED; fi

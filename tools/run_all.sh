#!/bin/bash
# run all 20 quick checks on /repo in parallel (first alone to fill the parse cache); prints one line per check
cd /verif
mkdir -p /tmp/zcsa-all
python3 -m zcsa check C01 --tier quick > /tmp/zcsa-all/C01.log 2>&1; echo "C01 rc=$?"
for i in 02 03 04 05 06 07 08 09 10 11 12 13 14 15 16 17 18 19 20; do echo C$i; done | xargs -P 10 -I{} bash -c 'python3 -m zcsa check {} --tier quick > /tmp/zcsa-all/{}.log 2>&1; echo "{} rc=$?"'
grep -h -E "^C[0-9]+: obligations" /tmp/zcsa-all/*.log
grep -l -E "^(VIOLATION|ANALYSIS-BROKEN)" /tmp/zcsa-all/*.log

#!/bin/bash
# usage: seed_eval.sh <seed-id> <Cnn> [...]: apply the seeded patch to /repo, run the checks, undo it
ID=$1; shift
P=/verif/seeded/$ID/patch.diff
[ -n "$(git -C /repo status --porcelain)" ] && { echo "/repo not clean"; exit 2; }
git -C /repo apply $P || { echo "patch does not apply"; exit 2; }
for C in "$@"; do
  ZCSA_OUTDIR=/tmp/seedwork/out-$ID python3 -m zcsa check $C --tier quick 2>&1 | grep -E "^(FINDING|VIOLATION|ANALYSIS|C[0-9]+:)"
done
git -C /repo checkout -- .
rm -rf /tmp/seedwork/out-$ID

#!/bin/bash
# Behaviour-preserving refactorings (written by sub-agents that saw only the repository) must keep every check
# silent: apply each to a scratch copy of /repo HEAD and run all 20 quick checks.  Prints one line per patch.
cd /verif
BAD=0
for P in refactors/*.diff; do
  OUT=$(tools/eval_copy.sh $PWD/$P 2>&1 | grep -E "^(VIOLATION|ANALYSIS|PATCH-FAILED)")
  if [ -z "$OUT" ]; then echo "$P silent"; else echo "$P RAISED: $(echo $OUT | tr '\n' ' ')"; BAD=1; fi
done
exit $BAD

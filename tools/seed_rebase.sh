#!/bin/bash
# usage: seed_rebase.sh <seed-id>: re-create the seeded patch against /repo HEAD (after a fix: commit
# touched the same lines), re-confirm it (suite green, demo fails with / passes without), update patch.diff
ID=$1
S=/verif/seeded/$ID
W=/tmp/wt-rebase-$ID
git -C /repo worktree add --detach $W HEAD >/dev/null 2>&1 || exit 2
cd $W
if ! git apply $S/patch.diff 2>/dev/null; then
  patch -p1 -F3 --no-backup-if-mismatch < $S/patch.diff > /tmp/seedwork/$ID.rebase.log 2>&1 || { echo "REJECTS: see /tmp/seedwork/$ID.rebase.log, worktree $W kept"; find . -name '*.rej'; exit 1; }
fi
find . -name '*.orig' -delete
git diff -- src include > /tmp/seedwork/$ID.new.diff
meson setup _build >/dev/null 2>&1 && ninja -C _build >/dev/null 2>&1 || { echo BUILD-FAILED; exit 1; }
FAILS=$(meson test -C _build 2>&1 | grep -E "^Fail:" | awk '{print $2}')
mkdir -p seed; cp -r $S/* seed/ 2>/dev/null
timeout 600 bash seed/run.sh $W >/dev/null 2>&1; RC_WITH=$?
git checkout -- src include; ninja -C _build >/dev/null 2>&1
timeout 600 bash seed/run.sh $W >/dev/null 2>&1; RC_CLEAN=$?
echo "suite_fail=$FAILS rc_with=$RC_WITH rc_clean=$RC_CLEAN"
if [ "$FAILS" = "0" ] && [ $RC_WITH -ne 0 ] && [ $RC_CLEAN -eq 0 ]; then cp /tmp/seedwork/$ID.new.diff $S/patch.diff; echo "REBASED+CONFIRMED (base $(git -C /repo rev-parse --short HEAD))" | tee -a $S/confirm.log; else echo NOT-CONFIRMED; fi
cd /; git -C /repo worktree remove --force $W

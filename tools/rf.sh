#!/bin/bash
# usage: rf.sh <patch.diff> <Cnn>: run one check on a scratch copy with the patch; print findings with witness paths
P=$1; C=$2
T=$(/verif/tools/mkcopy.sh $(readlink -f $P))
ZCSA_REPO=$T ZCSA_OUTDIR=$T/_out python3 -m zcsa check $C --tier quick 2>&1 | sed "s#$T/##g" | grep -A${3:-25} -E "^(FINDING|ANALYSIS)" | head -${4:-80}
rm -rf $T

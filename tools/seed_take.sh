#!/bin/bash
# usage: seed_take.sh <worktree-id> <seed-id> <Cnn>: confirm a sub-agent's change (seed_confirm.sh), then run all checks on a
# scratch copy of /repo HEAD with the patch (3-way tolerant: falls back to `patch` with fuzz when HEAD moved on)
WT=/tmp/seedwork/$1; ID=$2; PROP=$3
/verif/tools/seed_confirm.sh $WT $ID $PROP | tail -2
echo "--- checks on $ID"
/verif/tools/eval_copy.sh /verif/seeded/$ID/patch.diff 2>&1 | grep -E "^(VIOLATION|ANALYSIS|PATCH)" 

"""clang 14 JSON AST -> IR.  One worker per translation unit."""
import hashlib
import json
import os
import pickle
import re
import subprocess
import sys
from concurrent.futures import ProcessPoolExecutor

from .ir import E, S, Func, GlobalVar

REPO = os.environ.get('ZCSA_REPO', '/repo')
VERIF = os.path.dirname(os.path.dirname(os.path.abspath(__file__)))
BUILD = os.path.join(VERIF, 'build')
INC = os.path.join(BUILD, 'include')
CACHE = os.path.join(BUILD, 'cache')
FRONTEND_VERSION = '7'

CONFIGS = {
    # name: (defines, description)
    'main': (['-DZCHUNK_ZSTD', '-DZCHUNK_OPENSSL'], 'pinned build: zstd + OpenSSL EVP'),
    'bundled-hash': (['-DZCHUNK_ZSTD'], 'bundled SHA implementations'),
    'no-zstd': (['-DZCHUNK_OPENSSL'], 'without zstd'),
    'old-zstd': (['-DZCHUNK_ZSTD', '-DZCHUNK_OPENSSL', '-DOLD_ZSTD'], 'zstd < 1.4 API'),
    'openssl-deprecated': (['-DZCHUNK_ZSTD', '-DZCHUNK_OPENSSL', '-DZCHUNK_OPENSSL_DEPRECATED'],
                           'OpenSSL < 3 SHA*_ API'),
}


class AnalysisBroken(Exception):
    pass


def repo_path(*p):
    return os.path.join(REPO, *p)


def ensure_include():
    os.makedirs(INC, exist_ok=True)
    src = repo_path('include', 'zck.h.in')
    if not os.path.exists(src):
        raise AnalysisBroken('include/zck.h.in not found')
    version = '0.0.0'
    try:
        m = re.search(r"version\s*:\s*'([^']+)'", open(repo_path('meson.build')).read())
        if m:
            version = m.group(1)
    except OSError:
        pass
    text = open(src).read().replace('@version@', version)
    dst = os.path.join(INC, 'zck.h')
    if not os.path.exists(dst) or open(dst).read() != text:
        with open(dst, 'w') as f:
            f.write(text)
    return dst


def unit_list(config):
    """Units compiled by the build (derived from the meson files), cross-checked
    against a glob of src/**/*.c."""
    defs = CONFIGS[config][0]
    lib = []
    for root, dirs, files in os.walk(repo_path('src', 'lib')):
        if 'win32' in root.split(os.sep):
            continue
        for fn in files:
            if fn.endswith('.c'):
                lib.append(os.path.join(root, fn))
    tools = [os.path.join(repo_path('src'), fn) for fn in os.listdir(repo_path('src'))
             if fn.endswith('.c')]
    # meson-derived list
    meson_units = set()

    def scan_meson(path, base):
        try:
            text = open(path).read()
        except OSError:
            return
        for m in re.finditer(r"'([A-Za-z0-9_./-]+\.c)'", text):
            p = os.path.normpath(os.path.join(base, m.group(1)))
            if os.path.exists(p):
                meson_units.add(p)
    for root, dirs, files in os.walk(repo_path('src')):
        if 'meson.build' in files:
            scan_meson(os.path.join(root, 'meson.build'), root)
    units = []
    for p in sorted(lib + tools):
        rel = os.path.relpath(p, REPO)
        if '/hash/openssl/' in p and '-DZCHUNK_OPENSSL' not in defs:
            continue
        if '/hash/bundled/' in p and '-DZCHUNK_OPENSSL' in defs:
            continue
        if '/comp/zstd/' in p and '-DZCHUNK_ZSTD' not in defs:
            continue
        if os.path.basename(p) == 'zck_gen_zdict.c' and '-DZCHUNK_ZSTD' not in defs:
            continue
        if os.path.basename(p) == 'memmem.c':
            # only compiled on platforms without memmem(); still parse it
            pass
        units.append(p)
    missing = [p for p in meson_units if p not in lib + tools and '/win32/' not in p]
    if missing:
        raise AnalysisBroken('meson lists units the analyser does not find: %s' % missing)
    unlisted = [p for p in units if p not in meson_units]
    return units, unlisted


def flags(config):
    return ['-std=gnu11', '-D_FILE_OFFSET_BITS=64'] + CONFIGS[config][0] + \
        ['-I' + INC, '-I' + repo_path('src', 'lib'), '-I' + repo_path('src')]


def tree_hash(config):
    h = hashlib.sha256()
    h.update(FRONTEND_VERSION.encode())
    h.update(config.encode())
    h.update(open(os.path.abspath(__file__), 'rb').read())
    h.update(open(os.path.join(os.path.dirname(os.path.abspath(__file__)), 'ir.py'), 'rb').read())
    paths = []
    for base in ('src', 'include'):
        for root, dirs, files in os.walk(repo_path(base)):
            for fn in files:
                if fn.endswith(('.c', '.h', '.in', '.build')):
                    paths.append(os.path.join(root, fn))
    for extra in ('meson.build', 'meson_options.txt'):
        paths.append(repo_path(extra))
    for p in sorted(paths):
        try:
            data = open(p, 'rb').read()
        except OSError:
            continue
        h.update(p.encode())
        h.update(hashlib.sha256(data).digest())
    return h.hexdigest()


# ------------------------------------------------------------------ conversion

class Loc(object):
    __slots__ = ('file', 'line', 'sfile', 'sline')

    def __init__(self):
        self.file = None
        self.line = 0


class Converter(object):
    def __init__(self, unit):
        self.unit = unit
        self.cur_file = None
        self.cur_line = 0
        self.funcs = []
        self.globals = []
        self.records = {}
        self.bitfields = {}
        self.enums = {}
        self.typedefs = {}
        self.protos = {}
        self.record_ids = {}
        self._relcache = {}

    # -- location tracking (document order) --
    def relmap(self, f):
        r = self._relcache.get(f)
        if r is None:
            if f.startswith(REPO + '/'):
                r = f[len(REPO) + 1:]
            elif f.startswith(INC + '/'):
                r = 'include/' + f[len(INC) + 1:]
            else:
                r = f
            self._relcache[f] = r
        return r

    def _bare(self, d):
        if 'file' in d:
            self.cur_file = self.relmap(d['file'])
        if 'line' in d:
            self.cur_line = d['line']
        return self.cur_file, self.cur_line

    def _loc(self, d):
        """Update the tracker with one location object and return the
        (file, line, macro?) of its expansion point."""
        if not d:
            return self.cur_file, self.cur_line, None
        if 'spellingLoc' in d or 'expansionLoc' in d:
            sp = self._bare(d.get('spellingLoc', {}))
            ex = self._bare(d.get('expansionLoc', {}))
            return ex[0], ex[1], sp
        f, l = self._bare(d)
        return f, l, None

    def node_loc(self, n):
        """Process loc/range of node n in document order; return location of
        range.begin (expansion), end line, and macro spelling if any."""
        res = None
        endline = 0
        for key in n:
            if key == 'loc':
                r = self._loc(n['loc'])
                if res is None:
                    res = r
            elif key == 'range':
                rg = n['range']
                b = self._loc(rg.get('begin', {}))
                e = self._loc(rg.get('end', {}))
                res = b
                endline = e[1]
            elif key == 'inner':
                break
        if res is None:
            res = (self.cur_file, self.cur_line, None)
        return res[0], res[1], res[2], endline

    def skip(self, n):
        """Walk a subtree only for its location side effects."""
        stack = [n]
        # iterative DFS in document order
        while stack:
            x = stack.pop()
            if not isinstance(x, dict):
                continue
            for key in x:
                if key == 'loc':
                    self._loc(x['loc'])
                elif key == 'range':
                    self._loc(x['range'].get('begin', {}))
                    self._loc(x['range'].get('end', {}))
            inner = x.get('inner')
            if inner:
                for c in reversed(inner):
                    stack.append(c)

    # -- top level --
    def convert(self, tu):
        for n in tu.get('inner', []):
            self.top(n)

    def in_repo(self, f):
        return f is not None and not f.startswith('/')

    def top(self, n):
        kind = n.get('kind')
        f, l, mac, endl = self.node_loc(n)
        if not self.in_repo(f):
            if kind == 'EnumDecl' or kind == 'RecordDecl' or kind == 'TypedefDecl':
                pass
            self.skip_children(n)
            return
        if kind == 'FunctionDecl':
            self.function(n, f, l, endl)
        elif kind == 'VarDecl':
            self.global_var(n, f, l, None)
        elif kind == 'RecordDecl':
            self.record(n)
        elif kind == 'EnumDecl':
            self.enum(n)
        elif kind == 'TypedefDecl':
            self.typedefs[n.get('name')] = n.get('type', {}).get('qualType')
            self.skip_children(n)
        else:
            self.skip_children(n)

    def skip_children(self, n):
        for c in n.get('inner', []) or []:
            self.skip(c)

    def record(self, n):
        name = n.get('name')
        fields = []
        for c in n.get('inner', []) or []:
            self.node_loc(c)
            if c.get('kind') == 'FieldDecl':
                ty = c.get('type', {})
                fields.append((c.get('name'), ty.get('qualType'), ty.get('desugaredQualType'), c.get('id')))
                if c.get('isBitfield'):
                    def _val(x):
                        if isinstance(x, dict):
                            if 'value' in x and x.get('kind') in ('ConstantExpr', 'IntegerLiteral'):
                                return x['value']
                            for y in x.get('inner', []) or []:
                                v = _val(y)
                                if v is not None:
                                    return v
                        return None
                    w = _val({'inner': c.get('inner', [])})
                    try:
                        self.bitfields[(name, c.get('name'))] = (int(w), ty.get('desugaredQualType') or ty.get('qualType'))
                    except (TypeError, ValueError):
                        self.bitfields[(name, c.get('name'))] = (None, ty.get('qualType'))
            self.skip_children(c)
        if name and fields:
            self.records[name] = fields
        if n.get('id'):
            self.record_ids[n['id']] = name

    def enum(self, n):
        val = -1
        for c in n.get('inner', []) or []:
            self.node_loc(c)
            if c.get('kind') == 'EnumConstantDecl':
                v = None
                for cc in c.get('inner', []) or []:
                    v2 = self.const_from_json(cc)
                    if v2 is not None:
                        v = v2
                if v is None:
                    val = val + 1
                else:
                    val = v
                self.enums[c.get('name')] = val
            self.skip_children(c)

    def const_from_json(self, n):
        k = n.get('kind')
        if k == 'ConstantExpr' and 'value' in n:
            try:
                return int(n['value'])
            except ValueError:
                return None
        if k == 'IntegerLiteral':
            return int(n['value'])
        for c in n.get('inner', []) or []:
            v = self.const_from_json(c)
            if v is not None:
                if k == 'UnaryOperator' and n.get('opcode') == '-':
                    return -v
                return v
        return None

    def global_var(self, n, f, l, func):
        g = GlobalVar()
        g.name = n.get('name')
        g.unit = self.unit
        g.file = f
        g.line = l
        ty = n.get('type', {})
        g.type = ty.get('qualType')
        g.dtype = ty.get('desugaredQualType')
        g.static = n.get('storageClass') == 'static'
        g.extern = n.get('storageClass') == 'extern'
        g.const = is_const_object_type(g.type or '')
        g.declid = n.get('id')
        g.func = func
        g.init = None
        first = True
        for c in n.get('inner', []) or []:
            if first and 'init' in n and isinstance(c, dict) and not c.get('kind', '').endswith('Attr'):
                g.init = self.expr(c)
                first = False
            else:
                self.skip(c)
        self.globals.append(g)
        return g

    def function(self, n, f, l, endl):
        name = n.get('name')
        ty = n.get('type', {}).get('qualType', '')
        body = None
        params = []
        attrs = []
        has_body = any(isinstance(c, dict) and c.get('kind') == 'CompoundStmt' for c in n.get('inner', []) or [])
        fn = Func()
        fn.name = name
        fn.unit = self.unit
        fn.file = f
        fn.line = l
        fn.endline = endl
        fn.static = n.get('storageClass') == 'static'
        fn.rtype = ty.split('(')[0].strip()
        fn.rdtype = None
        fn.declid = n.get('id')
        self._curfn = fn
        for c in n.get('inner', []) or []:
            k = c.get('kind')
            if k == 'ParmVarDecl':
                cf, cl, cm, ce = self.node_loc(c)
                t = c.get('type', {})
                params.append(E('var', op=c.get('name'), t=t.get('qualType'), dt=t.get('desugaredQualType'),
                                decl=c.get('id'), dk='ParmVarDecl', file=cf, line=cl))
                self.skip_children(c)
            elif k == 'CompoundStmt' and has_body:
                body = self.stmt(c)
            else:
                if k and k.endswith('Attr'):
                    attrs.append(k)
                self.skip(c)
        fn.params = params
        fn.attrs = attrs
        if not has_body:
            prev = self.protos.get(name)
            self.protos[name] = {'static': fn.static, 'type': ty, 'attrs': attrs + (prev['attrs'] if prev else []),
                                 'file': f, 'line': l}
            return
        if name in self.protos:
            fn.attrs = list(set(fn.attrs + self.protos[name]['attrs']))
            if self.protos[name]['static']:
                fn.static = True
        fn.body = body
        fn.qname = (self.unit + '::' + name) if fn.static else name
        self.funcs.append(fn)

    # -- statements --
    def stmt(self, n):
        if not isinstance(n, dict) or not n:
            return None
        k = n.get('kind')
        f, l, mac, endl = self.node_loc(n)
        inner = n.get('inner') or []
        mk = dict(file=f, line=l, macro=mac, uid=n.get('id'), endline=endl)
        if k == 'CompoundStmt':
            return S('compound', body=[self.stmt(c) for c in inner], **mk)
        if k == 'IfStmt':
            # [cond, then, else?]  (C: no init/condvar)
            cond = self.expr(inner[0])
            then = self.stmt(inner[1]) if len(inner) > 1 else None
            els = self.stmt(inner[2]) if len(inner) > 2 else None
            return S('if', e=cond, then=then, els=els, **mk)
        if k == 'WhileStmt':
            cond = self.expr(inner[0])
            body = self.stmt(inner[1]) if len(inner) > 1 else None
            return S('while', e=cond, body=body, **mk)
        if k == 'DoStmt':
            body = self.stmt(inner[0])
            cond = self.expr(inner[1]) if len(inner) > 1 else None
            return S('do', e=cond, body=body, **mk)
        if k == 'ForStmt':
            # [init, condvar, cond, inc, body]
            init = self.stmt_or_expr(inner[0]) if len(inner) > 0 else None
            if len(inner) > 1 and inner[1]:
                self.skip(inner[1])
            cond = self.expr(inner[2]) if len(inner) > 2 and inner[2] else None
            inc = self.expr(inner[3]) if len(inner) > 3 and inner[3] else None
            body = self.stmt(inner[4]) if len(inner) > 4 else None
            return S('for', init=init, e=cond, inc=inc, body=body, **mk)
        if k == 'SwitchStmt':
            cond = self.expr(inner[0])
            body = self.stmt(inner[1]) if len(inner) > 1 else None
            return S('switch', e=cond, body=body, **mk)
        if k == 'CaseStmt':
            val = self.expr(inner[0])
            sub = None
            rest = inner[1:]
            # GNU case range has two exprs; ignore (not used)
            if rest:
                sub = self.stmt(rest[-1])
                for extra in rest[:-1]:
                    self.skip(extra)
            return S('case', e=val, body=sub, **mk)
        if k == 'DefaultStmt':
            sub = self.stmt(inner[0]) if inner else None
            return S('default', body=sub, **mk)
        if k == 'BreakStmt':
            return S('break', **mk)
        if k == 'ContinueStmt':
            return S('continue', **mk)
        if k == 'GotoStmt':
            return S('goto', label=n.get('targetLabelDeclId'), **mk)
        if k == 'LabelStmt':
            sub = self.stmt(inner[0]) if inner else None
            return S('label', label=n.get('declId'), body=sub, var=n.get('name'), **mk)
        if k == 'ReturnStmt':
            e = self.expr(inner[0]) if inner else None
            return S('return', e=e, **mk)
        if k == 'NullStmt':
            return S('null', **mk)
        if k == 'DeclStmt':
            decls = []
            for c in inner:
                ck = c.get('kind')
                if ck == 'VarDecl':
                    cf, cl, cm, ce = self.node_loc(c)
                    t = c.get('type', {})
                    static = c.get('storageClass') == 'static'
                    var = E('var', op=c.get('name'), t=t.get('qualType'), dt=t.get('desugaredQualType'),
                            decl=c.get('id'), dk='VarDecl', file=cf, line=cl)
                    init = None
                    first = True
                    for cc in c.get('inner', []) or []:
                        if first and 'init' in c and isinstance(cc, dict) and not cc.get('kind', '').endswith('Attr'):
                            init = self.expr(cc)
                            first = False
                        else:
                            self.skip(cc)
                    if static:
                        g = GlobalVar()
                        g.name = c.get('name')
                        g.unit = self.unit
                        g.file = cf
                        g.line = cl
                        g.type = t.get('qualType')
                        g.dtype = t.get('desugaredQualType')
                        g.static = True
                        g.extern = False
                        g.const = is_const_object_type(g.type or '')
                        g.declid = c.get('id')
                        g.func = self._curfn.name
                        g.init = init
                        self.globals.append(g)
                    self._curfn.locals[c.get('id')] = var
                    decls.append(S('decl', var=var, e=init, static=static, file=cf, line=cl, macro=mac, uid=c.get('id')))
                else:
                    self.skip(c)
            if len(decls) == 1:
                return decls[0]
            return S('compound', body=decls, **mk)
        # expression statement
        e = self.expr_node(n, f, l, mac)
        return S('expr', e=e, **mk)

    def stmt_or_expr(self, n):
        if not isinstance(n, dict) or not n:
            return None
        k = n.get('kind', '')
        if k.endswith('Stmt') and k != 'StmtExpr':
            return self.stmt(n)
        f, l, mac, endl = self.node_loc(n)
        return S('expr', e=self.expr_node(n, f, l, mac), file=f, line=l, macro=mac, uid=n.get('id'))

    # -- expressions --
    def expr(self, n):
        if not isinstance(n, dict) or not n:
            return None
        f, l, mac, endl = self.node_loc(n)
        return self.expr_node(n, f, l, mac)

    def expr_node(self, n, f, l, mac):
        k = n.get('kind')
        ty = n.get('type', {}) or {}
        t = ty.get('qualType')
        dt = ty.get('desugaredQualType')
        inner = n.get('inner') or []
        mk = dict(t=t, dt=dt, file=f, line=l, uid=n.get('id'), macro=mac)
        if k == 'IntegerLiteral':
            return E('int', val=int(n['value']), **mk)
        if k == 'CharacterLiteral':
            return E('int', val=int(n['value']), op='char', **mk)
        if k == 'FloatingLiteral':
            return E('float', val=n.get('value'), **mk)
        if k == 'StringLiteral':
            return E('str', val=n.get('value'), **mk)
        if k == 'PredefinedExpr':
            for c in inner:
                self.skip(c)
            return E('str', val='"' + self._curfn.name + '"', op='__func__', **mk)
        if k == 'ParenExpr':
            return self.expr(inner[0])
        if k == 'ConstantExpr':
            e = self.expr(inner[0])
            if 'value' in n and e is not None and e.k not in ('int',):
                try:
                    e.val = int(n['value'])
                except ValueError:
                    pass
            return e
        if k == 'DeclRefExpr':
            rd = n.get('referencedDecl', {})
            rt = rd.get('type', {})
            e = E('var', op=rd.get('name'), decl=rd.get('id'), dk=rd.get('kind'), **mk)
            if rd.get('kind') == 'EnumConstantDecl':
                e.val = self.enums.get(rd.get('name'))
            return e
        if k == 'MemberExpr':
            base = self.expr(inner[0])
            return E('mem', op=n.get('name'), a=[base], arrow=bool(n.get('isArrow')), decl=n.get('referencedMemberDecl'), **mk)
        if k == 'UnaryOperator':
            op = n.get('opcode')
            sub = self.expr(inner[0])
            if op == '__extension__':
                return sub
            # canonical forms (behaviour-preserving spellings must give the same IR):
            #   &a[i]  ->  a + i        *(a + i)  ->  a[i]
            core = sub
            while core is not None and core.k == 'paren':
                core = core.a[0]
            if op == '&' and core is not None and core.k == 'idx':
                return E('bin', op='+', a=[core.a[0], core.a[1]], **mk)
            if op == '*' and core is not None and core.k == 'bin' and core.op == '+' and \
                    (core.a[0].t or '').rstrip().endswith('*') and not (core.a[1].t or '').rstrip().endswith('*'):
                return E('idx', a=[core.a[0], core.a[1]], **mk)
            return E('un', op=op, a=[sub], post=bool(n.get('isPostfix')), **mk)
        if k == 'BinaryOperator':
            a = self.expr(inner[0])
            b = self.expr(inner[1])
            if n.get('opcode') == '=':
                #   x = x + e  ->  x += e      x = x - e  ->  x -= e     (x a side-effect free lvalue)
                rb = b
                while rb is not None and rb.k in ('paren', 'cast') and rb.a:
                    if rb.k == 'cast' and rb.macro == 'explicit':
                        break
                    rb = rb.a[0]
                if rb is not None and rb.k == 'bin' and rb.op in ('+', '-') and _pure_lvalue(a):
                    l0 = rb.a[0]
                    while l0 is not None and l0.k in ('paren', 'cast') and l0.a and not (l0.k == 'cast' and l0.macro == 'explicit'):
                        l0 = l0.a[0]
                    from .ir import show as _show
                    if l0 is not None and _pure_lvalue(l0) and _show(l0) == _show(a):
                        return E('bin', op=rb.op + '=', a=[a, rb.a[1]], **mk)
                    if rb.op == '+':
                        r0 = rb.a[1]
                        while r0 is not None and r0.k in ('paren', 'cast') and r0.a and not (r0.k == 'cast' and r0.macro == 'explicit'):
                            r0 = r0.a[0]
                        if r0 is not None and _pure_lvalue(r0) and _show(r0) == _show(a) and \
                                not (a.t or '').rstrip().endswith('*'):
                            return E('bin', op='+=', a=[a, rb.a[0]], **mk)
            return E('bin', op=n.get('opcode'), a=[a, b], **mk)
        if k == 'CompoundAssignOperator':
            a = self.expr(inner[0])
            b = self.expr(inner[1])
            return E('bin', op=n.get('opcode'), a=[a, b], **mk)
        if k == 'CallExpr':
            ch = [self.expr(c) for c in inner]
            return E('call', a=ch, **mk)
        if k == 'ImplicitCastExpr':
            sub = self.expr(inner[0])
            ck = n.get('castKind')
            if ck == 'NullToPointer':
                return E('null', **mk)
            e = E('cast', op=ck, a=[sub], **mk)
            e.macro = 'implicit'
            return e
        if k == 'CStyleCastExpr':
            sub = self.expr(inner[0])
            ck = n.get('castKind')
            if ck == 'NullToPointer':
                return E('null', **mk)
            e = E('cast', op=ck, a=[sub], **mk)
            e.macro = 'explicit'
            return e
        if k == 'ArraySubscriptExpr':
            a = self.expr(inner[0])
            b = self.expr(inner[1])
            return E('idx', a=[a, b], **mk)
        if k == 'ConditionalOperator':
            c = self.expr(inner[0])
            a = self.expr(inner[1])
            b = self.expr(inner[2])
            return E('cond', a=[c, a, b], **mk)
        if k == 'BinaryConditionalOperator':
            ch = [self.expr(c) for c in inner]
            return E('opaque', op=k, a=[c for c in ch if c is not None], **mk)
        if k == 'UnaryExprOrTypeTraitExpr':
            at = n.get('argType', {}).get('qualType')
            ch = [self.expr(c) for c in inner]
            e = E('sizeof', op=at or n.get('name'), a=[c for c in ch if c is not None], **mk)
            e.val = sizeof_of(at) if at else (sizeof_of(ch[0].t) if ch and ch[0] is not None and n.get('name') == 'sizeof' else None)
            if n.get('name') != 'sizeof':
                e.val = None
            return e
        if k == 'InitListExpr':
            ch = []
            # clang puts the children of a partially initialised array under "array_filler": the filler first,
            # then the explicit initialisers
            af = n.get('array_filler')
            if af and not inner:
                inner = af[1:]
            for c in inner:
                if isinstance(c, dict) and c.get('kind'):
                    ch.append(self.expr(c))
            return E('init', a=[c for c in ch if c is not None], **mk)
        if k == 'ImplicitValueInitExpr':
            return E('int', val=0, **mk)
        if k == 'StmtExpr':
            body = self.stmt(inner[0]) if inner else None
            return E('stmtexpr', body=body, **mk)
        if k == 'CompoundLiteralExpr':
            ch = [self.expr(c) for c in inner]
            return E('opaque', op=k, a=[c for c in ch if c is not None], **mk)
        # anything else: keep children for call discovery
        ch = []
        for c in inner:
            if isinstance(c, dict) and c.get('kind'):
                kk = c.get('kind', '')
                if kk.endswith('Stmt') and kk != 'StmtExpr':
                    self.skip(c)
                else:
                    x = self.expr(c)
                    if x is not None:
                        ch.append(x)
        return E('opaque', op=k, a=ch, **mk)


def is_const_object_type(t):
    """True when an object of type t can never be written (const at the level of
    the object itself: `const char *x[]` is an array of mutable pointers to
    const char and therefore NOT const; `const char *const x[]` is)."""
    t = t.strip()
    # strip array suffixes
    core = re.sub(r'\[[^\]]*\]', '', t).strip()
    if core.endswith('*'):
        return False
    if core.endswith('const') and '*' in core:
        return True
    if '*' in core:
        # e.g. "const char *const" handled above; "char *" not const
        return False
    return core.startswith('const ') or ' const' in core


def sizeof_of(t):
    if not t:
        return None
    t = t.replace('const ', '').strip()
    table = {'char': 1, 'unsigned char': 1, 'signed char': 1, '_Bool': 1, 'bool': 1, 'uint8_t': 1,
             'short': 2, 'unsigned short': 2, 'uint16_t': 2,
             'int': 4, 'unsigned int': 4, 'uint32_t': 4, 'int32_t': 4,
             'long': 8, 'unsigned long': 8, 'size_t': 8, 'ssize_t': 8, 'off_t': 8,
             'long long': 8, 'unsigned long long': 8, 'uint64_t': 8, 'int64_t': 8, 'float': 4, 'double': 8}
    if t in table:
        return table[t]
    if t.endswith('*'):
        return 8
    m = re.match(r'^(.*)\[(\d+)\]$', t)
    if m:
        b = sizeof_of(m.group(1).strip())
        return None if b is None else b * int(m.group(2))
    return None


class Unit(object):
    def __init__(self):
        self.path = None
        self.funcs = []
        self.globals = []
        self.records = {}
        self.enums = {}
        self.typedefs = {}
        self.protos = {}
        self.diagnostics = ''


def parse_unit(args):
    path, config, cpath = args
    if cpath and os.path.exists(cpath):
        try:
            with open(cpath, 'rb') as f:
                return ('ok', path, f.read())
        except OSError:
            pass
    cmd = ['clang'] + flags(config) + ['-fsyntax-only', '-Xclang', '-ast-dump=json', path]
    p = subprocess.run(cmd, stdout=subprocess.PIPE, stderr=subprocess.PIPE)
    if p.returncode != 0:
        return ('error', path, p.stderr.decode(errors='replace')[-2000:])
    tu = json.loads(p.stdout)
    conv = Converter(os.path.relpath(path, REPO))
    sys.setrecursionlimit(20000)
    conv.convert(tu)
    u = Unit()
    u.path = os.path.relpath(path, REPO)
    u.funcs = conv.funcs
    u.globals = conv.globals
    u.records = conv.records
    u.bitfields = conv.bitfields
    u.enums = conv.enums
    u.typedefs = conv.typedefs
    u.protos = conv.protos
    u.diagnostics = p.stderr.decode(errors='replace')
    blob = pickle.dumps(u, protocol=pickle.HIGHEST_PROTOCOL)
    if cpath:
        try:
            os.makedirs(os.path.dirname(cpath), exist_ok=True)
            tmp = cpath + '.%d.tmp' % os.getpid()
            with open(tmp, 'wb') as f:
                f.write(blob)
            os.replace(tmp, cpath)
        except OSError:
            pass
    return ('ok', path, blob)


def _pure_lvalue(e):
    """variable, member chain, *p or p[const] of those: no side effects, same object when spelled twice"""
    while e is not None and e.k == 'paren':
        e = e.a[0]
    if e is None:
        return False
    if e.k == 'var':
        return True
    if e.k == 'mem':
        return _pure_lvalue(e.a[0])
    if e.k == 'un' and e.op == '*':
        x = e.a[0]
        while x is not None and x.k in ('paren', 'cast') and x.a:
            x = x.a[0]
        return x is not None and x.k == 'var'
    if e.k == 'cast' and e.macro != 'explicit' and e.a:
        return _pure_lvalue(e.a[0])
    return False


def header_hash():
    """Hash of everything a unit can include from the repository (path independent)."""
    h = hashlib.sha256()
    h.update(FRONTEND_VERSION.encode())
    h.update(open(os.path.abspath(__file__), 'rb').read())
    h.update(open(os.path.join(os.path.dirname(os.path.abspath(__file__)), 'ir.py'), 'rb').read())
    paths = []
    for base in ('src', 'include'):
        for root, dirs, files in os.walk(repo_path(base)):
            for fn in files:
                if fn.endswith(('.h', '.in')):
                    paths.append(os.path.join(root, fn))
    paths.append(repo_path('meson.build'))
    for p in sorted(paths):
        try:
            data = open(p, 'rb').read()
        except OSError:
            continue
        h.update(os.path.relpath(p, REPO).encode())
        h.update(hashlib.sha256(data).digest())
    return h.hexdigest()


def load_units(config='main', use_cache=True, jobs=16):
    """Parse every unit of a configuration (parallel).  Per-unit cache keyed by
    the unit's content, every repository header's content, the configuration
    and the front end's own source: an edit anywhere invalidates what it must."""
    ensure_include()
    units, unlisted = unit_list(config)
    hh = header_hash()
    sys.setrecursionlimit(20000)
    jobs_in = []
    keys = []
    for u in units:
        h = hashlib.sha256()
        h.update(hh.encode())
        h.update(config.encode())
        h.update(os.path.relpath(u, REPO).encode())
        h.update(open(u, 'rb').read())
        k = h.hexdigest()
        keys.append(k)
        cpath = os.path.join(CACHE, k[:2], k[:40] + '.pickle') if use_cache else None
        jobs_in.append((u, config, cpath))
    out = []
    todo = [j for j in jobs_in if not (j[2] and os.path.exists(j[2]))]
    results = {}
    for j in jobs_in:
        if j not in todo:
            st, path, payload = parse_unit(j)
            results[path] = (st, payload)
    if todo:
        with ProcessPoolExecutor(max_workers=min(jobs, len(todo))) as ex:
            for status, path, payload in ex.map(parse_unit, todo):
                results[path] = (status, payload)
    for u in units:
        status, payload = results[u]
        if status != 'ok':
            raise AnalysisBroken('unit %s failed to parse under config %s:\n%s' % (os.path.relpath(u, REPO), config, payload))
        out.append(pickle.loads(payload))
    th = hashlib.sha256(('|'.join(keys)).encode()).hexdigest()
    return {'config': config, 'units': out, 'unlisted': [os.path.relpath(x, REPO) for x in unlisted], 'key': th}


def prune_cache(max_files=600):
    try:
        files = []
        for root, dirs, fns in os.walk(CACHE):
            for fn in fns:
                p = os.path.join(root, fn)
                files.append((os.path.getmtime(p), p))
        files.sort()
        for _, p in files[:-max_files]:
            os.unlink(p)
    except OSError:
        pass

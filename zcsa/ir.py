"""Intermediate representation shared by all rules.

Expressions (class E) and statements (class S) are built from clang's JSON AST by
frontend.py.  Nothing here looks at source text: identity of variables is the
clang declaration id, identity of fields is the member name plus the record type
of the base expression, identity of callees is the referenced FunctionDecl.
"""


class E(object):
    """Expression node.

    k     kind: int str null var mem un bin call cast idx cond sizeof init stmtexpr opaque
    op    operator / cast kind / member name / variable name
    a     children
    t     C type as spelled (qualType), dt desugared type when clang gave one
    val   integer value for 'int' (python int) / string for 'str'
    decl  declaration id for 'var'; dk = declaration kind (ParmVarDecl, VarDecl, FunctionDecl, EnumConstantDecl)
    arrow for 'mem'
    file,line  expansion location of the beginning of the expression
    uid   unique id of the node inside its translation unit (clang node id)
    """
    __slots__ = ('k', 'op', 'a', 't', 'dt', 'val', 'decl', 'dk', 'arrow',
                 'file', 'line', 'uid', 'post', 'body', 'macro')

    def __init__(self, k, op=None, a=None, t=None, dt=None, val=None, decl=None,
                 dk=None, arrow=False, file=None, line=0, uid=None, post=False,
                 body=None, macro=None):
        self.k = k
        self.op = op
        self.a = a or []
        self.t = t
        self.dt = dt
        self.val = val
        self.decl = decl
        self.dk = dk
        self.arrow = arrow
        self.file = file
        self.line = line
        self.uid = uid
        self.post = post
        self.body = body
        self.macro = macro

    def __repr__(self):
        return 'E<%s>' % show(self)


class S(object):
    """Statement node.

    k: compound if while do for switch case default break continue goto label
       return expr decl null
    For 'decl': var = E('var') of the declared local, e = initialiser or None,
                static = True for function-local statics.
    """
    __slots__ = ('k', 'e', 'body', 'then', 'els', 'init', 'inc', 'var', 'label',
                 'file', 'line', 'static', 'macro', 'uid', 'endline')

    def __init__(self, k, e=None, body=None, then=None, els=None, init=None,
                 inc=None, var=None, label=None, file=None, line=0, static=False,
                 macro=None, uid=None, endline=0):
        self.k = k
        self.e = e
        self.body = body
        self.then = then
        self.els = els
        self.init = init
        self.inc = inc
        self.var = var
        self.label = label
        self.file = file
        self.line = line
        self.static = static
        self.macro = macro
        self.uid = uid
        self.endline = endline


class Func(object):
    __slots__ = ('name', 'unit', 'file', 'line', 'endline', 'params', 'body', 'rtype', 'rdtype',
                 'static', 'qname', 'cfg', 'attrs', 'declid', 'locals')

    def __init__(self):
        self.cfg = None
        self.attrs = []
        self.locals = {}


class GlobalVar(object):
    __slots__ = ('name', 'unit', 'file', 'line', 'type', 'dtype', 'static', 'const',
                 'init', 'declid', 'func', 'extern')


# ---------------------------------------------------------------- helpers

TRANSPARENT_CASTS = ('LValueToRValue', 'NoOp', 'FunctionToPointerDecay',
                     'ArrayToPointerDecay', 'BitCast', 'NullToPointer',
                     'IntegralToBoolean', 'PointerToBoolean')


def strip(e):
    """Remove every cast (implicit or explicit) around e."""
    while e is not None and e.k == 'cast':
        e = e.a[0]
    return e


def strip_transparent(e):
    """Remove only casts that do not change the value's representation class."""
    while e is not None and e.k == 'cast' and e.op in TRANSPARENT_CASTS:
        e = e.a[0]
    return e


def walk(e):
    """Pre-order walk over an expression tree (including nested statement
    expressions' expressions)."""
    if e is None:
        return
    stack = [e]
    while stack:
        n = stack.pop()
        yield n
        if n.k == 'stmtexpr' and n.body is not None:
            for x in stmt_exprs(n.body):
                stack.append(x)
        for c in reversed(n.a):
            if c is not None:
                stack.append(c)


def walk_eval_order(e):
    """Post-order (evaluation order: operands before operator, args left to
    right) walk."""
    if e is None:
        return
    if e.k == 'stmtexpr' and e.body is not None:
        for x in stmt_exprs(e.body):
            for y in walk_eval_order(x):
                yield y
    for c in e.a:
        if c is not None:
            for y in walk_eval_order(c):
                yield y
    yield e


def stmt_exprs(s):
    """All top-level expressions held by a statement subtree."""
    if s is None:
        return
    if isinstance(s, list):
        for x in s:
            for y in stmt_exprs(x):
                yield y
        return
    for attr in ('e',):
        x = getattr(s, attr)
        if x is not None:
            yield x
    for attr in ('init', 'inc'):
        x = getattr(s, attr)
        if x is not None:
            if isinstance(x, S) or isinstance(x, list):
                for y in stmt_exprs(x):
                    yield y
            else:
                yield x
    for attr in ('body', 'then', 'els'):
        x = getattr(s, attr)
        if x is not None:
            for y in stmt_exprs(x):
                yield y


def walk_stmts(s):
    """Pre-order walk over statements."""
    if s is None:
        return
    if isinstance(s, list):
        for x in s:
            for y in walk_stmts(x):
                yield y
        return
    yield s
    for attr in ('init', 'body', 'then', 'els'):
        x = getattr(s, attr)
        if x is not None and (isinstance(x, S) or isinstance(x, list)):
            for y in walk_stmts(x):
                yield y
    # statement expressions nested in expressions
    for ex in (s.e, s.inc if not isinstance(s.inc, (S, list)) else None):
        if ex is not None:
            for n in walk(ex):
                if n.k == 'stmtexpr' and n.body is not None:
                    for y in walk_stmts(n.body):
                        yield y


def calls_in(e):
    """Call nodes inside e in evaluation order."""
    return [n for n in walk_eval_order(e) if n.k == 'call']


def callee_name(call):
    """Name of a directly called function, or None for an indirect call."""
    c = strip(call.a[0])
    if c.k == 'var' and c.dk == 'FunctionDecl':
        return c.op
    return None


def callee_field(call):
    """For an indirect call through a struct member (comp->compress(...)),
    the member name; else None."""
    c = strip(call.a[0])
    if c.k == 'un' and c.op == '*':
        c = strip(c.a[0])
    if c.k == 'mem':
        return c.op
    return None


def call_args(call):
    return call.a[1:]


def is_const(e, v=None):
    e = strip(e)
    if e is None:
        return False
    if e.k == 'int':
        return v is None or e.val == v
    if e.k == 'null':
        return v is None or v == 0
    if e.k == 'un' and e.op == '-' and strip(e.a[0]).k == 'int':
        return v is None or -strip(e.a[0]).val == v
    return False


def const_value(e):
    e = strip(e)
    if e is None:
        return None
    if e.k == 'int':
        return e.val
    if e.k == 'null':
        return 0
    if e.k == 'var' and e.dk == 'EnumConstantDecl' and e.val is not None:
        return e.val
    if e.k == 'un' and e.op == '-':
        v = const_value(e.a[0])
        return None if v is None else -v
    if e.k == 'un' and e.op == '+':
        return const_value(e.a[0])
    if e.k == 'un' and e.op == '~':
        v = const_value(e.a[0])
        return None if v is None else ~v
    if e.k == 'bin' and e.op in ('+', '-', '*', '/', '%', '|', '&', '<<', '>>', '^'):
        l = const_value(e.a[0])
        r = const_value(e.a[1])
        if l is None or r is None:
            return None
        try:
            if e.op == '+':
                return l + r
            if e.op == '-':
                return l - r
            if e.op == '*':
                return l * r
            if e.op == '/':
                return int(l / r) if r else None
            if e.op == '%':
                return l - int(l / r) * r if r else None
            if e.op == '|':
                return l | r
            if e.op == '&':
                return l & r
            if e.op == '^':
                return l ^ r
            if e.op == '<<':
                return l << r
            if e.op == '>>':
                return l >> r
        except Exception:
            return None
    if e.k == 'sizeof' and e.val is not None:
        return e.val
    return None


def show(e, depth=0):
    """Readable rendering of an expression (for reports and evidence)."""
    if e is None:
        return ''
    if depth > 12:
        return '...'
    k = e.k
    d = depth + 1
    if k == 'int':
        return str(e.val)
    if k == 'float':
        return str(e.val)
    if k == 'str':
        s = e.val if e.val is not None else ''
        return s if len(s) < 40 else s[:37] + '..."'
    if k == 'null':
        return 'NULL'
    if k == 'var':
        return e.op
    if k == 'mem':
        return show(e.a[0], d) + ('->' if e.arrow else '.') + e.op
    if k == 'un':
        if e.post:
            return show(e.a[0], d) + e.op
        inner = show(e.a[0], d)
        if strip(e.a[0]).k in ('bin', 'cond'):
            inner = '(' + inner + ')'
        return e.op + inner
    if k == 'bin':
        l = show(e.a[0], d)
        r = show(e.a[1], d)
        if strip(e.a[0]).k in ('bin', 'cond') and e.op not in ('=', ','):
            l = '(' + l + ')'
        if strip(e.a[1]).k in ('bin', 'cond') and e.op not in ('=', ','):
            r = '(' + r + ')'
        return l + ' ' + e.op + ' ' + r
    if k == 'call':
        return show(e.a[0], d) + '(' + ', '.join(show(x, d) for x in e.a[1:]) + ')'
    if k == 'cast':
        if e.op in TRANSPARENT_CASTS or e.macro == 'implicit':
            return show(e.a[0], d)
        return '(' + (e.t or '?') + ')' + show(e.a[0], d)
    if k == 'idx':
        return show(e.a[0], d) + '[' + show(e.a[1], d) + ']'
    if k == 'cond':
        return show(e.a[0], d) + ' ? ' + show(e.a[1], d) + ' : ' + show(e.a[2], d)
    if k == 'sizeof':
        if e.a:
            return 'sizeof(' + show(e.a[0], d) + ')'
        return 'sizeof(' + (e.op or '?') + ')'
    if k == 'init':
        return '{' + ', '.join(show(x, d) for x in e.a) + '}'
    if k == 'stmtexpr':
        return '({...})'
    return '<' + k + '>'


def is_unsigned_type(t, dt=None):
    x = dt or t or ''
    x = x.replace('const ', '').replace('volatile ', '').strip()
    if x in ('size_t', 'uint64_t', 'uint32_t', 'uint8_t', 'uint16_t', 'uintptr_t',
             '_Bool', 'bool', '__uint64_t', '__uint32_t', 'uintmax_t'):
        return True
    return x.startswith('unsigned')


def is_signed_int_type(t, dt=None):
    x = dt or t or ''
    x = x.replace('const ', '').replace('volatile ', '').strip()
    if x in ('int', 'long', 'short', 'long long', 'ssize_t', 'off_t', 'int64_t',
             'int32_t', 'char', 'signed char', '__ssize_t', '__off_t', 'intmax_t',
             'ptrdiff_t', '__off64_t', 'mode_t'):
        return True
    return x.startswith('signed ')


def is_pointer_type(t, dt=None):
    x = dt or t or ''
    return x.rstrip().endswith('*') or '(*)' in x


def type_width(t, dt=None):
    x = (dt or t or '').replace('const ', '').replace('volatile ', '').strip()
    table = {'char': 8, 'signed char': 8, 'unsigned char': 8, '_Bool': 8, 'bool': 8, 'uint8_t': 8,
             'short': 16, 'unsigned short': 16, 'uint16_t': 16,
             'int': 32, 'unsigned int': 32, 'uint32_t': 32, 'int32_t': 32, 'unsigned': 32,
             'long': 64, 'unsigned long': 64, 'size_t': 64, 'ssize_t': 64, 'off_t': 64,
             'long long': 64, 'unsigned long long': 64, 'uint64_t': 64, 'int64_t': 64}
    if x in table:
        return table[x]
    if is_pointer_type(x):
        return 64
    return None

"""R1.short-is-eof   the read wrapper returns a count below the requested length only at the end of the file.

Every caller of read_data() treats `result < requested` as "the file ends here" (comp_read stops reading, the header
readers and the scans fail).  read(2) may return a positive count below the request without being at the end, so the
wrapper itself has to make the two coincide: every return of a non-negative value v is either proven v >= length by
the path's comparison edges, or lies behind the edge on which a read() result was 0.
Decided with linear values per path and Fourier-Motzkin feasibility of  v <= length - 1  (constraints restart at each
loop head, where loop-assigned locals get fresh symbols).
"""
from ..flow import Z, P1, POS
from ..ir import strip, show, callee_name, const_value
from .common import SymRule, run_rule, Lin, atom_cmp
from .bounds import cons_of
from .guardlen import fm_feasible


class ShortEof(SymRule):
    name = 'R1.short-is-eof'

    def __init__(self, prog, fn, length_name):
        SymRule.__init__(self, prog, fn)
        self.length = Lin({length_name: 1})
        self.returns = 0
        self.reads = 0

    def cons(self, ts):
        return [x[1] for x in ts if isinstance(x, tuple) and len(x) == 2 and x[0] == 'c']

    def on_node(self, ctx, node, ts):
        if ctx.fn is self.fn and node.loop is not None:
            ts = frozenset(x for x in ts if not (isinstance(x, tuple) and len(x) == 2 and x[0] == 'c'))
        return SymRule.on_node(self, ctx, node, ts)

    def sym_assign(self, ctx, lhs, rhs, op, ts):
        l = strip(lhs)
        r = strip(rhs) if rhs is not None else None
        while r is not None and r.k == 'cast' and r.a:
            r = strip(r.a[0])
        if l is not None and l.k == 'var':
            ts = frozenset(x for x in ts if not (isinstance(x, tuple) and x[0] == 'rd' and x[1] == l.decl))
            if op == '=' and r is not None and r.k == 'call' and callee_name(r) == 'read':
                self.reads += 1
                ts = ts | frozenset([('rd', l.decl)])
        return ts

    def on_edge(self, ctx, node, label, refined, ts):
        if ctx.fn is not self.fn:
            return ts
        op, l, r = atom_cmp(node.e, label)
        sl = strip(l)
        if sl is not None and sl.k == 'var' and ('rd', sl.decl) in ts and op == '==' and const_value(r) == 0:
            ts = ts | frozenset(['eof'])
        if sl is not None and sl.k == 'bin' and sl.op == '=' and callee_name(strip(sl.a[1])) == 'read' and op == '==' \
                and const_value(r) == 0:
            ts = ts | frozenset(['eof'])
        lv, rv = self.value(l, ts), self.value(r, ts)
        if lv is not None and rv is not None:
            for c in cons_of(op, lv, rv):
                ts = ts | frozenset([('c', c)])
        return ts

    def on_return(self, ctx, node, mask, ts):
        if ctx.fn is not self.fn or node.e is None or not (mask & (Z | P1 | POS)):
            return ts
        cv = const_value(node.e)
        if cv is not None and cv < 0:
            return ts
        self.returns += 1
        if 'eof' in ts:
            return ts
        v = self.value(node.e, ts)
        if v is None:
            r = strip(node.e)
            while r is not None and r.k == 'cast' and r.a:
                r = strip(r.a[0])
            v = Lin({show(r): 1})
        short = self.length - v - Lin(None, 1)          # length - v - 1 >= 0
        # the early exit for an empty request returns 0 == length
        w = fm_feasible(self.cons(ts) + [short])
        if w is not None:
            self.violate(ctx, 'short-not-eof', 'return %s can hand back fewer bytes than requested (%r < %r) on a path that '
                         'never saw read() return 0: a positive short read is reported as a short count, which every '
                         'caller takes for the end of the file' % (show(node.e), v, self.length), inst='short', node=node)
        return ts


def check_short_is_eof(ck, prog, config, clause, wrapper='read_data'):
    fn = prog.need_func(wrapper)
    ln = [p for p in fn.params if p.op in ('length', 'len', 'size', 'count')]
    if not ln:
        ln = [p for p in fn.params if not (p.t or '').rstrip().endswith('*')][-1:]
    ck.require(bool(ln), '%s: length parameter not found' % wrapper)
    r = ShortEof(prog, fn, ln[0].op)
    run_rule(prog, fn, r)
    ck.require(r.reads >= 1 and r.returns >= 1, '%s no longer reads with read() into a local' % wrapper)
    ck.ob(clause, 'R1.short-is-eof', fn.name, 'short-count', not r.violations,
          '%s() returns fewer bytes than requested only behind a read() == 0 edge (%d non-negative return state(s))'
          % (wrapper, r.returns) if not r.violations else r.violations[0].msg, fn.file,
          r.violations[0].node.line if r.violations else fn.line,
          path=r.violations[0].path if r.violations else None, config=config)

"""R9.layout   tagged-buffer abstract interpretation of the bundled SHA finalisation.

The only state the *layout* of the padding depends on is the number of message bytes still buffered
(r in [0, block size), a finite set) - not the message, not its total length.  For each r the finalisation
function is interpreted over its own AST with
  * integer variables that are determined by r held as exact values, everything else unknown,
  * memory as regions of byte *tags*:  ('M', i) the i-th buffered message byte, ('C', v) a constant byte,
    ('V', text) a byte computed from an unknown value (the length), None = never written (stale),
  * callees of the same unit inlined, memcpy/memset as tag moves, the compression function as a sink that
    records the tags of the block(s) it is given.
A branch or loop condition that is not determined by r is analysis-broken (the fragment is left).  The recorded
stream must be  M^r . 0x80 . 0^z . L  with |L| the size of the length field (its last 4 bytes at least written
from the length), no stale and no message byte in the padding, and a total that is the smallest multiple of the
block size >= r + 1 + |L|  (FIPS 180-4, 5.1).  No zchunk code is executed; this is a finite partition of the
abstract state, interpreted symbolically per element.
"""
import codecs

from ..frontend import AnalysisBroken
from ..ir import strip, show, callee_name, type_width, is_unsigned_type


class Unknown(Exception):
    pass


class _Return(Exception):
    def __init__(self, v):
        self.v = v


class _Break(Exception):
    pass


class _Continue(Exception):
    pass


class Ptr(object):
    __slots__ = ('root', 'off')

    def __init__(self, root, off):
        self.root = root
        self.off = off

    def __repr__(self):
        return '&%s[%s]' % (self.root, self.off)


class Frame(object):
    def __init__(self, fn):
        self.fn = fn
        self.vars = {}      # decl id -> int | Ptr | None
        self.bind = {}      # decl id of a struct-pointer parameter -> object name
        self.tainted = set()  # decl ids of locals computed from a length cell


def wrap(v, t, dt=None):
    if v is None or isinstance(v, Ptr):
        return v
    x = (dt or t or '').replace('const ', '').strip()
    if x in ('_Bool', 'bool'):
        return 1 if v else 0
    w = type_width(t, dt)
    if w is None or x.endswith('*'):
        return v
    m = 1 << w
    v &= m - 1
    if not is_unsigned_type(t, dt) and v >= m // 2:
        v -= m
    return v


class LayoutInterp(object):
    MAX_STEPS = 200000

    def __init__(self, prog, sinks):
        """sinks: transform function name -> (pointer arg index, block size, index of the block-count arg or None)"""
        self.prog = prog
        self.sinks = sinks
        self.regions = {}    # root -> {offset: tag}
        self.scalars = {}    # access path -> int | None
        self.stream = []     # tags handed to the compression function, in order
        self.sink_calls = 0
        self.steps = 0
        self.notes = []
        self.length_cells = ()   # scalar path prefixes that hold the message length (taint sources)
        self.byname = {}
        for f in prog.funcs.values():
            self.byname.setdefault(f.name, []).append(f)

    # ---------------------------------------------------------------- memory
    def region(self, root):
        return self.regions.setdefault(root, {})

    def load_tag(self, p):
        if p is None or p.off is None:
            return None
        return self.region(p.root).get(p.off)

    def store_tag(self, p, tag):
        if p is None or p.off is None:
            raise AnalysisBroken('layout interpreter: store through a pointer with unknown offset (%r)' % (p,))
        self.region(p.root)[p.off] = tag

    # ---------------------------------------------------------------- expressions
    def obj_path(self, e, fr):
        """access path of a struct member expression with the base parameter replaced by its bound object"""
        e = strip(e)
        if e.k == 'mem':
            b = strip(e.a[0])
            if b.k == 'var' and b.decl in fr.bind:
                return '%s.%s' % (fr.bind[b.decl], e.op)
            if b.k == 'mem':
                bp = self.obj_path(b, fr)
                return None if bp is None else '%s.%s' % (bp, e.op)
            if b.k == 'un' and b.op == '*':
                bb = strip(b.a[0])
                if bb.k == 'var' and bb.decl in fr.bind:
                    return '%s.%s' % (fr.bind[bb.decl], e.op)
        return None

    def is_array(self, e):
        t = (e.dt or e.t or '')
        return '[' in t

    def lvalue(self, e, fr):
        """-> ('var', decl) | ('scalar', path) | ('byte', Ptr) | ('cell', Ptr-like path with index)"""
        e = strip(e)
        if e.k == 'var':
            return ('var', e.decl, e)
        if e.k == 'mem':
            p = self.obj_path(e, fr)
            if p is None:
                raise Unknown()
            return ('scalar', p, e)
        if e.k == 'idx':
            base = self.ev(e.a[0], fr)
            i = self.ev(e.a[1], fr)
            if not isinstance(base, Ptr):
                raise Unknown()
            w = (type_width(e.t, e.dt) or 8) // 8
            if w == 1:
                return ('byte', Ptr(base.root, None if (i is None or base.off is None) else base.off + i), e)
            # array of wider integers (count[2], state[5], h[8]): one scalar per cell
            if i is None:
                raise Unknown()
            return ('scalar', '%s[%d]' % (base.root, (base.off or 0) // w + i), e)
        if e.k == 'un' and e.op == '*':
            p = self.ev(e.a[0], fr)
            if not isinstance(p, Ptr):
                raise Unknown()
            return ('byte', p, e)
        raise Unknown()

    def tainted(self, e, fr):
        """does the value of e depend on a length cell (syntactically, through tainted locals)?"""
        if e is None or not self.length_cells:
            return False
        from ..ir import walk
        for n in walk(e):
            if n.k == 'var' and n.decl in fr.tainted:
                return True
            if n.k == 'mem':
                p = self.obj_path(n, fr)
                if p is not None and any(p == c or p.startswith(c + '[') or p.startswith(c + '.') for c in self.length_cells):
                    return True
        return False

    def read_lv(self, lv, fr):
        kind = lv[0]
        if kind == 'var':
            return fr.vars.get(lv[1])
        if kind == 'scalar':
            return self.scalars.get(lv[1])
        if kind == 'byte':
            tag = self.load_tag(lv[1])
            if tag is not None and tag[0] == 'C':
                return tag[1]
            return None
        return None

    def write_lv(self, lv, v, rhs, fr):
        kind = lv[0]
        if kind == 'var':
            fr.vars[lv[1]] = wrap(v, lv[2].t, lv[2].dt)
            if rhs is not None:
                (fr.tainted.add if self.tainted(rhs, fr) else fr.tainted.discard)(lv[1])
        elif kind == 'scalar':
            self.scalars[lv[1]] = wrap(v, lv[2].t, lv[2].dt)
        elif kind == 'byte':
            if rhs is not None and self.tainted(rhs, fr):
                self.store_tag(lv[1], ('V', show(rhs)[:40]))
            elif v is not None and not isinstance(v, Ptr):
                self.store_tag(lv[1], ('C', v & 0xff))
            else:
                self.store_tag(lv[1], ('V', show(rhs)[:40] if rhs is not None else '?'))

    def ev(self, e, fr):
        self.steps += 1
        if self.steps > self.MAX_STEPS:
            raise AnalysisBroken('layout interpreter: step limit exceeded in %s' % fr.fn.name)
        if e is None:
            return None
        k = e.k
        if k == 'int':
            return e.val
        if k == 'cast':
            v = self.ev(e.a[0], fr)
            if e.op == 'IntegralCast':
                return wrap(v, e.t, e.dt)
            if e.op in ('IntegralToBoolean', 'PointerToBoolean'):
                if v is None:
                    return None
                return 1 if (isinstance(v, Ptr) or v != 0) else 0
            return v
        if k == 'str':
            root = 'lit@%s' % e.uid
            if root not in self.regions:
                raw = codecs.decode((e.val or '""')[1:-1], 'unicode_escape').encode('latin-1') + b'\0'
                self.regions[root] = dict((i, ('C', b)) for i, b in enumerate(raw))
            return Ptr(root, 0)
        if k == 'sizeof':
            return e.val
        if k == 'var':
            if e.dk == 'EnumConstantDecl':
                return e.val
            if e.decl in fr.vars:
                v = fr.vars[e.decl]
                return v
            if self.is_array(e):
                return Ptr('local:%s@%s' % (e.op, fr.fn.name), 0)
            g = [x for x in self.prog.globals if x.name == e.op]
            if g and '[' in (g[0].type or ''):
                root = 'global:%s' % e.op
                if root not in self.regions:
                    self.regions[root] = self.global_bytes(g[0])
                return Ptr(root, 0)
            return None
        if k == 'mem':
            p = self.obj_path(e, fr)
            if p is None:
                return None
            if self.is_array(e):
                return Ptr(p, 0)
            return self.scalars.get(p)
        if k == 'idx':
            try:
                return self.read_lv(self.lvalue(e, fr), fr)
            except Unknown:
                return None
        if k == 'cond':
            c = self.ev(e.a[0], fr)
            if c is None:
                raise AnalysisBroken('layout interpreter: undetermined ?: condition at line %d (%s)' % (e.line, show(e)[:60]))
            return self.ev(e.a[1] if c else e.a[2], fr)
        if k == 'un':
            op = e.op
            if op == '&':
                a = strip(e.a[0])
                if a.k == 'idx':
                    b = self.ev(a.a[0], fr)
                    i = self.ev(a.a[1], fr)
                    if isinstance(b, Ptr):
                        w = (type_width(a.t, a.dt) or 8) // 8
                        return Ptr(b.root, None if (i is None or b.off is None) else b.off + i * w)
                    return None
                if a.k == 'var' and self.is_array(a):
                    return Ptr('local:%s@%s' % (a.op, fr.fn.name), 0)
                if a.k == 'mem':
                    p = self.obj_path(a, fr)
                    return None if p is None else Ptr(p, 0)
                return None
            if op == '*':
                try:
                    return self.read_lv(self.lvalue(e, fr), fr)
                except Unknown:
                    return None
            if op in ('++', '--'):
                try:
                    lv = self.lvalue(e.a[0], fr)
                except Unknown:
                    return None
                old = self.read_lv(lv, fr)
                d = 1 if op == '++' else -1
                if isinstance(old, Ptr):
                    new = Ptr(old.root, None if old.off is None else old.off + d)
                else:
                    new = None if old is None else old + d
                self.write_lv(lv, new, None, fr)
                return old if e.post else self.read_lv(lv, fr)
            v = self.ev(e.a[0], fr)
            if v is None or isinstance(v, Ptr):
                return None if op != '!' or v is None else 0
            if op == '-':
                return wrap(-v, e.t, e.dt)
            if op == '+':
                return v
            if op == '~':
                return wrap(~v, e.t, e.dt)
            if op == '!':
                return 0 if v else 1
            return None
        if k == 'bin':
            op = e.op
            if op == ',':
                self.ev(e.a[0], fr)
                return self.ev(e.a[1], fr)
            if op in ('&&', '||'):
                l = self.ev(e.a[0], fr)
                if l is None:
                    raise AnalysisBroken('layout interpreter: undetermined operand of %s at line %d' % (op, e.line))
                lt = isinstance(l, Ptr) or l != 0
                if op == '&&' and not lt:
                    return 0
                if op == '||' and lt:
                    return 1
                r = self.ev(e.a[1], fr)
                if r is None:
                    raise AnalysisBroken('layout interpreter: undetermined operand of %s at line %d' % (op, e.line))
                return 1 if (isinstance(r, Ptr) or r != 0) else 0
            if op == '=':
                v = self.ev(e.a[1], fr)
                try:
                    lv = self.lvalue(e.a[0], fr)
                except Unknown:
                    return v
                self.write_lv(lv, v, e.a[1], fr)
                return self.read_lv(lv, fr) if lv[0] != 'byte' else v
            if op.endswith('=') and op not in ('==', '!=', '<=', '>='):
                try:
                    lv = self.lvalue(e.a[0], fr)
                except Unknown:
                    self.ev(e.a[1], fr)
                    return None
                cur = self.read_lv(lv, fr)
                r = self.ev(e.a[1], fr)
                new = self.arith(op[:-1], cur, r, e)
                self.write_lv(lv, new, e.a[1], fr)
                return self.read_lv(lv, fr)
            l = self.ev(e.a[0], fr)
            r = self.ev(e.a[1], fr)
            return self.arith(op, l, r, e)
        if k == 'call':
            return self.call(e, fr)
        if k == 'init':
            return None
        return None

    def arith(self, op, l, r, e):
        if isinstance(l, Ptr) or isinstance(r, Ptr):
            if op == '+' and isinstance(l, Ptr) and not isinstance(r, Ptr):
                return Ptr(l.root, None if (r is None or l.off is None) else l.off + r * self.elem(e))
            if op == '+' and isinstance(r, Ptr) and not isinstance(l, Ptr):
                return Ptr(r.root, None if (l is None or r.off is None) else r.off + l * self.elem(e))
            if op == '-' and isinstance(l, Ptr) and not isinstance(r, Ptr):
                return Ptr(l.root, None if (r is None or l.off is None) else l.off - r * self.elem(e))
            if isinstance(l, Ptr) and isinstance(r, Ptr) and l.root == r.root and l.off is not None and r.off is not None:
                if op == '-':
                    return (l.off - r.off) // self.elem(e, ptrdiff=True)
                if op in ('<', '>', '<=', '>=', '==', '!='):
                    return 1 if {'<': l.off < r.off, '>': l.off > r.off, '<=': l.off <= r.off, '>=': l.off >= r.off,
                                 '==': l.off == r.off, '!=': l.off != r.off}[op] else 0
            return None
        if l is None or r is None:
            return None
        if op == '+':
            v = l + r
        elif op == '-':
            v = l - r
        elif op == '*':
            v = l * r
        elif op == '/':
            if r == 0:
                return None
            q = abs(l) // abs(r)
            v = q if (l >= 0) == (r > 0) else -q
        elif op == '%':
            if r == 0:
                return None
            v = abs(l) % abs(r)
            v = v if l >= 0 else -v
        elif op == '<<':
            if r < 0 or r > 200:
                return None
            v = l << r
        elif op == '>>':
            if r < 0 or r > 200:
                return None
            v = l >> r
        elif op == '&':
            v = l & r
        elif op == '|':
            v = l | r
        elif op == '^':
            v = l ^ r
        elif op in ('<', '>', '<=', '>=', '==', '!='):
            return 1 if {'<': l < r, '>': l > r, '<=': l <= r, '>=': l >= r, '==': l == r, '!=': l != r}[op] else 0
        else:
            return None
        return wrap(v, e.t, e.dt)

    def elem(self, e, ptrdiff=False):
        # element size of the pointer operand of a pointer +/- integer expression
        for a in e.a:
            t = (strip_decay(a).dt or strip_decay(a).t or '')
            if t.rstrip().endswith('*') or '[' in t:
                base = t.replace('const ', '').strip()
                if base.endswith('*'):
                    w = type_width(base[:-1].strip(), None)
                else:
                    w = type_width(base[:base.index('[')].strip(), None)
                if w:
                    return max(1, w // 8)
        return 1

    def global_bytes(self, g):
        out = {}
        init = getattr(g, 'init', None)
        vals = []
        if init is not None:
            from ..ir import const_value
            for x in (init.a if init.k == 'init' else [init]):
                vals.append(const_value(x))
        n = 0
        t = g.type or ''
        try:
            n = int(t[t.index('[') + 1:t.index(']')])
        except ValueError:
            n = len(vals)
        for i in range(n):
            v = vals[i] if i < len(vals) else 0      # C zero-initialises the rest
            out[i] = ('C', (v or 0) & 0xff) if v is not None or i >= len(vals) else None
        return out

    # ---------------------------------------------------------------- calls
    def call(self, e, fr):
        name = callee_name(e)
        args = e.a[1:]
        if name in ('memcpy', 'memmove', '__builtin_memcpy', '__builtin___memcpy_chk'):
            d, s, n = self.ev(args[0], fr), self.ev(args[1], fr), self.ev(args[2], fr)
            if n is None:
                raise AnalysisBroken('layout interpreter: memcpy with a length not determined by the buffered count '
                                     '(line %d)' % e.line)
            if not isinstance(d, Ptr) or d.off is None:
                raise AnalysisBroken('layout interpreter: memcpy destination unknown (line %d)' % e.line)
            tags = []
            for i in range(n):
                tags.append(self.load_tag(Ptr(s.root, s.off + i)) if isinstance(s, Ptr) and s.off is not None else None)
            for i, tg in enumerate(tags):
                self.store_tag(Ptr(d.root, d.off + i), tg)
            return d
        if name in ('memset', '__builtin_memset', '__builtin___memset_chk'):
            d, c, n = self.ev(args[0], fr), self.ev(args[1], fr), self.ev(args[2], fr)
            if n is None:
                raise AnalysisBroken('layout interpreter: memset with a length not determined by the buffered count '
                                     '(line %d)' % e.line)
            if n > 1 << 16:
                self.notes.append('memset of %d bytes at line %d (length wrapped?)' % (n, e.line))
                raise AnalysisBroken('layout interpreter: memset of %d bytes at line %d' % (n, e.line))
            if isinstance(d, Ptr) and d.off is not None:
                for i in range(n):
                    self.store_tag(Ptr(d.root, d.off + i), ('C', c & 0xff) if c is not None else ('V', 'memset'))
            return d
        if name in self.sinks:
            pi, bs, ni = self.sinks[name]
            p = self.ev(args[pi], fr)
            nb = 1 if ni is None else self.ev(args[ni], fr)
            if nb is None:
                raise AnalysisBroken('layout interpreter: number of blocks not determined (line %d)' % e.line)
            self.sink_calls += 1
            for i in range(nb * bs):
                self.stream.append(self.load_tag(Ptr(p.root, p.off + i)) if isinstance(p, Ptr) and p.off is not None
                                   else None)
            return None
        cands = [f for f in self.byname.get(name or '', []) if f.body is not None]
        if len(cands) == 1 and cands[0].unit == fr.fn.unit:
            return self.invoke(cands[0], [self.ev(a, fr) for a in args], fr, args)
        for a in args:
            self.ev(a, fr)
        return None

    def invoke(self, fn, vals, caller=None, argexprs=None):
        fr = Frame(fn)
        for i, p in enumerate(fn.params):
            v = vals[i] if i < len(vals) else None
            t = (p.dt or p.t or '')
            if isinstance(v, str):
                fr.bind[p.decl] = v
                continue
            if caller is not None and argexprs is not None and i < len(argexprs):
                a = strip(argexprs[i])
                if a.k == 'var' and a.decl in caller.bind:
                    fr.bind[p.decl] = caller.bind[a.decl]
                    continue
            fr.vars[p.decl] = wrap(v, p.t, p.dt) if not isinstance(v, Ptr) else v
        try:
            self.exec(fn.body, fr)
        except _Return as r:
            return r.v
        return None

    # ---------------------------------------------------------------- statements
    def truth(self, e, fr, what):
        v = self.ev(e, fr)
        if v is None:
            raise AnalysisBroken('layout interpreter: %s condition at line %d (%s) is not determined by the buffered '
                                 'count' % (what, e.line, show(e)[:60]))
        return isinstance(v, Ptr) or v != 0

    def exec(self, s, fr):
        if s is None:
            return
        if isinstance(s, list):
            for x in s:
                self.exec(x, fr)
            return
        k = s.k
        if k == 'compound':
            self.exec(s.body, fr)
        elif k in ('null', 'label'):
            if k == 'label':
                self.exec(s.body, fr)
        elif k == 'expr':
            self.ev(s.e, fr)
        elif k == 'decl':
            if s.var is not None and self.is_array(s.var) and s.e is not None and s.e.k == 'init':
                # array with an initialiser list (static or automatic): constants, the rest zero
                from ..ir import const_value
                t = (s.var.dt or s.var.t or '')
                try:
                    n = int(t[t.index('[') + 1:t.index(']')])
                except ValueError:
                    n = len(s.e.a)
                vals = [const_value(x) for x in s.e.a]
                if (type_width(t[:t.index('[')].strip(), None) or 8) == 8:
                    reg = {}
                    for i in range(n):
                        if i >= len(vals):
                            reg[i] = ('C', 0)
                        elif vals[i] is not None:
                            reg[i] = ('C', vals[i] & 0xff)
                        else:
                            reg[i] = None
                    self.regions['local:%s@%s' % (s.var.op, fr.fn.name)] = reg
            if s.var is not None and not s.static:
                if s.e is not None and s.e.k != 'init':
                    if self.tainted(s.e, fr):
                        fr.tainted.add(s.var.decl)
                    fr.vars[s.var.decl] = wrap(self.ev(s.e, fr), s.var.t, s.var.dt) \
                        if not self.is_array(s.var) else None
                    if self.is_array(s.var):
                        fr.vars.pop(s.var.decl, None)
                elif not self.is_array(s.var):
                    fr.vars[s.var.decl] = None
        elif k == 'if':
            if self.truth(s.e, fr, 'if'):
                self.exec(s.then, fr)
            else:
                self.exec(s.els, fr)
        elif k in ('while', 'for', 'do'):
            if k == 'for':
                self.exec(s.init, fr)
            first = True
            while True:
                if not (k == 'do' and first):
                    if s.e is not None and not self.truth(s.e, fr, 'loop'):
                        break
                first = False
                try:
                    self.exec(s.body, fr)
                except _Break:
                    break
                except _Continue:
                    pass
                if k == 'for' and s.inc is not None:
                    self.ev(s.inc, fr)
                if k == 'do':
                    if not self.truth(s.e, fr, 'loop'):
                        break
        elif k == 'return':
            raise _Return(self.ev(s.e, fr) if s.e is not None else None)
        elif k == 'break':
            raise _Break()
        elif k == 'continue':
            raise _Continue()
        else:
            raise AnalysisBroken('layout interpreter: statement kind %s at line %d not supported' % (k, s.line))


def strip_decay(e):
    while e is not None and e.k == 'cast' and e.op in ('LValueToRValue', 'NoOp', 'BitCast'):
        e = e.a[0]
    if e is not None and e.k == 'cast' and e.op == 'ArrayToPointerDecay':
        return e
    return e


def check_padding(stream, r, block, lenfield):
    """-> (ok, message)"""
    total = len(stream)
    want = ((r + 1 + lenfield + block - 1) // block) * block
    if total != want:
        return False, 'the compression function is given %d bytes for %d buffered message byte(s); FIPS 180-4 padding ' \
                      'needs %d (message, 0x80, zeros, %d-byte length)' % (total, r, want, lenfield)
    for i in range(r):
        if stream[i] != ('M', i):
            return False, 'byte %d of the final block(s) should be message byte %d but is %r' % (i, i, stream[i])
    if stream[r] != ('C', 0x80):
        return False, 'the byte after the %d message byte(s) is %r, not the mandatory 0x80' % (r, stream[r])
    for i in range(r + 1, total - lenfield):
        if stream[i] != ('C', 0):
            return False, 'padding byte at offset %d is %r, not zero (stale or message data hashed)' % (i, stream[i])
    tail = stream[total - lenfield:]
    for i, tg in enumerate(tail):
        if tg is None or tg[0] == 'M':
            return False, 'length field byte %d is %r' % (i, tg)
    if not all(tg[0] in ('V',) or (tg[0] == 'C') for tg in tail[-4:]):
        return False, 'the last four bytes of the length field are not written'
    return True, 'M^%d 80 00^%d L^%d' % (r, total - lenfield - r - 1, lenfield)


def length_bytes(stream, lenfield):
    """number of bytes of the length field that are computed from the length counters"""
    return len([tg for tg in stream[len(stream) - lenfield:] if tg is not None and tg[0] == 'V'])

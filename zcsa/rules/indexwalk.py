"""R8.loop-shape (semantic)   a loop converts every element of an array exactly once.

    i = 0;  loop while i (+ s - 1) < n  {  f(a[i]) .. f(a[i + s - 1]);  i += s  }

Decided over all paths of one iteration (SymRule, one fresh symbol for the index at the loop head), whatever the loop is
spelled as (for / while / do, increment in the header or in the body, pointer or index form is not supported - that
is analysis-broken):
  entry     the index reaches the loop from outside as 0
  covered   the calls of one iteration read a[i + k] for k = 0 .. s-1, each once (s >= 1)
  advance   the index comes back to the loop head as i + s, on every path that comes back (no path skips an element)
  exit      the loop's own condition lets it go on exactly while i + s - 1 < n
"""
from ..ir import strip, strip_transparent, show, callee_name, const_value, walk, walk_stmts, calls_in
from .common import SymRule, run_rule, Lin, lin, pstr, atom_cmp, loop_assigned


class Walk(SymRule):
    name = 'R8.loop-shape'

    def __init__(self, prog, fn, loop, idx, array, callee):
        SymRule.__init__(self, prog, fn)
        self.loop, self.idx, self.array, self.callee = loop, idx, array, callee
        self.entries, self.backs, self.problems = [], 0, []
        self.strides = set()
        self.sym = None

    def problem(self, t):
        if t not in self.problems:
            self.problems.append(t)

    def on_node(self, ctx, node, ts):
        if ctx.fn is self.fn and node.loop is self.loop:
            env, _ = self.env_of(ts)
            cur = env.get(self.idx.decl)
            self.sym = '%s@L%d' % (self.idx.op, node.line)
            if cur is not None:
                if 'iter' not in ts:
                    self.entries.append(cur)
                    if not (cur.is_const() and cur.c == 0):
                        self.problem('the index enters the loop as %r, not 0' % cur)
                else:
                    self.backs += 1
                    offs = sorted(x[1] for x in ts if isinstance(x, tuple) and len(x) == 2 and x[0] == 'off')
                    if not offs:
                        self.problem('an iteration comes back to the loop head without converting an element (index %r)' % cur)
                    else:
                        s = len(offs)
                        if offs != list(range(s)):
                            self.problem('one iteration reads offsets %s from the index (expected 0..%d once each)' % (offs, s - 1))
                        if cur != Lin({self.sym: 1}, s):
                            self.problem('after converting %d element(s) the index becomes %r, expected %s + %d' % (
                                s, cur, self.idx.op, s))
                        self.strides.add(s)
            ts = frozenset(x for x in ts if not (isinstance(x, tuple) and len(x) == 2 and x[0] == 'off')) | frozenset(['iter'])
        return SymRule.on_node(self, ctx, node, ts)

    def on_edge(self, ctx, node, label, refined, ts):
        if ctx.fn is self.fn and node.stmt is self.loop and not label:
            ts = ts - frozenset(['iter'])
        return ts

    def sym_call(self, ctx, call, ts):
        if callee_name(call) == self.callee and self.sym is not None:
            a = strip(call.a[1])
            while a is not None and a.k == 'cast' and a.a:
                a = strip(a.a[0])
            if a is None or a.k != 'idx' or pstr(a.a[0]) != self.array:
                self.problem('%s() is applied to %s, not to an element of %s' % (self.callee, show(call.a[1]), self.array))
                return ts
            v = self.value(a.a[1], ts)
            if v is None or v.t != {self.sym: 1}:
                self.problem('%s() reads %s[%s]: not the loop index plus a constant' % (self.callee, self.array, show(a.a[1])))
                return ts
            if ('off', v.c) in ts:
                self.problem('element at offset %d from the index is converted twice in one iteration' % v.c)
            ts = ts | frozenset([('off', v.c)])
        return ts


def check_index_walk(ck, prog, config, clause, fn, array, length, callee, inst='all-characters'):
    loops = []
    for s in walk_stmts(fn.body):
        if s.k in ('for', 'while', 'do'):
            names = set()
            for sub in walk_stmts(s.body):
                if getattr(sub, 'e', None) is not None:
                    names |= set(callee_name(c) for c in calls_in(sub.e))
            if callee in names:
                loops.append(s)
    ck.require(bool(loops), '%s: no loop applies %s()' % (fn.name, callee))
    lp = loops[-1]       # innermost in document order
    # the index: the local in the subscript of the callee's argument
    idx = None
    for sub in walk_stmts(lp.body):
        if getattr(sub, 'e', None) is None:
            continue
        for c in calls_in(sub.e):
            if callee_name(c) == callee:
                a = strip(c.a[1])
                while a is not None and a.k == 'cast' and a.a:
                    a = strip(a.a[0])
                if a is not None and a.k == 'idx':
                    for n in walk(a.a[1]):
                        if n.k == 'var' and n.dk == 'VarDecl':
                            idx = n
    ck.require(idx is not None, '%s: %s() is not applied to a subscripted element (pointer iteration is not supported)' % (
        fn.name, callee))
    r = Walk(prog, fn, lp, idx, array, callee)
    run_rule(prog, fn, r)
    stride = list(r.strides)[0] if len(r.strides) == 1 else None
    # the loop's own condition: goes on while idx + stride - 1 < length
    cond_ok = False
    cdesc = show(lp.e) if lp.e is not None else 'none'
    if lp.e is not None and stride is not None:
        c = strip_transparent(lp.e)
        if c.k == 'bin' and c.op in ('<', '>', '<=', '>=', '!='):
            l, rr = lin(c.a[0]), lin(c.a[1])
            if l is not None and rr is not None:
                d = l - rr
                op = c.op
                if d.t.get(idx.op) == -1:
                    d, op = -d, {'<': '>', '>': '<', '<=': '>=', '>=': '<=', '!=': '!='}[op]
                if d.t == {idx.op: 1, length: -1}:
                    # idx - length + c (op) 0
                    if (op == '<' and d.c == stride - 1) or (op == '<=' and d.c == stride) or (op == '!=' and stride == 1 and d.c == 0):
                        cond_ok = True
    ok = not r.problems and r.entries and r.backs >= 1 and stride is not None and cond_ok
    why = '; '.join(r.problems[:2]) if r.problems else (
        'entries=%s back-edges=%d stride=%s condition=%s' % (r.entries, r.backs, stride, cdesc))
    ck.ob(clause, 'R8.loop-shape', fn.name, inst, ok,
          'conversion loop visits %s[0..%s) once each, %s element(s) per iteration (loop condition %s)' % (
              array, length, stride, cdesc) if ok else
          'the conversion loop does not provably visit every element of %s once: %s' % (array, why), fn.file, lp.line,
          config=config)
    return ok

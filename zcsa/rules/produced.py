"""Two reader-side rules about byte counts (C02-g, C02-h).

R2.produced-size   a backend that decompresses a whole chunk into a buffer of the size the index announces and then
                   hands on that many bytes must have compared the number of bytes the decompressor produced with it:
                   on every path to the hand-over call an equality edge  result == size  was passed.
R2.eof-in-chunk    in the read loop the request to read_data() never goes beyond the end of the current chunk, so a
                   short count (end of file, see R1.short-is-eof) means the file ends inside a chunk: no path from
                   that edge may reach a non-negative return.
"""
from ..flow import Z, P1, POS
from ..ir import strip, show, callee_name, const_value, walk
from .common import FactRule, run_rule, pstr, atom_cmp, calls_of


def check_produced_size(ck, prog, config, clause, handover='comp_add_to_dc', producers=('ZSTD_decompress',)):
    n = 0
    for fn in sorted(prog.lib_funcs(), key=lambda f: f.qname):
        prod = [c for c in calls_of_prefix(fn, producers)]
        hand = calls_of(fn, (handover,))
        if not prod or not hand:
            continue

        class Prod(FactRule):
            name = 'R2.produced-size'

            def __init__(s, prog, fn):
                FactRule.__init__(s, prog, fn)
                s.hands = 0

            def on_assign(s, c2, lhs, rhs, op, value, ts):
                if c2.fn is not s.fn:
                    return ts
                l = strip(lhs)
                r = strip(rhs) if rhs is not None else None
                while r is not None and r.k == 'cast' and r.a:
                    r = strip(r.a[0])
                if l is not None and l.k == 'var':
                    ts = frozenset(x for x in ts if not (isinstance(x, tuple) and x[0] in ('res', 'eq') and x[1] == l.decl))
                    if r is not None and r.k == 'call' and (callee_name(r) or '').startswith(tuple(producers)):
                        ts = ts | frozenset([('res', l.decl)])
                return ts

            def on_edge(s, c2, node, label, refined, ts):
                if c2.fn is not s.fn:
                    return ts
                op, l, r = atom_cmp(node.e, label)
                if op == '==':
                    for a, b in ((l, r), (r, l)):
                        sa = strip(a)
                        if sa is not None and sa.k == 'var' and ('res', sa.decl) in ts:
                            ts = ts | frozenset([('eq', sa.decl, pstr(b))])
                return ts

            def on_call(s, c2, call, ts):
                if c2.fn is s.fn and callee_name(call) == handover:
                    s.hands += 1
                    size = pstr(call.a[-1])
                    res = [x[1] for x in ts if isinstance(x, tuple) and x[0] == 'res']
                    direct = strip(call.a[-1])
                    if direct is not None and direct.k == 'var' and ('res', direct.decl) in ts:
                        return ts      # hands on exactly what was produced
                    if res and not any(isinstance(x, tuple) and x[0] == 'eq' and x[2] == size for x in ts):
                        s.violate(c2, 'unchecked-size', '%s(.., %s) hands on %s bytes of the decompression buffer although the '
                                  'number of bytes the decompressor produced was never compared with it: a chunk whose '
                                  'announced size is larger than its content is delivered with the (zeroed) rest of the '
                                  'buffer appended, every checksum still matching' % (handover, size, size), inst='size')
                return ts
        r = Prod(prog, fn)
        run_rule(prog, fn, r)
        n += r.hands
        ck.ob(clause, 'R2.produced-size', fn.name, 'size', not r.violations,
              'every hand-over of the decompressed buffer lies behind result == announced size (%d hand-over state(s))'
              % r.hands if not r.violations else r.violations[0].msg, fn.file,
              r.violations[0].node.line if r.violations else fn.line,
              path=r.violations[0].path if r.violations else None, config=config)
    return n


def calls_of_prefix(fn, prefixes):
    from ..program import all_exprs
    from ..ir import calls_in
    out = []
    for ex in all_exprs(fn):
        for c in calls_in(ex):
            if (callee_name(c) or '').startswith(tuple(prefixes)):
                out.append(c)
    return out


def check_eof_in_chunk(ck, prog, config, clause, reader='comp_read', wrapper='read_data'):
    fn = prog.need_func(reader)

    class Eof(FactRule):
        name = 'R2.eof-in-chunk'

        def __init__(s, prog, fn):
            FactRule.__init__(s, prog, fn)
            s.reads = 0
            s.shorts = 0

        def on_assign(s, c2, lhs, rhs, op, value, ts):
            if c2.fn is not s.fn:
                return ts
            l = strip(lhs)
            r = strip(rhs) if rhs is not None else None
            while r is not None and r.k == 'cast' and r.a:
                r = strip(r.a[0])
            if l is not None and l.k == 'var':
                ts = frozenset(x for x in ts if not (isinstance(x, tuple) and x[0] == 'rd' and x[1] == l.decl))
                if r is not None and r.k == 'call' and callee_name(r) == wrapper:
                    s.reads += 1
                    ts = ts | frozenset([('rd', l.decl, pstr(r.a[-1]))])
            return ts

        def on_edge(s, c2, node, label, refined, ts):
            if c2.fn is not s.fn:
                return ts
            op, l, r = atom_cmp(node.e, label)
            for a, b, o in ((l, r, op), (r, l, {'<': '>', '>': '<', '<=': '>=', '>=': '<=', '==': '==', '!=': '!='}[op])):
                sa = strip(a)
                while sa is not None and sa.k == 'cast' and sa.a:
                    sa = strip(sa.a[0])
                if sa is not None and sa.k == 'var':
                    for x in ts:
                        if isinstance(x, tuple) and x[0] == 'rd' and x[1] == sa.decl and pstr(b) == x[2] and o in ('<', '!='):
                            s.shorts += 1
                            ts = ts | frozenset(['eof-in-chunk'])
            return ts

        def on_node(s, c2, node, ts):
            if c2.fn is s.fn and node.loop is not None and 'eof-in-chunk' in ts:
                s.violate(c2, 'eof-continues', 'after %s() returned fewer bytes than requested (the request never goes beyond '
                          'the end of the current chunk, so the file ends inside a chunk) the read loop goes on: the '
                          'caller gets a short or empty result with success and takes it for the end of the data' % wrapper,
                          inst='eof', node=node)
                ts = ts - frozenset(['eof-in-chunk'])
            return ts

        def on_return(s, c2, node, mask, ts):
            if c2.fn is s.fn and 'eof-in-chunk' in ts and mask & (Z | P1 | POS):
                s.violate(c2, 'eof-success', 'return %s is reachable after %s() returned fewer bytes than requested: the '
                          'file ends inside a chunk, and the read reports success' % (
                              show(node.e) if node.e is not None else '', wrapper), inst='eof', node=node)
            return ts
    r = Eof(prog, fn)
    run_rule(prog, fn, r)
    ck.require(r.reads >= 1, '%s no longer reads with %s() into a local' % (reader, wrapper))
    ck.require(r.shorts >= 1, '%s: no comparison of the %s() result with the requested size' % (reader, wrapper))
    ck.ob(clause, 'R2.eof-in-chunk', fn.name, 'eof', not r.violations,
          'a short count from %s() inside a chunk always ends in a failure return (%d short-count edge state(s))' % (
              wrapper, r.shorts) if not r.violations else r.violations[0].msg, fn.file,
          r.violations[0].node.line if r.violations else fn.line,
          path=r.violations[0].path if r.violations else None, config=config)

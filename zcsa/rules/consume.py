"""R4.chunk-loop   a loop that consumes exactly N bytes in bounded steps (semantic form).

    rem = N;  loop while rem is not zero { step = min(K, rem);  op_1(.., step) .. op_k(.., step);  rem -= step }

The loop is found by what it does (the innermost loop that calls the listed operations), not by how it is spelled:
while / for / do, a remainder counted down or an if/else or ?: computing the step are all the same to the rule.
Decided over all paths of one iteration with linear values (SymRule: one fresh symbol per loop-assigned local at the
loop head) and comparison edges as linear constraints (Fourier-Motzkin):
  init      the remainder that reaches the loop from outside is N
  bounded   at every operation the length argument L satisfies L <= rem (infeasibility of L >= rem + 1)
  same      all operations of one iteration use the same length
  decrease  the remainder that comes back to the loop head is rem - L
  exit      the loop is left (other than by return) only when the remainder is zero
"""
from ..ir import strip, strip_transparent, show, callee_name, const_value, walk, walk_stmts, calls_in, is_unsigned_type
from .common import SymRule, run_rule, Lin, lin, pstr, atom_cmp
from .bounds import cons_of
from .guardlen import fm_feasible


def loops_with_ops(fn, names):
    out = []
    for s in walk_stmts(fn.body):
        if s.k in ('while', 'for', 'do'):
            inner = set()
            for sub in walk_stmts(s.body):
                for ex in ([sub.e] if getattr(sub, 'e', None) is not None else []):
                    inner |= set(callee_name(c) for c in calls_in(ex))
            if set(names) <= inner:
                out.append(s)
    # innermost: a loop that contains no other candidate
    res = []
    for s in out:
        nested = [t for t in out if t is not s and any(u is t for u in walk_stmts(s.body))]
        if not nested:
            res.append(s)
    return res


class Consume(SymRule):
    name = 'R4.chunk-loop'

    def __init__(self, prog, fn, loop, rem_decl, rem_name, total, ops, data_ops=None):
        SymRule.__init__(self, prog, fn)
        self.loop, self.rem_decl, self.rem_name, self.total, self.ops = loop, rem_decl, rem_name, total, dict(ops)
        self.data_ops = dict(data_ops or {})      # operation -> index of the data pointer it consumes
        self.up = False           # True: the local counts the bytes handled so far (0 .. total) instead of what is left
        self.loop_line = None
        self.cursors = 0
        self.sym = None
        self.inits = []
        self.backs = 0
        self.opcalls = 0
        self.problems = []
        self.exit_ok = True

    def cons(self, ts):
        return [x[1] for x in ts if isinstance(x, tuple) and len(x) == 2 and x[0] == 'c']

    def problem(self, kind, text, node):
        if (kind, text) not in [(k, t) for k, t, n in self.problems]:
            self.problems.append((kind, text, node))

    def on_node(self, ctx, node, ts):
        if ctx.fn is self.fn and node.loop is self.loop:
            env, _ = self.env_of(ts)
            cur = env.get(self.rem_decl)
            sym = '%s@L%d' % (self.rem_name, node.line)
            self.sym = sym
            self.loop_line = node.line
            if 'iter' in ts:
                # the data position of every operation of the iteration has moved on by the step
                step_ = [x[1] for x in ts if isinstance(x, tuple) and len(x) == 2 and x[0] == 'step']
                for x in ts:
                    if isinstance(x, tuple) and len(x) == 4 and x[0] == 'cur':
                        now = env.get(x[1])
                        want_ = Lin({x[2]: 1}) + (step_[0] if step_ else Lin(None, 0))
                        if now != want_:
                            self.problem('advance', 'after handling %r bytes the data position %s becomes %r, expected %r: '
                                         'the next step handles the wrong bytes' % (step_[0] if step_ else 0, x[3], now, want_), node)
            ts = frozenset(x for x in ts if not (isinstance(x, tuple) and len(x) == 4 and x[0] == 'cur'))
            if cur is not None:
                if 'iter' not in ts:
                    self.inits.append(cur)
                    want0 = Lin(None, 0) if self.up else self.total
                    if cur != want0:
                        self.problem('init', 'the %s reaches the loop as %r, expected %r' % (
                            'count' if self.up else 'remainder', cur, want0), node)
                else:
                    self.backs += 1
                    step = [x[1] for x in ts if isinstance(x, tuple) and len(x) == 2 and x[0] == 'step']
                    if not step:
                        # an iteration that performed no operation must not have changed the remainder
                        if cur != Lin({sym: 1}):
                            self.problem('decrease', 'an iteration without an operation changes the remainder to %r' % cur,
                                         node)
                    else:
                        want = (Lin({sym: 1}) + step[0]) if self.up else (Lin({sym: 1}) - step[0])
                        if cur != want:
                            self.problem('decrease', 'after handling %r bytes the remainder becomes %r, expected %r' % (
                                step[0], cur, want), node)
            # a new iteration starts: forget the constraints and the step of the previous one
            ts = frozenset(x for x in ts if not (isinstance(x, tuple) and len(x) == 2 and x[0] in ('c', 'step')))
            ts = ts | frozenset(['iter'])
        elif ctx.fn is self.fn and node.loop is not None:
            ts = ts - frozenset(['iter'])      # head of another (outer) loop: the consume loop starts afresh
        return SymRule.on_node(self, ctx, node, ts)

    def on_edge(self, ctx, node, label, refined, ts):
        if ctx.fn is not self.fn:
            return ts
        op, l, r = atom_cmp(node.e, label)
        lv, rv = self.value(l, ts), self.value(r, ts)
        if lv is None or rv is None:
            return ts
        for c in cons_of(op, lv, rv):
            ts = ts | frozenset([('c', c)])
        # leaving the loop through its own condition: only with the remainder at zero
        nxt = [m for m, l_ in node.succ if bool(l_) == bool(label)]
        # with a short-circuit condition (a || b) the false edge of `a` leads to `b`, not out of the loop
        still_cond = any(m.k == 'branch' and m.stmt is self.loop for m in nxt)
        if node.stmt is self.loop and not label and self.sym is not None and not still_cond:
            ts = ts - frozenset(['iter'])
            env, _ = self.env_of(ts)
            cur = env.get(self.rem_decl)
            if cur is not None:
                left = (self.total - cur) if self.up else cur
                w = fm_feasible(self.cons(ts) + [left - Lin(None, 1)] + self.nonneg(ts, [left]))
                if w is not None:
                    self.exit_ok = False
                    self.problem('exit', 'the loop can be left with a remainder of %r > 0' % left, node)
        return ts

    def nonneg(self, ts, extra=()):
        syms = set(k for c in self.cons(ts) for k in c.t)
        for e in extra:
            syms |= set(e.t)
        return [Lin({k: 1}) for k in syms]

    def sym_call(self, ctx, call, ts):
        n = callee_name(call)
        if n in self.ops and self.sym is not None and self.in_loop(call):
            self.opcalls += 1
            L = self.value(call.a[1 + self.ops[n]], ts)
            env, _ = self.env_of(ts)
            rem = env.get(self.rem_decl)
            if rem is not None and self.up:
                rem = self.total - rem
            if L is None or rem is None:
                self.problem('bounded', '%s(): length %s is not a linear value' % (n, show(call.a[1 + self.ops[n]])), ctx.node)
                return ts
            w = fm_feasible(self.cons(ts) + [L - rem - Lin(None, 1)] + self.nonneg(ts, [L, rem]))
            if w is not None:
                self.problem('bounded', '%s() handles %r bytes with %r left of the chunk: nothing on this path bounds the '
                             'step by the remainder' % (n, L, rem), ctx.node)
            step = [x[1] for x in ts if isinstance(x, tuple) and len(x) == 2 and x[0] == 'step']
            if step and step[0] != L:
                self.problem('same', '%s() uses length %r, an earlier operation of the same iteration used %r' % (
                    n, L, step[0]), ctx.node)
            if not step:
                ts = ts | frozenset([('step', L)])
            if n in self.data_ops and 1 + self.data_ops[n] < len(call.a):
                a = strip(call.a[1 + self.data_ops[n]])
                if a is not None and a.k == 'var' and a.dk in ('VarDecl', 'ParmVarDecl'):
                    self.cursors += 1
                    head = '%s@L%d' % (a.op, self.loop_line)
                    v = env.get(a.decl)
                    if v != Lin({head: 1}):
                        self.problem('cursor', '%s() takes its data from %s, which does not move with the remainder (value '
                                     '%r in every iteration): each step after the first handles bytes that were handled '
                                     'before' % (n, a.op, v if v is not None else a.op), ctx.node)
                    else:
                        ts = ts | frozenset([('cur', a.decl, head, a.op)])
        return ts

    def in_loop(self, call):
        for sub in walk_stmts(self.loop.body):
            ex = getattr(sub, 'e', None)
            if ex is not None and any(c is call or c.uid == call.uid for c in calls_in(ex)):
                return True
        return False


def check_consume_loop(ck, prog, config, clause, fn, total_path, ops, rule_name='R4.chunk-loop', data_ops=None,
                       mode='down', instance='consume-loop'):
    names = [n for n, i in ops]
    loops = loops_with_ops(fn, names)
    if not loops:
        ck.ob(clause, rule_name, fn.name, instance, False,
              'chunk loop broken: no loop in %s() performs %s' % (fn.name, ' + '.join(names)), fn.file, fn.line, config=config)
        return False
    total = Lin({total_path: 1})
    best = None
    for lp in loops:
        # candidates for the remainder: locals assigned in the loop
        per = {}
        from .common import loop_assigned
        loop_assigned(fn, per)
        cands = []
        for d in per.get(id(lp), ()):
            v = fn.locals.get(d)
            if v is not None and not (v.t or '').rstrip().endswith('*'):
                cands.append(v)
        trials = []
        for v in sorted(cands, key=lambda x: x.op):
            for up in ((False,) if mode == 'down' else (True,) if mode == 'up' else (False, True)):
                trials.append((v, up))
        for v, up in trials:
            r = Consume(prog, fn, lp, v.decl, v.op, total, ops, data_ops)
            r.up = up
            run_rule(prog, fn, r)
            ok = not r.problems and r.inits and r.backs >= 1 and r.opcalls >= len(names) and \
                (not data_ops or r.cursors >= 1)
            res = (ok, r, v, lp)
            if ok:
                best = res
                break
            # prefer the candidate that at least starts at the total
            if best is None or (r.inits and all(i == total for i in r.inits) and not (best[1].inits and all(
                    i == total for i in best[1].inits))):
                best = res
        if best and best[0]:
            break
    ok, r, v, lp = best
    if ok:
        msg = 'loop at line %d handles exactly %s bytes: remainder %s starts at the total, every operation (%s) uses ' \
              'one step <= remainder, the remainder decreases by the step, the loop ends at zero (%d operation states, ' \
              '%d back edges)' % (lp.line, total_path, v.op, ', '.join(names), r.opcalls, r.backs)
    elif r.problems:
        msg = 'chunk loop broken (%s, remainder %s): %s' % (r.problems[0][0], v.op, r.problems[0][1])
    else:
        msg = 'chunk loop broken: no local of the loop at line %d behaves as the remainder of %s (init %s, back edges ' \
              '%d, operations %d)' % (lp.line, total_path, r.inits, r.backs, r.opcalls)
    node = r.problems[0][2] if r.problems else None
    ck.ob(clause, rule_name, fn.name, instance, ok, msg, fn.file, getattr(node, 'line', None) or lp.line,
          config=config)
    return ok

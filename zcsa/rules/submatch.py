"""R10.submatch   sub-match offsets of a pattern that contains server-supplied text may be -1.

regexec() leaves rm_so == rm_eo == -1 for a parenthesised group that did not take part in the match.  For a
pattern compiled from a string literal whose groups are mandatory that cannot happen; for a pattern built at run
time from the response (the multipart boundary is pasted into it) it can (a boundary `a|b` turns the pattern into
an alternation).  In every function that runs such a pattern, a pointer whose linear value still contains
`match[k].rm_so` (k >= 1) must not be dereferenced or handed to a callee unless the path has established that
group k matched: an edge `rm_so >= 0` / `!= -1`, or an edge `X < Y` with  X - Y == rm_so - rm_eo  (the scanning
idiom `for(c = s + rm_so; c < s + rm_eo; c++)`: an unmatched group gives an empty range).
"""
import re
from ..ir import strip, show, callee_name, const_value, walk, calls_in
from ..program import all_exprs, unique_defs
from .common import SymRule, Lin, pstr, atom_cmp, run_rule, calls_of, last_field

TERM = re.compile(r'^(.*)\[(\d+)\]\.rm_(so|eo)$')


def optional_groups(pattern):
    """True when a parenthesised group of the (literal) pattern may take no part in a match: a top-level or
    nested alternation, or a group followed by ? * or {0."""
    if pattern is None:
        return True
    i, n = 0, len(pattern)
    while i < n:
        ch = pattern[i]
        if ch == '\\':
            i += 2
            continue
        if ch == '[':
            j = pattern.find(']', i + 2)
            i = (j + 1) if j > 0 else n
            continue
        if ch == '|':
            return True
        if ch == ')' and i + 1 < n and (pattern[i + 1] in '?*' or pattern[i + 1:i + 3] == '{0'):
            return True
        i += 1
    return False


def literal_of(e, subst):
    p = strip(e)
    if p is None:
        return None
    if p.k == 'str':
        return p.val
    if p.k == 'var' and p.decl in subst and strip(subst[p.decl]).k == 'str':
        return strip(subst[p.decl]).val
    return None


def regex_compilers(prog):
    """name -> (index of the regex argument, index of the pattern argument) in call.a[1:], for regcomp() and every
    library function that passes its own regex and pattern parameters on to a known compiler (closure): wrappers such
    as create_regex(zck, reg, pattern) or an allocating new_regex(zck, &reg, pattern) are found by what they do."""
    cached = getattr(prog, '_regex_compilers', None)
    if cached is not None:
        return cached
    comp = {'regcomp': (0, 1)}
    changed = True
    while changed:
        changed = False
        for f in prog.lib_funcs():
            if f.name in comp or f.body is None:
                continue
            pidx = dict((p.decl, i) for i, p in enumerate(f.params))
            for c in calls_of(f, tuple(comp)):
                ri, pi = comp[callee_name(c)]
                args = c.a[1:]
                if max(ri, pi) >= len(args):
                    continue
                r = strip(args[ri])
                while r is not None and r.k == 'un' and r.op in ('*', '&'):
                    r = strip(r.a[0])
                pt = strip(args[pi])
                if r is not None and r.k == 'var' and r.decl in pidx and pt is not None and pt.k == 'var' and \
                        pt.decl in pidx:
                    comp[f.name] = (pidx[r.decl], pidx[pt.decl])
                    changed = True
                    break
    prog._regex_compilers = comp
    return comp


def compile_args(prog, c):
    ri, pi = regex_compilers(prog)[callee_name(c)]
    a = c.a[1:]
    reg = a[ri]
    sr = strip(reg)
    if sr is not None and sr.k == 'un' and sr.op == '&':
        reg = sr.a[0]
    return reg, a[pi]


def pattern_sources(prog):
    """regex field -> (kind, text) for every create_regex()/regcomp() site in the library; kind is
    'literal' (string literal), 'quoted' (format literal + run-time text, every inserted string being the result of
    a quoting helper) or 'built' (run-time text pasted in)."""
    out = {}
    for fn in prog.lib_funcs():
        subst = single_defs(fn)
        for c in calls_of(fn, tuple(regex_compilers(prog))):
            reg, pat = compile_args(prog, c)
            f = last_field(reg)
            if f is None:
                continue
            kind, text = 'built', None
            lit = literal_of(pat, subst)
            if lit is not None:
                kind, text = 'literal', lit
            else:
                p = strip(pat)
                d = strip(subst[p.decl]) if p.k == 'var' and p.decl in subst else None
                if d is not None and d.k == 'call' and callee_name(d):
                    bs = [g for g in prog.lib_funcs() if g.name == callee_name(d)]
                    if len(bs) == 1:
                        ins = builder_inserts(prog, bs[0])
                        if ins and all(ok for ok, why, a, fc in ins):
                            # the format is the builder's parameter: take the caller's literal
                            fmts = [literal_of(a, subst) for a in d.a[1:]]
                            fmts = [x for x in fmts if x is not None and '%s' in x]
                            if len(fmts) == 1:
                                kind, text = 'quoted', fmts[0]
            if f in out and out[f][0] == 'built':
                continue
            out[f] = (kind, text)
    return out


def builder_inserts(prog, b):
    """(quoted?, why, arg, call) for every run-time string a pattern builder inserts with a printf-style call."""
    bsub = single_defs(b)
    res = []
    for fc in calls_of(b, ('snprintf', 'sprintf', 'asprintf')):
        first = {'snprintf': 4, 'sprintf': 3, 'asprintf': 3}[callee_name(fc)]
        for a in fc.a[first:]:
            sa = strip(a)
            ok, why = False, 'inserted text %s' % show(a)
            if sa.k == 'str':
                ok, why = True, 'string literal'
            elif sa.k == 'var' and sa.decl in bsub and strip(bsub[sa.decl]).k == 'call':
                en = callee_name(strip(bsub[sa.decl]))
                esc = [f for f in prog.lib_funcs() if f.name == en]
                if len(esc) == 1 and is_escaper(prog, esc[0]):
                    ok, why = True, '%s is the result of the quoting helper %s()' % (sa.op, en)
                    es = escaped_set(prog, esc[0])
                    if es is not None:
                        missing = sorted(ERE_SPECIAL - es)
                        extra = sorted(es & GNU_OPERATOR_AFTER_BACKSLASH)
                        if missing:
                            ok, why = False, '%s() does not escape %s, which are special in an extended regular expression' % (
                                en, ' '.join(repr(chr(c)) for c in missing))
                        elif extra:
                            ok, why = False, ('%s() also puts a backslash in front of %s (%d characters): there the '
                                              'backslash makes an operator (\\\' end of buffer, \\< \\> word '
                                              'boundaries, \\w \\b \\1 ...), not the character' % (
                                                  en, ' '.join(repr(chr(c)) for c in extra[:8]), len(extra)))
                        else:
                            why += ', which escapes exactly the special characters %s' % ''.join(
                                chr(c) for c in sorted(es & ERE_SPECIAL))
            res.append((ok, why, a, fc))
    return res


class SubmatchRule(SymRule):
    name = 'R10.submatch'

    def __init__(self, prog, fn, arrays):
        SymRule.__init__(self, prog, fn)
        self.arrays = arrays        # names of regmatch_t arrays filled by a built pattern
        self.uses = 0

    def groups_in(self, v):
        out = set()
        if v is None:
            return out
        for t in v.t:
            m = TERM.match(t.split('@')[0].split('#')[0])
            if m and m.group(1) in self.arrays and int(m.group(2)) >= 1 and m.group(3) == 'so':
                out.add((m.group(1), int(m.group(2))))
        return out

    def on_edge(self, ctx, node, label, refined, ts):
        if ctx.fn is not self.fn:
            return ts
        op, l, r = atom_cmp(node.e, label)
        lv, rv = self.value(l, ts), self.value(r, ts)
        if lv is None or rv is None:
            return ts
        d = lv - rv
        for arr in self.arrays:
            for k in range(1, 10):
                so, eo = '%s[%d].rm_so' % (arr, k), '%s[%d].rm_eo' % (arr, k)
                # rm_so >= 0, rm_so > -1, rm_so != -1
                if d == Lin({so: 1}) and op in ('>=',) or d == Lin({so: 1}, 1) and op in ('>', '!=') \
                        or d == Lin({so: 1}) and op == '>' or d == Lin({so: -1}) and op in ('<=', '<') \
                        or d == Lin({so: -1}, -1) and op in ('<', '!='):
                    ts = ts | frozenset([('matched', arr, k)])
                # X < Y with X - Y == rm_so - rm_eo
                if d == Lin({so: 1, eo: -1}) and op == '<' or d == Lin({so: -1, eo: 1}) and op == '>':
                    ts = ts | frozenset([('matched', arr, k)])
        return ts

    def need(self, ctx, v, what, node=None):
        for arr, k in self.groups_in(v):
            self.uses += 1
            if ('matched', arr, k) not in ctx._ts_now:
                self.violate(ctx, 'unmatched-group', '%s uses a pointer computed from %s[%d].rm_so, which is -1 when '
                             'group %d took no part in the match (the pattern contains text supplied by the server): '
                             'the access lies before the buffer' % (what, arr, k, k), inst='%s[%d]' % (arr, k), node=node)

    def sym_call(self, ctx, call, ts):
        ctx._ts_now = ts
        n = callee_name(call)
        if n in ('regexec', 'zck_log'):
            return ts
        for a in call.a[1:]:
            if (a.t or '').rstrip().endswith('*') or strip(a).k in ('bin',):
                self.need(ctx, self.value(a, ts), '%s()' % (n or 'call'))
        return ts

    def sym_node(self, ctx, node, ts):
        if ctx.fn is not self.fn or node.e is None:
            return ts
        ctx._ts_now = ts
        for x in walk(node.e):
            ptr = None
            if x.k == 'idx':
                ptr = x.a[0]
                # match[k] itself is not a dereference through a sub-match offset
                if strip(ptr).k == 'var' and strip(ptr).op in self.arrays:
                    continue
            elif x.k == 'un' and x.op == '*':
                ptr = x.a[0]
            if ptr is not None:
                self.need(ctx, self.value(ptr, ts), 'dereference %s' % show(x)[:40], node=node)
        return ts


def check_submatch(ck, prog, config, clause):
    src = pattern_sources(prog)
    ck.require(len(src) >= 2, 'regex compilation sites not found')
    tainted = set(f for f, (k, text) in src.items() if k == 'built' or optional_groups(text))
    n = 0
    for f, (k, text) in sorted(src.items()):
        ck.ob(clause, 'R10.submatch', 'patterns', f, True, 'pattern of %s: %s; groups %s' % (
            f, {'literal': 'a string literal', 'quoted': 'a literal format with quoted run-time text',
                'built': 'run-time text pasted in'}[k],
            'may be unmatched: uses of sub-match offsets are checked' if f in tainted else 'mandatory by construction'),
            trivial=f not in tainted, config=config)
    for fn in sorted(prog.lib_funcs(), key=lambda f: f.qname):
        arrays = set()
        sites = 0
        for c in calls_of(fn, ('regexec',)):
            sites += 1
            if last_field(c.a[1]) in tainted:
                m = strip(c.a[4])
                if m is not None and m.k == 'var':
                    arrays.add(m.op)
        n += sites
        if not arrays:
            continue
        r = SubmatchRule(prog, fn, arrays)
        run_rule(prog, fn, r)
        by = {}
        for v in r.violations:
            by.setdefault(v.inst, v)
        if not by:
            ck.ob(clause, 'R10.submatch', fn.name, '+'.join(sorted(arrays)), True,
                  'patterns whose groups may be unmatched (%s) fill %s: no pointer derived from a sub-match offset is '
                  'dereferenced or passed on without the group being known to have matched' % (
                      ', '.join(sorted(tainted)), ', '.join(sorted(arrays))), fn.file, fn.line, config=config)
        for inst, v in sorted(by.items()):
            ck.ob(clause, 'R10.submatch', fn.name, inst, False, v.msg, v.node.file, v.node.line, path=v.path,
                  config=config)
    return n


# ------------------------------------------------------------------ R7.pattern-injection
def single_defs(fn):
    """Locals defined exactly once by their initialiser (any expression, calls included), never re-assigned and
    never address-taken: decl id -> initialiser."""
    from ..ir import walk_stmts
    assigned, addr, inits = {}, set(), {}
    for st in walk_stmts(fn.body):
        if st.k == 'decl' and st.var is not None and not st.static and st.e is not None:
            inits[st.var.decl] = st.e
            assigned[st.var.decl] = assigned.get(st.var.decl, 0) + 1
    for ex in all_exprs(fn):
        for n in walk(ex):
            if n.k == 'bin' and (n.op == '=' or n.op.endswith('=') and n.op not in ('==', '!=', '<=', '>=')):
                l = strip(n.a[0])
                if l.k == 'var':
                    assigned[l.decl] = assigned.get(l.decl, 0) + 1
            elif n.k == 'un' and n.op in ('++', '--', '&'):
                l = strip(n.a[0])
                if l.k == 'var':
                    (addr.add(l.decl) if n.op == '&' else assigned.__setitem__(l.decl, assigned.get(l.decl, 0) + 1))
    return dict((d, e) for d, e in inits.items() if assigned.get(d, 0) == 1 and d not in addr)


def is_escaper(prog, f):
    """A function of the repository that emits a backslash character into an output buffer (the shape of a
    regular-expression quoting helper)."""
    from ..program import all_exprs as _all
    for ex in _all(f):
        for n in walk(ex):
            if n.k == 'bin' and n.op == '=' and const_value(n.a[1]) == 92:
                l = strip(n.a[0])
                if l.k == 'idx' or (l.k == 'un' and l.op == '*'):
                    return True
    return False


def check_pattern_injection(ck, prog, config, clause):
    """Text taken from the response may reach the pattern argument of regcomp() only through a quoting helper:
    every run-time string that a pattern builder inserts with a printf-style call is the result of such a helper."""
    n = 0
    for fn in sorted(prog.lib_funcs(), key=lambda f: f.qname):
        subst = single_defs(fn)
        for c in calls_of(fn, tuple(regex_compilers(prog))):
            reg_, pat_ = compile_args(prog, c)
            pat = strip(pat_)
            if pat.k != 'var' or pat.decl not in subst:
                continue
            d = strip(subst[pat.decl])
            if d.k != 'call' or callee_name(d) is None:
                continue
            builders = [f for f in prog.lib_funcs() if f.name == callee_name(d)]
            if len(builders) != 1:
                continue
            b = builders[0]
            ins = builder_inserts(prog, b)
            ck.require(len(ins) >= 1, '%s: pattern builder without a printf-style insertion' % b.name)
            field = last_field(reg_)
            for ok, why, a, fc in ins:
                n += 1
                sa = strip(a)
                ck.ob(clause, 'R7.pattern-injection', b.name, 'insert:%s->%s' % ((sa.op or show(a))[:30], field), ok,
                      'pattern for %s: %s' % (field, why) if ok else
                      ('%s() pastes %s into the regular expression compiled for %s without quoting it: a boundary '
                       'that is legal in multipart/byteranges (RFC 2046 allows ( ) + ? . and others) changes the '
                       'pattern, so a well-formed response is not recognised, or groups become optional' % (
                           b.name, show(a), field) if why.startswith('inserted text') else
                       'pattern for %s: %s - a boundary with such a character (RFC 2046 allows \' ( ) + _ , - . / : = ?) '
                       'gives a pattern that does not match the response\'s own delimiter' % (field, why)),
                      fc.file, fc.line, config=config)
    return n


# ------------------------------------------------------------------ the set of characters a quoting helper escapes
ERE_SPECIAL = set(ord(c) for c in '\\^$.[]|()*+?{}')
# a backslash in front of these is an operator of the POSIX/GNU regex syntax, not the character itself
GNU_OPERATOR_AFTER_BACKSLASH = set(range(ord('0'), ord('9') + 1)) | set(range(ord('a'), ord('z') + 1)) | \
    set(range(ord('A'), ord('Z') + 1)) | set(ord(c) for c in "'`<>")

CTYPE = {
    'isalnum': lambda v: chr(v).isalnum() and v < 128, 'isalpha': lambda v: chr(v).isalpha() and v < 128,
    'isdigit': lambda v: 48 <= v <= 57, 'isupper': lambda v: 65 <= v <= 90, 'islower': lambda v: 97 <= v <= 122,
    'isxdigit': lambda v: chr(v) in '0123456789abcdefABCDEF', 'isspace': lambda v: v in (9, 10, 11, 12, 13, 32),
    'ispunct': lambda v: 33 <= v <= 126 and not (chr(v).isalnum()), 'isprint': lambda v: 32 <= v <= 126,
    'isgraph': lambda v: 33 <= v <= 126, 'iscntrl': lambda v: v < 32 or v == 127,
}


def escaped_set(prog, f):
    """Characters in front of which the quoting helper f stores a backslash: the guard of the backslash store is
    evaluated for every byte value 1..255 (finite domain, no execution): supported are the current character (a
    deref / subscript of a char pointer or a char local), character constants, comparisons, && || !, strchr() on a
    string literal and the <ctype.h> predicates.  Anything else is analysis-broken."""
    from ..ir import walk_stmts
    from ..frontend import AnalysisBroken
    guards = []

    def visit(stmts, conds):
        for s in (stmts if isinstance(stmts, list) else [stmts]):
            if s is None:
                continue
            if s.k == 'compound':
                visit(s.body, conds)
            elif s.k == 'if':
                visit(s.then, conds + [(s.e, True)])
                if s.els is not None:
                    visit(s.els, conds + [(s.e, False)])
            elif s.k in ('for', 'while', 'do'):
                visit(s.body, conds)
            elif s.k == 'expr' and s.e is not None:
                for n in walk(s.e):
                    if n.k == 'bin' and n.op == '=' and const_value(n.a[1]) == 92:
                        guards.append(list(conds))
    visit(f.body, [])
    if not guards:
        return None
    # locals with exactly one definition (their initialiser) and no other assignment: also inside the loop
    udefs = {}
    assigned = set()
    from ..program import all_exprs as _ae
    for ex_ in _ae(f):
        for n_ in walk(ex_):
            if (n_.k == 'bin' and n_.op.endswith('=') and n_.op not in ('==', '!=', '<=', '>=')) or \
                    (n_.k == 'un' and n_.op in ('++', '--', '&')):
                l_ = strip(n_.a[0])
                if l_ is not None and l_.k == 'var':
                    assigned.add(l_.decl)
    for s_ in walk_stmts(f.body):
        if s_.k == 'decl' and s_.e is not None and s_.var.decl not in assigned:
            udefs[s_.var.decl] = s_.e
    depth = [0]

    def ev(e, v):
        e = strip(e)
        while e is not None and e.k == 'cast' and e.a:
            e = strip(e.a[0])
        cv = const_value(e)
        if cv is not None:
            return cv
        if e.k == 'null':
            return 0
        if e.k == 'var' and not (e.t or '').rstrip().endswith('*'):
            if e.decl in udefs and depth[0] < 6:
                depth[0] += 1
                try:
                    return ev(udefs[e.decl], v)     # a local with a single definition stands for that expression
                finally:
                    depth[0] -= 1
            if 'char' in (e.t or ''):
                return v
            raise AnalysisBroken('%s: guard of the backslash store depends on %s, whose value the finite evaluation '
                                 'cannot determine' % (f.name, e.op))
        if (e.k == 'un' and e.op == '*') or e.k == 'idx':
            return v                      # the character under the cursor
        if e.k == 'un' and e.op == '!':
            return 0 if ev(e.a[0], v) else 1
        if e.k == 'bin' and e.op == '&':
            # glibc's <ctype.h> macros: (*__ctype_b_loc())[(int)(c)] & _ISxxx
            for tab, mask in ((e.a[0], e.a[1]), (e.a[1], e.a[0])):
                st = strip(tab)
                while st is not None and st.k == 'cast' and st.a:
                    st = strip(st.a[0])
                m = const_value(mask)
                if m is None:
                    mk = strip(mask)
                    while mk is not None and mk.k == 'cast' and mk.a:
                        mk = strip(mk.a[0])
                    if mk is not None and mk.k == 'var' and (mk.op or '').startswith('_IS'):
                        m = {'_ISupper': 256, '_ISlower': 512, '_ISalpha': 1024, '_ISdigit': 2048, '_ISxdigit': 4096,
                             '_ISspace': 8192, '_ISprint': 16384, '_ISgraph': 32768, '_IScntrl': 2, '_ISpunct': 4,
                             '_ISalnum': 8}.get(mk.op)
                if st is not None and st.k == 'idx' and m is not None and any(
                        x.k == 'call' and callee_name(x) == '__ctype_b_loc' for x in walk(st.a[0])):
                    ch = ev(st.a[1], v)
                    bits = {256: 'isupper', 512: 'islower', 1024: 'isalpha', 2048: 'isdigit', 4096: 'isxdigit',
                            8192: 'isspace', 16384: 'isprint', 32768: 'isgraph', 2: 'iscntrl', 4: 'ispunct', 8: 'isalnum'}
                    if m in bits:
                        return 1 if CTYPE[bits[m]](ch) else 0
        if e.k == 'bin':
            if e.op == '&&':
                return 1 if (ev(e.a[0], v) and ev(e.a[1], v)) else 0
            if e.op == '||':
                return 1 if (ev(e.a[0], v) or ev(e.a[1], v)) else 0
            a, b = ev(e.a[0], v), ev(e.a[1], v)
            ops = {'==': a == b, '!=': a != b, '<': a < b, '<=': a <= b, '>': a > b, '>=': a >= b}
            if e.op in ops:
                return 1 if ops[e.op] else 0
        if e.k == 'call':
            n = callee_name(e)
            if n in ('strchr', 'index', '__builtin_strchr') and strip(e.a[1]).k == 'str':
                lit = strip(e.a[1]).val or ''
                lit = lit[1:-1] if len(lit) >= 2 and lit[0] == '"' else lit
                lit = lit.encode().decode('unicode_escape') if '\\' in lit else lit
                return 1 if chr(ev(e.a[2], v)) in lit else 0
            if n in CTYPE:
                return 1 if CTYPE[n](ev(e.a[1], v)) else 0
        raise AnalysisBroken('%s: guard of the backslash store uses a form the finite evaluation does not know: %s' % (
            f.name, show(e)[:60]))
    out = set()
    for v in range(1, 256):
        for conds in guards:
            if all(bool(ev(c, v)) == want for c, want in conds):
                out.add(v)
    return out

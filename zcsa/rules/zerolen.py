"""R2.zero-length   an empty piece must be accepted on the write path.

Some functions reject a zero length outright (hash_update: "0-length but not NULL" is an error).  A function that
forwards its own length parameter to such a callee without first establishing that it is non-zero rejects an empty
piece itself; the relation is closed over the call graph.  zck_write() legitimately produces empty pieces (a chunk
boundary on the first byte of a call, a previous call that filled the chunk exactly), so on the write path
(everything reachable from zck_write / zck_end_chunk / zck_close) a call that passes a *local* length (not a field:
object invariants are not decided here) to a zero-rejecting function must be dominated by an edge that makes it
non-zero.  Otherwise some segmentations of the same content fail while others succeed.
"""
from ..flow import Z, M1, NEG, P1, POS
from ..ir import strip, show, callee_name, const_value, calls_in, walk
from ..program import all_exprs
from ..cfg import must_pass_edges
from .common import atom_cmp, node_containing, pstr
from .errdisc import Conventions, CONVS

ROOTS = ('zck_write', 'zck_end_chunk', 'zck_close')


def _class_of_const(v):
    if v is None:
        return 0
    if v == 0:
        return Z
    if v == 1:
        return P1
    if v == -1:
        return M1
    return POS if v > 0 else NEG


def _nonzero_edge(b, lab, want):
    """does taking edge (b, lab) establish want != 0 ?  want: access-path string"""
    op, l, r = atom_cmp(b.e, lab)
    for a, c, o in ((l, r, op), (r, l, {'<': '>', '>': '<', '<=': '>=', '>=': '<='}.get(op, op))):
        if pstr(a) == want:
            cv = const_value(c)
            if cv is None:
                continue
            if (o == '!=' and cv == 0) or (o == '>' and cv >= 0) or (o == '>=' and cv >= 1) or (o == '==' and cv != 0):
                return True
    return False


def is_int_param(p):
    t = (p.t or '')
    return not t.rstrip().endswith('*') and any(x in t for x in ('size_t', 'int', 'long', 'ssize_t', 'unsigned'))


def zero_rejecting(prog):
    convs = Conventions(prog)
    ZR = {}
    funcs = list(prog.lib_funcs())
    byname = {}
    for f in funcs:
        byname.setdefault(f.name, []).append(f)
    for f in funcs:
        conv = convs.of_func(f)
        fail = CONVS.get(conv, (0, 0))[0]
        if not fail or conv == 'ptr':
            # allocators returning NULL for size 0 are left out: their sizes are sums the rule cannot bound
            continue
        pidx = dict((p.decl, i) for i, p in enumerate(f.params) if is_int_param(p))
        if not pidx:
            continue
        g = prog.cfg(f)
        for node in g.nodes:
            if node.k != 'ret' or node.e is None or node.id not in g.reachable:
                continue
            if not (_class_of_const(const_value(node.e)) & fail):
                continue
            for b, lab in must_pass_edges(g, node):
                op, l, r = atom_cmp(b.e, lab)
                sl = strip(l)
                if op == '==' and const_value(r) == 0 and sl is not None and sl.k == 'var' and sl.decl in pidx:
                    ZR.setdefault((f.qname, pidx[sl.decl]), ('rejects %s == 0 at line %d' % (sl.op, node.line), f))
    changed = True
    while changed:
        changed = False
        for f in funcs:
            pidx = dict((p.decl, i) for i, p in enumerate(f.params) if is_int_param(p))
            if not pidx:
                continue
            g = None
            for ex in all_exprs(f):
                for c in calls_in(ex):
                    cn = callee_name(c)
                    for t in byname.get(cn, []):
                        for (tq, pi), why in list(ZR.items()):
                            if tq != t.qname or pi + 1 >= len(c.a):
                                continue
                            a = strip(c.a[pi + 1])
                            if a is None or a.k != 'var' or a.decl not in pidx or (f.qname, pidx[a.decl]) in ZR:
                                continue
                            g = g or prog.cfg(f)
                            nd = node_containing(g, c.uid)
                            if nd is None:
                                continue
                            if any(_nonzero_edge(b, lab, a.op) for b, lab in must_pass_edges(g, nd)):
                                continue
                            ZR[(f.qname, pidx[a.decl])] = ('forwards %s to %s() at line %d, which %s' % (
                                a.op, t.name, c.line, why[0]), f)
                            changed = True
    return ZR, byname


def check_zero_length(ck, prog, config, clause):
    ZR, byname = zero_rejecting(prog)
    if not ZR:
        # no function of the write path refuses an empty piece any more: nothing can fail for some segmentations only
        ck.ob(clause, 'R2.zero-length', 'write path', 'no-zero-rejecting-function', True,
              'no function below the write API rejects a zero length: an empty piece is harmless', config=config,
              trivial=True)
        return 0, 0
    roots = [prog.need_func(r) for r in ROOTS]
    seen, ext = prog.reachable_calls(roots)
    n = 0
    skipped_fields = 0
    for q in sorted(seen):
        f = prog.funcs[q]
        params = set(p.decl for p in f.params)
        g = None
        for ex in all_exprs(f):
            for c in calls_in(ex):
                for t in byname.get(callee_name(c), []):
                    for (tq, pi), (why, tf) in sorted(ZR.items()):
                        if tq != t.qname or pi + 1 >= len(c.a):
                            continue
                        a = strip(c.a[pi + 1])
                        if a is None:
                            continue
                        if a.k == 'var' and a.decl in params and (f.qname, [i for i, p in enumerate(f.params) if p.decl == a.decl][0]) in ZR:
                            continue      # the obligation moved to this function's callers
                        cv = const_value(c.a[pi + 1])
                        if cv is not None and cv != 0:
                            continue
                        if a.k == 'mem':
                            skipped_fields += 1
                            continue
                        n += 1
                        g = g or prog.cfg(f)
                        nd = node_containing(g, c.uid)
                        want = pstr(c.a[pi + 1])
                        ok = nd is not None and any(_nonzero_edge(b, lab, want) for b, lab in must_pass_edges(g, nd))
                        ck.ob(clause, 'R2.zero-length', f.name, '%s(%s)' % (t.name, want[:30]), ok,
                              '%s is known non-zero where it is passed to %s()' % (want, t.name) if ok else
                              '%s may be 0 here (an empty piece: a boundary on the first byte of a write call, or a chunk '
                              'filled exactly by the previous call) and %s() %s: this segmentation of the data fails '
                              'while others succeed' % (want, t.name, why), c.file, c.line, config=config)
    ck.extra.setdefault('zero_rejecting', {})[config] = sorted('%s#%d: %s' % (q, i, w) for (q, i), (w, f) in ZR.items())
    return n, skipped_fields

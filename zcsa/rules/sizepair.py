"""R4.size-pair   recorded length of an owned buffer never exceeds its allocation.

For a (pointer field, length field) pair of a context structure, a function that leaves a block it allocated
(or re-allocated) itself in the pointer field and a value in the length field must, at every exit where both
were stored on the path, leave   length value <= allocation size   provable from the linear values of the
path and the comparison facts of its branch edges.  Paths whose facts contradict each other are infeasible and
skipped.  A consumer trusts the length field (read_header_from_file treats header_size - lead_size bytes as
already loaded), so a violation is a read beyond the block.
"""
from ..ir import strip, show
from .common import Lin, pstr, run_rule, base_term

PAIRS = (
    # pointer field, length field
    ('header', 'header_size'),
    ('buffer', 'buffer_len'),
    ('data', 'data_size'),
    ('dc_data', 'dc_data_size'),
    ('index_string', 'index_size'),
)


def _tail(path):
    return path.replace('.', '->').split('->')[-1]


def make_rule(prog, fn, pairs=PAIRS):
    from ..props.c17 import AllocRule

    class SizePairRule(AllocRule):
        name = 'R4.size-pair'
        use_facts = True

        def __init__(s, prog, fn):
            AllocRule.__init__(s, prog, fn)
            s.track_fields = tuple(sorted(set(s.track_fields) | set(p[1] for p in pairs)))
            s.pair_exits = 0
            s.size_alias = {}
            # names occurring in allocation sizes and in values stored to a length field of a pair: only
            # comparison facts about these are kept (keeps the state space small in the scanners)
            from ..program import all_exprs
            from ..ir import calls_in, callee_name, walk
            s.static_terms = set()
            for ex in all_exprs(fn):
                for c in calls_in(ex):
                    if callee_name(c) in ('zmalloc', 'malloc', 'zrealloc', 'realloc'):
                        for a in c.a[1:]:
                            s.static_terms |= set(pstr(n, s.subst) for n in walk(a) if n.k in ('var', 'mem'))
                            s.static_terms |= set(pstr(n) for n in walk(a) if n.k in ('var', 'mem'))
            from .common import assigned_fields
            for (l, r, op, n) in assigned_fields(fn):
                if _tail(pstr(l)) in [p[1] for p in pairs]:
                    s.size_alias[pstr(l, s.subst)] = pstr(l)
                    if r is not None:
                        s.static_terms |= set(pstr(n, s.subst) for n in walk(r) if n.k in ('var', 'mem'))
                        s.static_terms |= set(pstr(n) for n in walk(r) if n.k in ('var', 'mem'))
            s.infeasible = 0

        def bound(s, ctx, ts, base, size, off, n, what):
            return      # copy extents are C17-b's business; this rule only relates a length field to its block

        def on_edge(s, ctx, node, label, refined, ts):
            # keep only comparison facts that speak about a current allocation size or a recorded length
            if ctx.fn is not s.fn:
                return ts
            from .common import atom_cmp
            from ..ir import const_value
            op, l, r = atom_cmp(node.e, label)
            if op == '==' and const_value(r) == 0:
                # the allocation failed on this edge: the pointer holds no block
                lp = pstr(l, s.subst)
                if lp in s.allocs(ts):
                    ts = s.set_alloc(ts, lp, None)
            before = ts
            ts2 = AllocRule.on_edge(s, ctx, node, label, refined, ts)
            new = ts2 - before
            if not new:
                return ts2
            terms = s.static_terms
            keep = frozenset(x for x in new if set(base_term(k) for k in x[1].t) & terms)
            return before | keep

        def sym_node(s, ctx, node, ts):
            # a loop-head symbol denotes a new value on every iteration: facts about it do not survive the head
            if ctx.fn is s.fn and node.loop is not None:
                tag = '@L%d' % node.line
                ts = frozenset(x for x in ts if not (isinstance(x, tuple) and len(x) == 2 and x[0] == 'le' and
                                                     any(k.endswith(tag) for k in x[1].t)))
            return ts

        def contradictory(s, ts):
            fs = s.leq_facts(ts)
            for i, f in enumerate(fs):
                if f.is_const() and f.c > 0:
                    return True
                for g in fs[i + 1:]:
                    d = f + g
                    if d.is_const() and d.c > 0:
                        return True
            return False

        def on_return(s, ctx, node, mask, ts):
            if ctx.fn is not s.fn:
                return ts
            al = s.allocs(ts)
            _, fields = s.env_of(ts)
            for ptr, size in pairs:
                for apath, asize in al.items():
                    if _tail(apath) != ptr or '->' not in apath and '.' not in apath:
                        continue
                    owner = apath[:len(apath) - len(ptr)]
                    spath = owner + size
                    spath = s.size_alias.get(spath, spath)
                    if spath not in fields or asize is None:
                        continue
                    if s.contradictory(ts):
                        s.infeasible += 1
                        continue
                    s.pair_exits += 1
                    need = fields[spath] - asize

                    def nonpos(l):
                        return l.c <= 0 and all(v <= 0 and base_term(k) in s.unsigned_terms
                                                for k, v in l.t.items())
                    ok = nonpos(need)
                    if not ok:
                        for f in s.leq_facts(ts):
                            for k in (1, 2):
                                if nonpos(need - f.scale(k)):
                                    ok = True
                    if not ok:
                        s.violate(ctx, 'size-pair', 'exit with %s = %r while %s holds a block of %r bytes allocated '
                                  'on this path: the recorded length is not provably within the block (needs %r <= 0); '
                                  'consumers treat the bytes up to the recorded length as present'
                                  % (spath, fields[spath], apath, asize, need), inst='%s/%s' % (ptr, size), node=node)
            return ts
    return SizePairRule(prog, fn)


def check_size_pairs(ck, prog, config, clause, min_exits=4, units=None):
    from ..rules.common import assigned_fields
    total = 0
    nfn = 0
    for fn in sorted(prog.lib_funcs(), key=lambda f: f.qname):
        if units is not None and not any(fn.unit.endswith(u) for u in units):
            continue
        stored = set(_tail(pstr(l)) for (l, r, op, n) in assigned_fields(fn))
        mine = [p for p in PAIRS if p[0] in stored and p[1] in stored]
        if not mine:
            continue
        r = make_rule(prog, fn, tuple(mine))
        run_rule(prog, fn, r)
        if not r.pair_exits and not r.violations:
            continue
        nfn += 1
        total += r.pair_exits
        by = {}
        for v in r.violations:
            by.setdefault(v.inst, v)
        if not by:
            ck.ob(clause, 'R4.size-pair', fn.name, '+'.join('%s/%s' % p for p in mine), True,
                  '%d exit state(s) storing both an allocation made on the path and its length: length <= allocation '
                  '(%d infeasible path(s) skipped)' % (r.pair_exits, r.infeasible), fn.file, fn.line, config=config)
        for inst, v in sorted(by.items()):
            ck.ob(clause, 'R4.size-pair', fn.name, inst, False, v.msg, v.node.file, v.node.line, path=v.path,
                  config=config)
    ck.min_instances('exit states with an allocation and its recorded length', total, min_exits)
    return nfn

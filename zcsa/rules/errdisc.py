"""R1 errdisc: return-value / error discipline.

For every call site of a function that can report a failure (convention table
below, checked against the inferred return classes), the failure outcome is
followed through the caller with the path-sensitive engine:

  to-success   the callee's failure classes can reach a *success* exit of the
               caller (return with the caller's success class, exit(0) in a
               tool, falling off the end of a void function) without the value
               having been propagated -> the failure was turned into success.
  short-use    for read-like primitives: the buffer is consumed with the
               *requested* length while a short count is still possible (bytes
               beyond the returned count are stale).
  short-write  for write(): a short count can reach a success exit.
  breach       callee side: a function returns a class outside its convention
               (e.g. -1 from a function every caller tests with '!').

The engine's refinement makes this exact for the idioms of the code base:
`!f()`, `f() < 0`, `== -1`, `!= expected`, `< expected` (signed), assign-then-test,
switch, flags; an implicit conversion of a possibly negative result to an
unsigned type blocks refinement, so `read_data(...) < (size_t)n` lets -1 through.
"""
from ..flow import (Engine, Rule, M1, NEG, Z, P1, POS, TOP, NONNEG, NEGATIVE, NONZERO, mask_str,
                    EXTERN_MASKS)
from ..ir import strip, strip_transparent, walk, show, callee_name, callee_field, const_value, calls_in
from ..program import all_exprs, access_path, unique_defs, rel
from ..frontend import AnalysisBroken

# For tri-state functions the error class (0) has I/O provenance, the mismatch
# class (-1) is a verdict (verify provenance).
def fail_classes(conv, which):
    f, s = CONVS[conv]
    if conv == 'tri':
        return Z if which == 'io' else M1
    return f


# convention -> (failure classes, success classes)
CONVS = {
    'neg': (M1 | NEG, NONNEG),
    'bool': (Z, P1),
    'tri': (Z | M1, P1),          # 1 ok, 0 error, -1 mismatch
    'tri-alt': (Z, P1 | M1),      # 1 ok, 0 error, -1 a distinct non-error outcome (zckdl: "no range support")
    'zerr': (Z, P1 | POS),        # 0 error, otherwise a count
    'pos': (M1 | NEG | Z, P1 | POS),   # >= 1 ok; 0 backend failure; -1 verification failure
    'ptr': (Z, POS),
    'exit0': (TOP & ~Z, Z),       # process exit status
    'void': (0, TOP),
}

# Frozen after reading each function (DESIGN Appendix A.1).  key: plain name or
# 'unit-suffix::name' for statics that collide.
CONVENTIONS = {
    # raw system calls
    'read': 'neg', 'write': 'neg', 'lseek': 'neg', 'ftruncate': 'neg', 'pread': 'neg', 'pwrite': 'neg',
    # io.c
    'read_data': 'neg', 'write_data': 'bool', 'seek_data': 'bool', 'tell_data': 'neg', 'chunks_from_temp': 'bool',
    # comp.c
    'comp_write': 'neg', 'zck_write': 'neg', 'zck_end_chunk': 'neg', 'comp_read': 'neg', 'zck_read': 'neg',
    'zck_get_chunk_data': 'neg', 'zck_get_chunk_comp_data': 'neg', 'comp_end_dchunk': 'pos',
    'comp_init': 'bool', 'import_dict': 'bool',
    'zstd.c::compress': 'neg', 'nocomp.c::compress': 'neg',
    # hash.c
    'validate_chunk': 'tri', 'validate_file': 'tri', 'validate_header': 'tri', 'validate_current_chunk': 'tri',
    'validate_checksums': 'tri', 'zck_validate_checksums': 'tri', 'zck_validate_data_checksum': 'tri',
    'zck_find_valid_chunks': 'tri',
    # dl.c / multipart.c
    'dl_write': 'neg', 'dl_write_range': 'zerr', 'multipart_extract': 'zerr',
    'zero_chunk': 'bool', 'set_chunk_valid': 'bool', 'write_and_verify_chunk': 'bool', 'zck_copy_chunks': 'bool',
    'zck_write_chunk_cb': 'zerr', 'zck_write_zck_header_cb': 'zerr',
    # header.c / zck.c
    'read_lead': 'bool', 'read_header_from_file': 'bool', 'read_preface': 'bool', 'zck_read_header': 'bool',
    'zck_read_lead': 'bool', 'zck_validate_lead': 'bool', 'zck_init_read': 'bool', 'write_header': 'bool',
    'zck_close': 'bool', 'get_tmp_fd': 'neg', 'zck_init_write': 'bool',
    # zck_dl.c helpers: 1 ok, 0 error, -1 "server does not do ranges"
    'dl_bytes': 'tri-alt', 'dl_header': 'tri-alt', 'dl_range': 'tri-alt', 'dl_byte_range': 'tri-alt',
    'main': 'exit0',
}

# read-like / write-like primitives: name -> (buffer arg index, length arg index) (0-based, after the callee)
READ_LIKE = {'read': (1, 2), 'read_data': (1, 2), 'pread': (1, 2)}
WRITE_LIKE = {'write': (1, 2), 'pwrite': (1, 2)}

TERMINATORS = ('exit', '_exit', '_Exit', 'abort', '__assert_fail', 'argp_usage_and_exit')

# (caller, callee) pairs whose failure is deliberately not propagated, with the reason
EXCEPTIONS = {
    ('zck_copy_chunks', 'write_and_verify_chunk'):
        'per-chunk best effort: a failed copy leaves the target chunk missing/failed (what C08 wants for a bad '
        'source) and a failed target write sets a fatal error on the target context',
    ('zck_write_zck_header_cb', 'tell_data'): 'position used for a debug log line only',
}


def conv_key(fn_or_name, unit=None):
    return fn_or_name


class Conventions(object):
    def __init__(self, prog):
        self.prog = prog
        self.inferred = {}
        self.plain = Engine(prog, Rule())

    def masks(self, fn):
        m = 0
        for _, mask in self.plain.summary(fn, 0):
            m |= mask
        return m

    def of_func(self, fn):
        k2 = '%s::%s' % (fn.unit.split('/')[-1], fn.name)
        if k2 in CONVENTIONS:
            return CONVENTIONS[k2]
        if fn.name in CONVENTIONS:
            # the tool `zck` has its own static void write_data(); the table entry is for the library function
            if fn.static and not self.prog.is_lib_unit(fn.unit) and fn.rtype == 'void':
                return 'void'
            return CONVENTIONS[fn.name]
        if fn.qname in self.inferred:
            return self.inferred[fn.qname]
        rt = fn.rtype or ''
        m = self.masks(fn)
        if rt == 'void':
            c = 'void'
        elif rt.endswith('*'):
            c = 'ptr'
        elif rt in ('bool', '_Bool'):
            c = 'bool'
        elif m & ~(Z | P1) == 0:
            c = 'bool'
        elif rt in ('ssize_t', 'off_t'):
            c = 'neg'
        elif rt in ('size_t',):
            c = 'zerr'
        elif m == (M1 | Z | P1):
            c = 'tri'
        elif m & NEGATIVE:
            c = 'neg'
        else:
            c = 'zerr'
        self.inferred[fn.qname] = c
        return c

    def of_extern(self, name):
        return CONVENTIONS.get(name)


# read wrappers whose "short count only at end of file" contract is decided exactly by R1.short-is-eof
# (rules/shorteof.py, linear values + Fourier-Motzkin): the class-based short-exit test below cannot see that a loop
# has accumulated the full count
SHORT_EOF_WRAPPERS = ('read_data',)


from .common import atom_cmp as atom_cmp  # noqa


class SiteRule(Rule):
    """Tracks the outcome of one call site through its caller."""
    name = 'R1.errdisc'
    interprocedural = False

    def __init__(self, prog, convs, caller, call, callee_label, conv, mask, caller_conv, subst, which='io'):
        self.prog = prog
        self.convs = convs
        self.caller = caller
        self.call = call
        self.callee_label = callee_label
        self.conv = conv
        self.mask = mask
        self.caller_conv = caller_conv
        self.fail_cls, self.succ_cls = CONVS[conv]
        self.fail_cls = fail_classes(conv, which)
        self.caller_fail, self.caller_succ = CONVS[caller_conv]
        self.violations = []
        self.derived = set()
        self.argstrs = None
        self.subst = subst
        self.buf = None
        self.len = None
        self.kind = None
        nm = callee_name(call)
        if nm in READ_LIKE:
            self.kind = 'read'
            b, l = READ_LIKE[nm]
        elif nm in WRITE_LIKE:
            self.kind = 'write'
            b, l = WRITE_LIKE[nm]
        if self.kind:
            args = call.a[1:]
            if len(args) > max(b, l):
                self.buf = self.pstr(args[b])
                self.len = self.pstr(args[l])
        self.tag = None
        self.raw_read = (nm in ('read', 'pread'))
        # a bounded read: the count asked for is computed (what is left of a known total), not a constant block size.
        # For such a read the end of the file is not a normal end of input: bytes that must come are missing.
        self.bounded = False
        self.len_names = set()
        if self.raw_read and caller.name not in SHORT_EOF_WRAPPERS and len(call.a) > 3:
            le = call.a[3]
            if const_value(le) is None:
                def _names(e, depth=0):
                    out = set()
                    for n in walk(e):
                        if n.k == 'var' and getattr(n, 'dk', None) in ('VarDecl', 'ParmVarDecl'):
                            out.add(n.op)
                            d = (subst or {}).get(n.decl)
                            if d is not None and depth < 4:
                                out |= _names(d, depth + 1)
                    return out
                self.len_names = _names(le)
                self.bounded = bool(self.len_names)

    def result_mask(self, ctx):
        """Current (refined) classes of this site's result, wherever it lives."""
        m = 0
        found = False
        for k, v in (ctx.env or {}).items():
            if self.is_result(v[1]):
                m |= v[0]
                found = True
        cv = (ctx.callvals or {}).get(self.call.uid)
        if cv is not None:
            m |= cv[0]
            found = True
        return m if found else (P1 | POS | Z)

    def pstr(self, e):
        p = access_path(e, self.subst)
        if p is not None:
            return p
        return show(strip(e))

    def initial(self, fn):
        return 'pre'

    def filter_call_results(self, ctx, call, ts_in, results):
        if call.uid != self.call.uid or ctx.fn is not self.caller:
            return None
        out = []
        m = 0
        org = frozenset()
        env = None
        for ts_o, mask, o, e2 in results:
            m |= mask
            org |= o
            env = e2
        self.tag = [x for x in org if '@' in x]
        f = m & self.fail_cls
        s = m & ~self.fail_cls
        if f:
            out.append(('fail', f, org, env))
        if s:
            out.append(('ok', s, org, env))
            if self.kind and self.len is not None:
                out.append(('short', s & NONNEG, org, env))
        return out

    def is_result(self, origins):
        return self.tag and any(t in origins for t in self.tag)

    def own_args(self):
        if self.argstrs is None:
            self.argstrs = set()
            for a in self.call.a[1:]:
                sa = strip(a)
                if sa is None or const_value(sa) is not None or sa.k in ('str', 'null'):
                    continue
                self.argstrs.add(self.pstr(a))
        return self.argstrs

    def on_assign(self, ctx, lhs, rhs, op, value, ts):
        # a value computed from the result (length -= written) marks a retry
        if rhs is not None and self.tag:
            for n in walk(rhs):
                if n.k in ('var', 'call') and self.is_result(ctx.origins(n)):
                    p = self.pstr(lhs)
                    if p:
                        self.derived.add(p)
                    break
        return ts

    def on_edge(self, ctx, node, label, refined, ts):
        if ts == 'fail':
            # "result == requested count" (a count argument of the same call)
            # is complete success by the callee's contract
            a = strip_transparent(node.e)
            if a.k == 'bin' and a.op in ('<', '>', '<=', '>=', '==', '!='):
                l, r = a.a[0], a.a[1]
                op = a.op
                if self.is_result(ctx.origins(r)) and not self.is_result(ctx.origins(l)):
                    l, r = r, l
                    op = {'<': '>', '>': '<', '<=': '>=', '>=': '<=', '==': '==', '!=': '!='}[op]
                if self.is_result(ctx.origins(l)) and self.pstr(r) in self.own_args() and \
                        is_count_type(r):
                    # on which edge is  result >= requested ?
                    ge_edge = {'<': False, '>=': True, '==': True, '!=': False}.get(op)
                    if op in ('<', '>=') and converted_to_unsigned(l):
                        # -1 converted to an unsigned type compares greater
                        # than any requested count: the ordering test lets it through
                        ge_edge = None
                    if ge_edge is not None and bool(label) == ge_edge:
                        return None
            return ts
        if ts == 'eof' and self.bounded:
            # a test that nothing was left to read (remainder == 0 on this edge) makes the early end harmless
            op, l, r = atom_cmp(node.e, label)
            sl = strip(l)
            if sl is not None and sl.k == 'var' and sl.op in self.len_names and const_value(r) is not None:
                cv = const_value(r)
                if (op == '==' and cv == 0) or (op == '<=' and cv <= 0) or (op == '<' and cv <= 1):
                    return 'ok'
            return ts
        if ts != 'short':
            return ts
        # the result is known not to be positive any more (EOF or error edge): nothing was left unread
        for expr, origins, before, after in refined:
            if self.is_result(origins) and after & (P1 | POS) == 0:
                return 'eof'
        # comparison of the result with the requested length decides "short"
        a = strip_transparent(node.e)
        if a.k == 'bin' and a.op in ('<', '>', '<=', '>=', '==', '!='):
            l, r = a.a[0], a.a[1]
            lo = ctx.origins(l)
            ro = ctx.origins(r)
            op = a.op
            if self.is_result(ro) and not self.is_result(lo):
                l, r = r, l
                lo, ro = ro, lo
                op = {'<': '>', '>': '<', '<=': '>=', '>=': '<=', '==': '==', '!=': '!='}[op]
            if self.is_result(lo) and self.pstr(r) == self.len:
                # result OP len, where short means result < len
                truth_when_short = {'<': True, '<=': True, '!=': True, '==': False, '>=': False, '>': False}[op]
                if op == '<=':
                    return ts   # inconclusive
                if bool(label) != truth_when_short:
                    return None
        return ts

    def after_call(self, ctx, call, ts, mask):
        name = callee_name(call)
        if name in TERMINATORS:
            if name in ('exit', '_exit', '_Exit') and self.caller_conv == 'exit0' or name in ('exit', '_exit', '_Exit'):
                am = ctx.value(call.a[1]) if len(call.a) > 1 else TOP
                if ts in ('fail', 'short') and (am & Z):
                    if ts == 'fail' or self.kind == 'write':
                        self.report(ctx, 'to-success' if ts == 'fail' else 'short-write', call,
                                    'exit(%s) with status possibly 0' % show(call.a[1]))
                if ts == 'eof' and self.bounded and (am & Z):
                    self.report(ctx, 'eof-exit', call, 'exit(%s) with status possibly 0 after %s hit the end of the file '
                                'while %s byte(s) were still expected: the copy is incomplete and nothing tests what was '
                                'left' % (show(call.a[1]), self.callee_label, self.len))
            return None
        if ts == 'short' and self.kind == 'write' and call.uid != self.call.uid and \
                (callee_name(call) in WRITE_LIKE):
            # a second write whose arguments are computed from the first
            # result is a retry of the remainder: its own site is checked
            for a in call.a[1:]:
                for n in walk(a):
                    if n.k == 'var' and (self.pstr(n) in self.derived or self.is_result(ctx.origins(n))):
                        return 'ok'
        if ts == 'short' and self.kind == 'read' and call.uid != self.call.uid:
            args = [self.pstr(x) for x in call.a[1:]]
            if self.buf in args and self.len in args:
                self.report(ctx, 'short-use', call,
                            '%s consumes buffer %s with the requested length %s although %s may have returned fewer bytes'
                            % (callee_name(call) or callee_field(call) or 'callee', self.buf, self.len, self.callee_label))
        return ts

    def on_return(self, ctx, node, mask, ts):
        if ts == 'short' and self.raw_read and self.caller_conv != 'void' and self.caller.name not in SHORT_EOF_WRAPPERS:
            # read(): a positive count smaller than requested is not end of file; leaving to a success exit
            # while the result may still be positive means the rest of the stream is silently dropped
            if not (node.e is not None and self.is_result(ctx.origins(node.e))) and mask & self.caller_succ:
                self.report(ctx, 'short-exit', node, 'success exit while the last read() may have returned a '
                            'positive short count: only 0 means end of file')
        if ts == 'eof' and self.bounded and self.caller_conv != 'void' and mask & self.caller_succ and \
                not (node.e is not None and self.is_result(ctx.origins(node.e))):
            self.report(ctx, 'eof-exit', node, 'success exit after %s hit the end of the file while %s byte(s) were still '
                        'expected' % (self.callee_label, self.len))
        if ts == 'fail' or (ts == 'short' and self.kind == 'write'):
            if self.caller_conv == 'void':
                if node.k == 'exit' or node.e is None:
                    self.report(ctx, 'to-success' if ts == 'fail' else 'short-write', node,
                                'void function returns normally')
                return ts
            if node.e is not None and self.is_result(ctx.origins(node.e)):
                return ts   # propagated to the caller
            if mask & self.caller_succ:
                self.report(ctx, 'to-success' if ts == 'fail' else 'short-write', node,
                            'return %s (classes %s include the caller\'s success class %s)'
                            % (show(node.e), mask_str(mask), mask_str(self.caller_succ)))
        return ts

    def report(self, ctx, kind, where, what):
        key = (kind,)
        for v in self.violations:
            if v['kind'] == kind:
                return
        st = None
        self.violations.append({'kind': kind, 'where': where, 'what': what, 'node': ctx.node,
                                'env': dict(ctx.env) if ctx.env else {}})


def converted_to_unsigned(e):
    from ..ir import is_unsigned_type
    while e is not None and e.k == 'cast':
        if e.op == 'IntegralCast' and is_unsigned_type(e.t, e.dt):
            inner = strip(e)
            from ..ir import is_signed_int_type
            if is_signed_int_type(inner.t, inner.dt):
                return True
        e = e.a[0]
    return False


def is_count_type(e):
    from ..ir import is_unsigned_type, is_signed_int_type, is_pointer_type
    se = strip(e)
    t, dt = se.t, se.dt
    return not is_pointer_type(t, dt) and (is_unsigned_type(t, dt) or is_signed_int_type(t, dt))


def closure(prog, prims):
    """Functions from which one of `prims` (extern names) or a listed repo
    function is reachable."""
    cg = prog.callgraph()
    reach = set()
    changed = True
    while changed:
        changed = False
        for q, sites in cg.items():
            if q in reach:
                continue
            for c, fs, exs in sites:
                if any(x in prims for x in exs) or any(t.qname in reach or t.name in prims for t in fs):
                    reach.add(q)
                    changed = True
                    break
    return reach


IO_PRIMS = {'read', 'write', 'lseek', 'ftruncate', 'pread', 'pwrite'}
VERIFY_PRIMS = {'validate_chunk', 'validate_file', 'validate_header'}


def analyse_sites(prog, want_site=None, which='io'):
    """Run R1 over every call site whose callee has a convention and can return
    a failure class.  Returns list of site records:
      {caller, call, callee, conv, mask, caller_conv, violations:[...], provenance:set, exception}
    want_site(caller Func, call, callee label) -> bool restricts the sites."""
    convs = Conventions(prog)
    io_cl = closure(prog, IO_PRIMS)
    ver_cl = closure(prog, VERIFY_PRIMS) | set(f.qname for n in VERIFY_PRIMS for f in prog.by_name.get(n, []))
    sites = []
    for q in sorted(prog.funcs):
        fn = prog.funcs[q]
        subst = None
        caller_conv = None
        for ex in all_exprs(fn):
            for c in calls_in(ex):
                fs, exs = prog.call_targets(fn, c)
                label = None
                conv = None
                mask = 0
                prov = set()
                for t in fs:
                    cv = convs.of_func(t)
                    if t.qname in io_cl:
                        prov.add('io')
                    if t.qname in ver_cl:
                        prov.add('verify')
                    if t.qname not in io_cl and t.qname not in ver_cl:
                        continue
                    if cv == 'void':
                        continue
                    conv = cv if conv in (None, cv) else 'mixed'
                    mask |= convs.masks(t)
                    label = t.name if label is None else label
                for x in exs:
                    cv = convs.of_extern(x)
                    if cv is None or x not in IO_PRIMS:
                        continue
                    prov.add('io')
                    conv = cv if conv in (None, cv) else 'mixed'
                    mask |= EXTERN_MASKS.get(x, TOP)
                    label = x if label is None else label
                if conv is None:
                    continue
                if conv == 'mixed':
                    raise AnalysisBroken('call at %s:%d resolves to callees with different conventions'
                                         % (rel(c.file), c.line))
                if want_site is not None and not want_site(fn, c, label):
                    continue
                fail_cls = fail_classes(conv, which)
                if caller_conv is None:
                    caller_conv = convs.of_func(fn)
                    subst = unique_defs(fn)
                rec = {'caller': fn, 'call': c, 'callee': label, 'conv': conv, 'mask': mask, 'fail': fail_cls,
                       'caller_conv': caller_conv, 'violations': [], 'provenance': prov,
                       'exception': EXCEPTIONS.get((fn.name, label))}
                sites.append(rec)
                if not (mask & fail_cls) and label not in READ_LIKE and label not in WRITE_LIKE:
                    rec['trivial'] = True
                    continue
                rule = SiteRule(prog, convs, fn, c, label, conv, mask, caller_conv, subst, which)
                eng = Engine(prog, rule)
                eng.summary(fn, 'pre')
                for v in rule.violations:
                    # witness path
                    v['path'] = []
                if rule.violations:
                    sm = state_machine_var(fn)
                    if sm is not None:
                        # the outcome is kept in an explicit state variable with three or more states: the class
                        # domain {<-1, -1, 0, 1, >1} cannot tell the states apart, so the rule cannot decide
                        raise AnalysisBroken('%s keeps its progress in the state variable %s (%d constants): R1 cannot '
                                             'follow an explicit state machine (undecided, not a finding)' % (
                                                 fn.name, sm[0], sm[1]))
                rec['violations'] = rule.violations
                rec['engine'] = eng
    return sites, convs


def state_machine_var(fn):
    """(name, number of constants) of a local variable or field of a local struct that is assigned at least three
    distinct integer constants in fn and is compared with a constant of magnitude >= 2, or None."""
    assigned = {}
    compared = set()
    for ex in all_exprs(fn):
        for n in walk(ex):
            if n.k == 'bin' and n.op == '=':
                cv = const_value(n.a[1])
                l = strip(n.a[0])
                if cv is not None and l is not None and l.k in ('var', 'mem'):
                    root = l
                    while root is not None and root.k == 'mem' and not root.arrow:
                        root = strip(root.a[0])
                    if root is not None and root.k == 'var' and root.dk == 'VarDecl':
                        assigned.setdefault(show(l), set()).add(cv)
            if n.k == 'bin' and n.op in ('==', '!='):
                cv = const_value(n.a[1])
                if cv is not None and abs(cv) >= 2:
                    compared.add(show(strip(n.a[0])))
    for name, vals in sorted(assigned.items()):
        if len(vals) >= 3 and name in compared:
            return name, len(vals)
    return None


def breaches(prog, convs):
    """Callee-side convention checks: a function with a table entry returns a
    class outside failure|success of its convention."""
    out = []
    for q in sorted(prog.funcs):
        fn = prog.funcs[q]
        k2 = '%s::%s' % (fn.unit.split('/')[-1], fn.name)
        if k2 not in CONVENTIONS and fn.name not in CONVENTIONS:
            continue
        conv = convs.of_func(fn)
        if conv in ('void', 'exit0'):
            continue
        f, s = CONVS[conv]
        eng = Engine(prog, Rule())
        eng.summary(fn, 0)
        rec = eng.results[(fn.qname, 0)]
        bad = []
        for node, mask, ts, here in rec['returns']:
            extra = mask & ~(f | s)
            if conv == 'neg':
                extra = 0   # every integer is either negative or not
            if not extra or node.e is None:
                continue
            se = strip(node.e)
            # only returns whose class is known exactly: literals and call results
            if const_value(se) is not None or se.k == 'call':
                bad.append((node, mask, extra))
        out.append((fn, conv, bad))
    return out


def return_type_breaches(prog, convs):
    """A function whose results are told apart by sign (conventions tri: 1 / 0 / -1, neg: negative = failure) must
    return a signed integer type.  Declared bool (or unsigned) the -1 is converted to true (or a huge count) at the
    return statement, and every caller's `< 1` / `< 0` test stops seeing the mismatch or the failure - with the
    call sites textually unchanged.  Also: any library function declared bool that returns an expression whose value
    can be negative (a propagated verdict) - reported at the return."""
    from ..ir import is_unsigned_type
    out = []
    for q in sorted(prog.funcs):
        fn = prog.funcs[q]
        if fn.body is None or not prog.is_lib_unit(fn.unit):
            continue
        rt = (fn.rdtype or fn.rtype or '').replace('const ', '').strip()
        is_bool = rt in ('bool', '_Bool')
        k2 = '%s::%s' % (fn.unit.split('/')[-1], fn.name)
        conv = convs.of_func(fn) if (k2 in CONVENTIONS or fn.name in CONVENTIONS) else None
        if conv in ('tri', 'neg') and (is_bool or is_unsigned_type(fn.rtype, fn.rdtype)):
            out.append((fn, fn, 'declared %s but its results are told apart by sign (convention %s): the negative result is '
                        'converted at the return statement and reaches the callers as success' % (rt, conv)))
            continue
        if is_bool:
            eng = Engine(prog, Rule())
            eng.summary(fn, 0)
            rec = eng.results[(fn.qname, 0)]
            for node, mask, ts, here in rec['returns']:
                if node.e is None:
                    continue
                inner = node.e
                while inner is not None and inner.k == 'cast' and inner.a:
                    inner = inner.a[0]
                se = strip(inner)
                if se is not None and se.k == 'call':
                    t = prog.resolve_direct(fn, callee_name(se)) if callee_name(se) else None
                    if t is not None:
                        m = convs.masks(t)
                        c2 = convs.of_func(t)
                        if c2 in ('tri', 'neg') and m & (M1 | NEG):
                            out.append((fn, node, 'bool function returns %s, whose negative result (%s convention) becomes '
                                        'true' % (show(se)[:60], c2)))
    return out

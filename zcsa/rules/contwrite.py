"""R4.continuation   a retried write continues exactly where the previous one stopped.

In the descriptor write wrapper every write(fd, P, N) call is related to the previous one on the same path:
the first call passes the wrapper's own (data, length); call k+1 must pass P_k + r_k and N_k - r_k, where r_k is
the (symbolic) result of call k.  Loops are unrolled for the first UNROLL visits of their head (values stay
linear in the distinct result symbols); later iterations are not related (stated in the evidence).  A success
return needs the edge "last result >= last count".  Linear values only; nothing is executed.
"""
from ..flow import Z, P1, POS
from ..ir import strip, show, callee_name, const_value
from .common import SymRule, Lin, pstr, atom_cmp, run_rule

UNROLL = 3


class ContRule(SymRule):
    name = 'R4.continuation'

    def __init__(self, prog, fn, ptr_param, len_param, sink='write'):
        SymRule.__init__(self, prog, fn)
        self.ptr_param = ptr_param
        self.len_param = len_param
        self.sink = sink
        self.calls = 0
        self.related = 0
        self.success_exits = 0

    # ---- bounded unrolling instead of fresh loop symbols
    def visits(self, ts):
        for x in ts:
            if isinstance(x, tuple) and x[0] == 'visits':
                return x[1]
        return 0

    def on_node(self, ctx, node, ts):
        if ctx.fn is self.fn and node.loop is not None:
            n = self.visits(ts)
            ts = frozenset(x for x in ts if not (isinstance(x, tuple) and x[0] == 'visits'))
            if n < UNROLL:
                return ts | frozenset([('visits', n + 1)])
            ts = ts | frozenset([('visits', n), 'widened'])
            ts = frozenset(x for x in ts if not (isinstance(x, tuple) and x[0] in ('last', 'full')))
            return SymRule.on_node(self, ctx, node, ts)
        return ts

    def last(self, ts):
        best = None
        for x in ts:
            if isinstance(x, tuple) and x[0] == 'last':
                if best is None or x[1] > best[1]:
                    best = x
        return best

    def sym_call(self, ctx, call, ts):
        if callee_name(call) != self.sink or len(call.a) < 4:
            return ts
        P = self.value(call.a[2], ts)
        N = self.value(call.a[3], ts)
        self.calls += 1
        if 'widened' in ts:
            return ts
        prev = self.last(ts)
        idx = 0 if prev is None else prev[1] + 1
        if P is None or N is None:
            self.violate(ctx, 'continuation', '%s: source or count of the %s() call is not a linear expression of the '
                         'wrapper\'s arguments and earlier results' % (show(call)[:60], self.sink), inst='call#%d' % idx)
            return ts
        if prev is None:
            ok = P == Lin({self.ptr_param: 1}) and N == Lin({self.len_param: 1})
            if not ok:
                self.violate(ctx, 'continuation', 'first %s() passes (%r, %r), not the wrapper\'s own (%s, %s)' % (
                    self.sink, P, N, self.ptr_param, self.len_param), inst='call#0')
        else:
            r = Lin({'%s#%d' % (self.sink, prev[1]): 1})
            self.related += 1
            if not (P - prev[2] == r and prev[3] - N == r):
                self.violate(ctx, 'continuation', '%s() call %d passes source %r, count %r after call %d passed source %r, '
                             'count %r and returned %r: the retry must pass source + result and count - result '
                             '(bytes are skipped, repeated or the tail is lost while the byte count still adds up)' % (
                                 self.sink, idx, P, N, prev[1], prev[2], prev[3], r), inst='call#%d' % min(idx, 2))
        ts = frozenset(x for x in ts if not (isinstance(x, tuple) and x[0] == 'last'))
        return ts | frozenset([('last', idx, P, N)])

    def sym_assign(self, ctx, lhs, rhs, op, ts):
        # the result of call k is the fresh symbol sink#k
        if rhs is not None and op == '=':
            r = strip(rhs)
            l = strip(lhs)
            if r is not None and r.k == 'call' and callee_name(r) == self.sink and l.k == 'var':
                prev = self.last(ts)
                if prev is not None:
                    ts = self.set_key(ts, ('v', l.decl), Lin({'%s#%d' % (self.sink, prev[1]): 1}))
        return ts

    def on_edge(self, ctx, node, label, refined, ts):
        if ctx.fn is not self.fn:
            return ts
        prev = self.last(ts)
        if prev is None:
            return ts
        op, l, r = atom_cmp(node.e, label)
        lv, rv = self.value(l, ts), self.value(r, ts)
        if lv is None or rv is None:
            return ts
        res = Lin({'%s#%d' % (self.sink, prev[1]): 1})
        if (lv == res and rv == prev[3] and op in ('>=', '==')) or (rv == res and lv == prev[3] and op in ('<=', '==')):
            ts = ts | frozenset([('full', prev[1])])
        return ts

    def on_return(self, ctx, node, mask, ts):
        if ctx.fn is not self.fn or not (mask & (P1 | POS)) or 'widened' in ts:
            return ts
        prev = self.last(ts)
        if prev is None:
            return ts
        self.success_exits += 1
        if ('full', prev[1]) not in ts:
            self.violate(ctx, 'incomplete', 'success return after %s() call %d without the edge "result >= count" for that '
                         'call: a short write is reported as complete' % (self.sink, prev[1]), inst='success-exit',
                         node=node)
        return ts


def check_write_continuation(ck, prog, config, clause, fname='write_data', ptr='data', length='length'):
    fn = prog.need_func(fname)
    r = ContRule(prog, fn, ptr, length)
    run_rule(prog, fn, r)
    ck.require(r.calls >= 1, '%s no longer calls write()' % fname)
    by = {}
    for v in r.violations:
        by.setdefault(v.inst, v)
    if not by:
        ck.ob(clause, 'R4.continuation', fname, 'retry', True,
              '%d write() call state(s): the first passes (%s, %s), every retry passes source + result and count - result '
              '(%d consecutive pairs related, loops unrolled %d times); %d success exit(s) lie on "result >= count"' % (
                  r.calls, ptr, length, r.related, UNROLL, r.success_exits), fn.file, fn.line, config=config)
    for inst, v in sorted(by.items()):
        ck.ob(clause, 'R4.continuation', fname, inst, False, v.msg, v.node.file, v.node.line, path=v.path, config=config)
    return r

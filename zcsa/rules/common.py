"""Helpers shared by the property rules: fact-set typestate rules on top of the
flow engine, access-path utilities, linear symbolic forms, control dependence.

A *fact rule* keeps a frozenset of facts as typestate.  Facts are gained on
labelled branch edges (a verdict was tested), on calls and on assignments, and
killed by writes to the access paths they speak about.  Obligations are checked
at calls, assignments and returns.  Because the engine keeps one state per path
(no join), a fact holds at a program point only when it was established on every
path the state stands for.
"""
from ..flow import Engine, Rule, M1, NEG, Z, P1, POS, TOP, NONNEG, NEGATIVE, POSITIVE, NONZERO, mask_str
from ..ir import (E, strip, strip_transparent, walk, walk_eval_order, show, callee_name, callee_field,
                  const_value, calls_in, is_unsigned_type)
from ..program import access_path, unique_defs, all_exprs, rel, is_assign_op
from ..cfg import build_cfg
from ..frontend import AnalysisBroken

CMP_FLIP = {'<': '>', '>': '<', '<=': '>=', '>=': '<=', '==': '==', '!=': '!='}
CMP_NEG = {'<': '>=', '<=': '>', '>': '<=', '>=': '<', '==': '!=', '!=': '=='}


def pstr(e, subst=None):
    """Access path of e (after substituting single-definition locals), or its
    rendering when it is not an access path."""
    if e is None:
        return ''
    p = access_path(e, subst)
    if p is not None:
        return p
    return show(strip(e))


def last_field(e):
    e = strip(e)
    while e is not None and e.k == 'idx':
        e = strip(e.a[0])
    if e is not None and e.k == 'mem':
        return e.op
    return None


def fields_in(e):
    """Set of member names mentioned anywhere in e."""
    return set(n.op for n in walk(e) if n.k == 'mem')


def vars_in(e):
    return set(n.decl for n in walk(e) if n.k == 'var' and n.dk in ('VarDecl', 'ParmVarDecl'))


def call_name(call):
    return callee_name(call) or callee_field(call)


def calls_of(fn, names):
    """Call nodes in fn (source order) whose direct name or slot field is in names."""
    if isinstance(names, str):
        names = (names,)
    out = []
    for ex in all_exprs(fn):
        for c in calls_in(ex):
            if call_name(c) in names:
                out.append(c)
    out.sort(key=lambda c: (c.line, str(c.uid)))
    return out


def atom_cmp(atom, label, subst=None):
    """Normalise a branch atom taken with outcome `label` to (op, left, right)
    with op the comparison that HOLDS on that edge; truthiness tests become
    (x != 0) / (x == 0).  left/right are expressions."""
    a = strip_transparent(atom)
    if a.k == 'bin' and a.op in CMP_FLIP:
        op = a.op if label else CMP_NEG[a.op]
        if const_value(a.a[0]) is not None and const_value(a.a[1]) is None:
            # `0 == x` is `x == 0`: the constant goes to the right
            return {'<': '>', '>': '<', '<=': '>=', '>=': '<=', '==': '==', '!=': '!='}[op], a.a[1], a.a[0]
        return op, a.a[0], a.a[1]
    zero = E('int', val=0, t='int')
    return ('!=' if label else '==', a, zero)


class Violation(object):
    def __init__(self, kind, msg, node, path=None, inst=None):
        self.kind = kind
        self.msg = msg
        self.node = node
        self.path = path or []
        self.inst = inst


class FactRule(Rule):
    """Typestate = frozenset of fact names.  Subclasses override the hooks."""
    name = 'facts'
    interprocedural = False
    start = frozenset()

    def __init__(self, prog, fn):
        self.prog = prog
        self.fn = fn
        self.subst = unique_defs(fn)
        self.violations = []
        self._seen = set()

    def initial(self, fn):
        return self.start

    def P(self, e, ctx=None):
        if ctx is not None and ctx.fn is not self.fn:
            return pstr(e, unique_defs(ctx.fn))
        return pstr(e, self.subst)

    def violate(self, ctx, kind, msg, inst=None, node=None):
        node = node or ctx.node
        key = (kind, inst, node.id if hasattr(node, 'id') else id(node), ctx.fn.qname)
        if key in self._seen:
            return
        self._seen.add(key)
        path = []
        here = getattr(ctx, 'here', None)
        if here is not None:
            path = ctx.engine.witness(ctx.fn, ctx.ts_in, here[0], here[1])
        self.violations.append(Violation(kind, msg, node, path, inst))


def run_rule(prog, fn, rule, ts_in=None, depth_limit=12):
    eng = Engine(prog, rule, depth_limit=depth_limit)
    ts = rule.initial(fn) if ts_in is None else ts_in
    eng.summary(fn, ts)
    rec = eng.results[(fn.qname, ts)]
    return eng, rec


def origin_names(origins):
    return set(o for o in origins if '@' not in o)


# --------------------------------------------------------------- gates

class GateRule(FactRule):
    """Every exit whose return class meets `success` must have passed, for each
    gate callee, an edge on which the callee's result was refined into `ok`."""
    name = 'R2.gate'

    def __init__(self, prog, fn, gates, success, extra_edge=None):
        FactRule.__init__(self, prog, fn)
        self.gates = gates          # callee name -> ok mask
        self.success = success
        self.extra_edge = extra_edge
        self.success_exits = 0

    def on_edge(self, ctx, node, label, refined, ts):
        for expr, origins, before, after in refined:
            for g, ok in self.gates.items():
                if g in origins and after & ~ok == 0:
                    ts = ts | frozenset(['gate:' + g])
        if self.extra_edge is not None:
            ts = self.extra_edge(self, ctx, node, label, refined, ts)
        return ts

    def on_return(self, ctx, node, mask, ts):
        if ctx.fn is not self.fn:
            return ts
        if mask & self.success:
            self.success_exits += 1
            # a propagated verdict (return validate_x()) passes the gate to the caller
            prop = set()
            if node.e is not None:
                prop = origin_names(ctx.origins(node.e))
            for g in self.gates:
                if 'gate:' + g not in ts and g not in prop:
                    self.violate(ctx, 'ungated', 'success exit (return %s, classes %s) reachable without the '
                                 'success edge of %s()' % (show(node.e) if node.e is not None else '',
                                                           mask_str(mask), g), inst=g, node=node)
        return ts


def check_gate(prog, fn, gates, success=P1 | POS):
    rule = GateRule(prog, fn, gates, success)
    run_rule(prog, fn, rule)
    return rule


# --------------------------------------------------------------- linear forms

class Lin(object):
    """sum(coef * term) + const, terms are access-path strings."""
    __slots__ = ('t', 'c', '_h')

    def __init__(self, t=None, c=0):
        self.t = dict((k, v) for k, v in (t or {}).items() if v != 0)
        self.c = c
        self._h = None          # values are never mutated after construction: the hash is computed once

    def __add__(self, o):
        t = dict(self.t)
        for k, v in o.t.items():
            t[k] = t.get(k, 0) + v
        return Lin(t, self.c + o.c)

    def __neg__(self):
        return Lin(dict((k, -v) for k, v in self.t.items()), -self.c)

    def __sub__(self, o):
        return self + (-o)

    def scale(self, n):
        return Lin(dict((k, v * n) for k, v in self.t.items()), self.c * n)

    def __eq__(self, o):
        return isinstance(o, Lin) and self.t == o.t and self.c == o.c

    def __ne__(self, o):
        return not self.__eq__(o)

    def __hash__(self):
        h = self._h
        if h is None:
            h = self._h = hash((tuple(sorted(self.t.items())), self.c))
        return h

    def is_const(self):
        return not self.t

    def subst(self, term, lin):
        if term not in self.t:
            return self
        k = self.t[term]
        t = dict(self.t)
        del t[term]
        return Lin(t, self.c) + lin.scale(k)

    def __repr__(self):
        parts = []
        for k in sorted(self.t):
            v = self.t[k]
            if v == 1:
                parts.append('+ ' + k)
            elif v == -1:
                parts.append('- ' + k)
            elif v > 0:
                parts.append('+ %d*%s' % (v, k))
            else:
                parts.append('- %d*%s' % (-v, k))
        if self.c or not parts:
            parts.append(('+ %d' % self.c) if self.c >= 0 else ('- %d' % -self.c))
        s = ' '.join(parts)
        return s[2:] if s.startswith('+ ') else s


def lin(e, subst=None, env=None, depth=0):
    """Linear form of expression e, or None when e is not linear over access
    paths.  `subst`: decl id -> defining expression (single-definition locals);
    `env`: decl id -> Lin (flow-sensitive values supplied by the caller)."""
    if e is None or depth > 40:
        return None
    e = strip(e)
    cv = const_value(e)
    if cv is not None:
        return Lin(None, cv)
    if e.k == 'var':
        if e.dk == 'EnumConstantDecl' and e.val is not None:
            return Lin(None, e.val)
        if env is not None and e.decl in env:
            return env[e.decl]
        if subst is not None and e.decl in subst:
            r = lin(subst[e.decl], subst, env, depth + 1)
            if r is not None:
                return r
        return Lin({e.op: 1})
    if e.k in ('mem', 'idx') or (e.k == 'un' and e.op in ('*', '&')):
        p = access_path(e, subst)
        if p is None:
            return None
        return Lin({p: 1})
    if e.k == 'un' and e.op == '-':
        r = lin(e.a[0], subst, env, depth + 1)
        return None if r is None else -r
    if e.k == 'un' and e.op == '+':
        return lin(e.a[0], subst, env, depth + 1)
    if e.k == 'bin' and e.op in ('+', '-'):
        l = lin(e.a[0], subst, env, depth + 1)
        r = lin(e.a[1], subst, env, depth + 1)
        if l is None or r is None:
            return None
        return l + r if e.op == '+' else l - r
    if e.k == 'bin' and e.op == '*':
        l = lin(e.a[0], subst, env, depth + 1)
        r = lin(e.a[1], subst, env, depth + 1)
        if l is None or r is None:
            return None
        if l.is_const():
            return r.scale(l.c)
        if r.is_const():
            return l.scale(r.c)
        return None
    if e.k == 'bin' and e.op == '=':
        return lin(e.a[1], subst, env, depth + 1)
    if e.k == 'sizeof' and e.val is not None:
        return Lin(None, e.val)
    if e.k == 'call':
        # pure getter calls are kept as opaque terms keyed by their rendering
        return Lin({show(e): 1})
    return None


# --------------------------------------------------------------- graph helpers

def node_containing(g, uid):
    """CFG node whose expression tree contains the node with clang id uid."""
    for n in g.nodes:
        if n.id not in g.reachable:
            continue
        if n.e is not None:
            for x in walk(n.e):
                if x.uid == uid:
                    return n
    return None


def assigned_fields(fn):
    """(lhs expr, rhs expr or None, op, containing top-level expr) for every
    assignment whose target is a struct member."""
    out = []
    for ex in all_exprs(fn):
        for n in walk_eval_order(ex):
            if n.k == 'bin' and is_assign_op(n.op):
                l = strip(n.a[0])
                if l.k == 'mem':
                    out.append((n.a[0], n.a[1], n.op, n))
            elif n.k == 'un' and n.op in ('++', '--'):
                l = strip(n.a[0])
                if l.k == 'mem':
                    out.append((n.a[0], None, n.op, n))
    return out


# --------------------------------------------------------------- symbolic straight-line values

def loop_assigned(fn, per_loop=None):
    """decl ids of locals assigned inside a loop body (their value is not a
    single linear form per path).  per_loop (dict) receives id(loop stmt) -> set."""
    from ..ir import walk_stmts, stmt_exprs
    total = set()
    for s in walk_stmts(fn.body):
        if s.k in ('while', 'do', 'for'):
            out = set()
            exprs = list(stmt_exprs(s.body))
            if s.k == 'for' and s.inc is not None and not isinstance(s.inc, list):
                exprs.append(s.inc)
            for ex in exprs:
                for n in walk(ex):
                    if n.k == 'bin' and is_assign_op(n.op):
                        l = strip(n.a[0])
                        if l.k == 'var':
                            out.add(l.decl)
                    elif n.k == 'un' and n.op in ('++', '--'):
                        l = strip(n.a[0])
                        if l.k == 'var':
                            out.add(l.decl)
                    elif n.k == 'un' and n.op == '&':
                        l = strip(n.a[0])
                        if l.k == 'var':
                            out.add(l.decl)
            if per_loop is not None:
                per_loop[id(s)] = out
                fld = set()
                for ex in exprs:
                    for n in walk(ex):
                        if (n.k == 'bin' and is_assign_op(n.op)) or (n.k == 'un' and n.op in ('++', '--')):
                            l = strip(n.a[0])
                            if l.k == 'mem':
                                fld.add(l.op)
                per_loop[('fields', id(s))] = fld
            total |= out
    return total


ENTRY = '\u00b0'      # suffix of the symbol for "value of a tracked field on entry", once the field was assigned


def base_term(k):
    """name of the variable / path a symbolic term stands for (loop, call-site and entry markers removed)"""
    return k.split('@')[0].split('#')[0].rstrip(ENTRY)


def _ren(x, old, new):
    if isinstance(x, Lin):
        if old in x.t:
            t = dict(x.t)
            t[new] = t.get(new, 0) + t.pop(old)
            return Lin(t, x.c)
        return x
    if isinstance(x, tuple):
        return tuple(_ren(y, old, new) for y in x)
    return x


def rename_term(ts, old, new):
    return frozenset(_ren(x, old, new) for x in ts)


class SymRule(FactRule):
    """Typestate = frozenset of (key, Lin): flow-sensitive linear values of
    locals (key ('v', decl id)) and of selected struct fields assigned in the
    function (key ('f', access path)).  Facts of other kinds (plain strings)
    may be mixed in by subclasses."""
    name = 'R4.sym'
    track_fields = ()

    def __init__(self, prog, fn):
        FactRule.__init__(self, prog, fn)
        self.per_loop = {}
        self.loopvars = loop_assigned(fn, self.per_loop)
        self.locals = set(fn.locals.keys()) | set(p.decl for p in fn.params)

    # -- environment access
    def env_of(self, ts):
        env = {}
        fields = {}
        for it in ts:
            if isinstance(it, tuple) and len(it) == 2 and isinstance(it[0], tuple):
                kind, k = it[0]
                if kind == 'v':
                    env[k] = it[1]
                elif kind == 'f':
                    fields[k] = it[1]
        return env, fields

    def value(self, e, ts):
        """Linear form of e in state ts with tracked field aliases substituted."""
        env, fields = self.env_of(ts)
        r = lin(e, None, env)
        if r is None:
            return None
        # stored field values are expressed over entry values (the plain path) and fresh symbols, so one
        # simultaneous substitution is exact; iterating would substitute an entry value again
        out = Lin(None, r.c)
        for term, coef in sorted(r.t.items()):
            if term in fields:
                out = out + fields[term].scale(coef)
            else:
                out = out + Lin({term: coef})
        return out

    def set_key(self, ts, key, val):
        ts = frozenset(it for it in ts if not (isinstance(it, tuple) and len(it) == 2 and it[0] == key))
        if val is not None:
            ts = ts | frozenset([(key, val)])
        return ts

    def on_assign(self, ctx, lhs, rhs, op, value, ts):
        if ctx.fn is not self.fn:
            return ts
        l = strip(lhs)
        key = None
        if l.k == 'var' and l.decl in self.locals:
            key = ('v', l.decl)
        elif l.k == 'mem' and l.op in self.track_fields:
            key = ('f', pstr(lhs))
        else:
            return self.sym_assign(ctx, lhs, rhs, op, ts)
        first = False
        if key[0] == 'f':
            # From here on the plain path means the field's *current* value.  Everything stored so far that mentions
            # the plain path meant the value on entry: rename it to the entry symbol (path + ENTRY), so that a
            # local holding the entry value is not rewritten by the substitution in value().
            _, fields0 = self.env_of(ts)
            first = key[1] not in fields0

        def val(e):
            v = self.value(e, ts)
            if v is not None and first:
                v = _ren(v, key[1], key[1] + ENTRY)      # in the right-hand side the plain path is still the entry value
            return v
        new = None
        if op == '=' and rhs is not None:
            new = val(rhs)
        elif op in ('+=', '-=') and rhs is not None:
            if key[0] == 'v':
                env, _ = self.env_of(ts)
                cur = env.get(l.decl)
                if cur is None:
                    cur = Lin({l.op: 1})
            else:
                _, fields = self.env_of(ts)
                cur = fields.get(key[1])
                if cur is None:
                    cur = Lin({key[1] + ENTRY: 1})     # value on entry
            d = val(rhs)
            if cur is not None and d is not None:
                new = cur + d if op == '+=' else cur - d
        elif op in ('++', '--'):
            env, _ = self.env_of(ts)
            cur = env.get(l.decl) if key[0] == 'v' else None
            if cur is None and key[0] == 'v':
                cur = Lin({l.op: 1})
            if cur is not None:
                new = cur + Lin(None, 1 if op == '++' else -1)
        if first:
            ts = rename_term(ts, key[1], key[1] + ENTRY)
        if new is None and key[0] == 'f':
            # a tracked field with a value the analysis cannot express: fresh symbol, never the entry value
            new = Lin({'%s#%d' % (key[1], getattr(ctx.node, 'line', 0)): 1})
        ts = self.set_key(ts, key, new)
        return self.sym_assign(ctx, lhs, rhs, op, ts)

    def sym_assign(self, ctx, lhs, rhs, op, ts):
        return ts

    def on_node(self, ctx, node, ts):
        # loop head: variables assigned in a loop restart every iteration from one fresh symbol per
        # loop, so that values stay linear and the exploration converges
        if ctx.fn is self.fn and node.loop is not None:
            names = {}
            for d in self.per_loop.get(id(node.loop), ()):
                v = self.fn.locals.get(d)
                if v is None:
                    for p_ in self.fn.params:
                        if p_.decl == d:
                            v = p_
                if v is not None:
                    names[d] = v.op
            for d, nm in names.items():
                ts = self.set_key(ts, ('v', d), Lin({'%s@L%d' % (nm, node.line): 1}))
            lf = self.per_loop.get(('fields', id(node.loop)), ())
            if lf:
                for it in list(ts):
                    if isinstance(it, tuple) and len(it) == 2 and isinstance(it[0], tuple) and it[0][0] == 'f' and \
                            it[0][1].replace('.', '->').split('->')[-1] in lf:
                        ts = self.set_key(ts, it[0], Lin({'%s@L%d' % (it[0][1], node.line): 1}))
        return self.sym_node(ctx, node, ts)

    def sym_node(self, ctx, node, ts):
        return ts

    def on_call(self, ctx, call, ts):
        if ctx.fn is self.fn:
            ts = self.sym_call(ctx, call, ts)
            if ts is None:
                return None
            # locals whose address is passed are havocked after the call
            for a in call.a[1:]:
                sa = strip(a)
                if sa is not None and sa.k == 'un' and sa.op == '&':
                    v = strip(sa.a[0])
                    if v.k == 'var' and v.decl in self.locals:
                        # fresh symbol: the value after the call is unrelated to the value before
                        ts = self.set_key(ts, ('v', v.decl), Lin({'%s#%d' % (v.op, call.line): 1}))
        return ts

    def sym_call(self, ctx, call, ts):
        return ts


# --------------------------------------------------------------- guards

_ROOTS_CACHE = {}


def path_roots(p):
    """Prefixes of an access path that, when assigned, invalidate a fact about p."""
    r = _ROOTS_CACHE.get(p)
    if r is not None:
        return r
    import re
    out = set([p])
    toks = re.split(r'(->|\.)', p)
    acc = ''
    for t in toks:
        acc += t
        if t not in ('->', '.'):
            out.add(acc.lstrip('*&'))
            out.add(acc)
    r = frozenset(out)
    _ROOTS_CACHE[p] = r
    return r


class GuardRule(FactRule):
    """Comparison facts established by branch edges, killed by assignments to
    the paths they mention; obligations at calls and at stores to named fields.

    Raw facts ('c', op, left, right) are recorded for every edge whose atom
    mentions a name of the rule's vocabulary; operands are access-path strings
    (constants are '#<value>', calls are 'name(arg,arg,...)').  Named guards are
    evaluated lazily over the raw facts, so a guard established inside a small
    static helper of the same unit is seen too: such helpers are inlined with
    their formals bound to the actual argument paths, their locals prefixed
    with '<helper>::', and the returned local renamed to the variable the call
    result is assigned to.

    patterns: list of (name, fn(op, lp, rp) -> bool)   (both operand orders are tried)
    vocab:    names (fields, variables, callees) that make an edge worth recording
    call_req: {callee name: [guard names]}
    assign_req: list of (field name, value predicate(rhs, ctx) -> bool, [guard names])
    """
    name = 'R2.guard'
    interprocedural = True
    max_inline_depth = 2

    def __init__(self, prog, fn, patterns, call_req=None, assign_req=None, vocab=(), inline=True):
        FactRule.__init__(self, prog, fn)
        self.patterns = patterns
        self.call_req = call_req or {}
        self.assign_req = assign_req or []
        self.vocab = set(vocab)
        self.inline = inline
        self.checked = 0
        self._subst = {}

    # ---- naming
    def binding(self, ts):
        for it in ts:
            if isinstance(it, tuple) and it and it[0] == 'bind':
                return it
        return None

    def rename(self, path, ctx, ts):
        """Translate a path of the function being executed into the root
        function's vocabulary."""
        if ctx.fn is self.fn:
            return path
        b = self.binding(ts)
        import re
        m = re.match(r'^([*&]*)([A-Za-z_][A-Za-z0-9_]*)(.*)$', path)
        if not m or b is None:
            return path
        pre, root, rest = m.groups()
        bind = dict(b[2])
        if root in bind:
            tgt = bind[root]
            if rest.startswith('->') and tgt.startswith('&'):
                return pre + tgt[1:] + '.' + rest[2:]
            return pre + tgt + rest
        locs = set(v.op for v in ctx.fn.locals.values()) | set(p.op for p in ctx.fn.params)
        if root in locs:
            return pre + ctx.fn.name + '::' + root + rest
        return path

    def operand(self, e, ctx, ts):
        se = strip(e)
        cv = const_value(se) if se is not None else None
        if cv is not None:
            return '#%d' % cv
        if se is not None and se.k == 'null':
            return '#0'
        sub = self.subst if ctx.fn is self.fn else self._subst.setdefault(ctx.fn.qname, unique_defs(ctx.fn))
        if se is not None and se.k == 'call':
            return '%s(%s)' % (call_name(se), ','.join(self.operand(a, ctx, ts) for a in se.a[1:]))
        return self.rename(pstr(e, sub), ctx, ts)

    def P(self, e, ctx=None, ts=frozenset()):
        if ctx is None or ctx.fn is self.fn:
            return pstr(e, self.subst)
        return self.operand(e, ctx, ts)

    # ---- facts
    def raw(self, ts):
        return [it for it in ts if isinstance(it, tuple) and it and it[0] == 'c']

    def have(self, ts):
        out = set(it[1] for it in ts if isinstance(it, tuple) and it and it[0] == 'g')
        raws = self.raw(ts)
        for name, fn in self.patterns:
            for _, op, lp, rp in raws:
                try:
                    if fn(op, lp, rp) or fn(CMP_FLIP[op], rp, lp):
                        out.add(name)
                        break
                except (AttributeError, IndexError, TypeError):
                    pass
        return out

    def add_fact(self, ts, name, paths):
        return ts | frozenset([('g', name, frozenset(paths))])

    def interesting(self, atom, strict=False):
        if not self.vocab:
            return not strict
        for n in walk(atom):
            if n.k == 'mem' and n.op in self.vocab:
                return True
            if n.k == 'var' and n.op in self.vocab:
                return True
        if strict:
            return False
        a = strip_transparent(atom)
        return a.k in ('var', 'call')

    def on_edge(self, ctx, node, label, refined, ts):
        if ctx.fn is not self.fn and not self.binding(ts):
            return ts
        if self.interesting(node.e):
            op, l, r = atom_cmp(node.e, label)
            ts = ts | frozenset([('c', op, self.operand(l, ctx, ts), self.operand(r, ctx, ts))])
            # (v = f(...)) != 0 style atoms: also record for the assigned variable
            sl = strip_transparent(l)
            if sl.k == 'bin' and sl.op == '=':
                ts = ts | frozenset([('c', op, self.operand(sl.a[0], ctx, ts), self.operand(r, ctx, ts))])
        if ctx.fn is self.fn:
            return self.guard_edge(ctx, node, label, refined, ts)
        return ts

    def guard_edge(self, ctx, node, label, refined, ts):
        return ts

    def kill(self, ts, path):
        if not any(isinstance(it, tuple) and it and it[0] in ('g', 'c') for it in ts):
            return ts
        out = []
        for it in ts:
            if isinstance(it, tuple) and it and it[0] == 'g':
                if any(path in path_roots(p) for p in it[2]):
                    continue
            elif isinstance(it, tuple) and it and it[0] == 'c':
                dead = False
                for p in it[2:4]:
                    for q in operand_paths(p):
                        if path in path_roots(q):
                            dead = True
                if dead:
                    continue
            out.append(it)
        return frozenset(out)

    def on_assign(self, ctx, lhs, rhs, op, value, ts):
        if ctx.fn is not self.fn:
            if self.binding(ts):
                ts = self.kill(ts, self.operand(lhs, ctx, ts))
            return ts
        f = last_field(lhs)
        for field, pred, req in self.assign_req:
            if f == field and pred(rhs, ctx):
                self.checked += 1
                missing = [x for x in req if x not in self.have(ts)]
                if missing:
                    self.violate(ctx, 'unguarded-store', '%s %s %s without the guard(s): %s' % (
                        pstr(lhs, self.subst), op, show(rhs) if rhs is not None else '', ', '.join(missing)),
                        inst='%s:%s' % (field, ','.join(missing)))
        # the assigned object is named as written: a local with a single definition must not be replaced by that
        # definition here (declaring  t = c->src  does not write c->src)
        lp = pstr(lhs, None) if strip(lhs).k == 'var' else pstr(lhs, self.subst)
        ts = self.kill(ts, lp)
        # result of an inlined helper: facts about its returned local now speak about lhs
        if rhs is not None and op == '=' and strip(rhs).k == 'call':
            ts = frozenset(self.rename_fact(it, '$ret', lp) for it in ts)
        elif rhs is not None and op == '=' and self.interesting(lhs, strict=True) and \
                strip(rhs).k in ('var', 'mem', 'int'):
            # a plain copy establishes equality
            rp = self.operand(rhs, ctx, ts)
            if rp != lp:
                ts = ts | frozenset([('c', '==', lp, rp)])
        return self.guard_assign(ctx, lhs, rhs, op, ts)

    def rename_fact(self, it, old, new):
        if isinstance(it, tuple) and it and it[0] == 'c':
            return ('c', it[1], rename_root(it[2], old, new), rename_root(it[3], old, new))
        return it

    def guard_assign(self, ctx, lhs, rhs, op, ts):
        return ts

    def on_call(self, ctx, call, ts):
        if ctx.fn is not self.fn:
            return ts
        n = call_name(call)
        # facts about a previous, unassigned helper result do not survive the next call
        ts = frozenset(it for it in ts if not (isinstance(it, tuple) and it and it[0] == 'c' and
                                               ('$ret' in it[2] or '$ret' in it[3])))
        if n in self.call_req:
            self.checked += 1
            missing = [x for x in self.call_req[n] if x not in self.have(ts)]
            if missing:
                self.violate(ctx, 'unguarded-call', '%s() reachable without the guard(s): %s' % (n, ', '.join(missing)),
                             inst='%s:%s' % (n, ','.join(missing)))
        for a in call.a[1:]:
            sa = strip(a)
            if sa is not None and sa.k == 'un' and sa.op == '&':
                ts = self.kill(ts, pstr(sa.a[0], self.subst))
        return self.guard_call(ctx, call, ts)

    def guard_call(self, ctx, call, ts):
        return ts

    # ---- selective inlining of small static helpers
    def should_inline(self, ctx, call, target):
        if not self.inline or not target.static or target.unit != self.fn.unit:
            return False
        if target.name in self.call_req or target is self.fn:
            return False
        depth = 0
        b = None
        return len(ctx.engine.stack) <= self.max_inline_depth

    def summarise(self, ctx, call, target, ts):
        if self.should_inline(ctx, call, target) and (ctx.fn is self.fn or self.binding(ts)):
            return None
        return set([(ts, ctx.engine.plain_masks(target))])

    def enter_callee(self, ctx, call, target, ts):
        bind = {}
        for p, a in zip(target.params, call.a[1:]):
            bind[p.op] = self.operand(a, ctx, ts)
        old = self.binding(ts)
        ts2 = frozenset(it for it in ts if not (isinstance(it, tuple) and it and it[0] == 'bind'))
        return ts2 | frozenset([('bind', target.qname, tuple(sorted(bind.items())), old)])

    def on_return(self, ctx, node, mask, ts):
        if ctx.fn is not self.fn and self.binding(ts) and node.e is not None:
            rv = strip(node.e)
            if rv is not None and rv.k == 'var':
                root = ctx.fn.name + '::' + rv.op
                ts = frozenset(self.rename_fact(it, root, '$ret') for it in ts)
            if rv is not None and (rv.k == 'null' or const_value(rv) == 0):
                ts = ts | frozenset([('c', '==', '$ret', '#0')])
            return ts
        return self.guard_return(ctx, node, mask, ts)

    def guard_return(self, ctx, node, mask, ts):
        return ts

    def leave_callee(self, ctx, call, target, ts_in, ts_out, mask):
        b = self.binding(ts_out)
        prefix = target.name + '::'
        out = []
        for it in ts_out:
            if isinstance(it, tuple) and it and it[0] == 'bind':
                continue
            if isinstance(it, tuple) and it and it[0] == 'c' and (prefix in it[2] or prefix in it[3]):
                continue
            out.append(it)
        if b is not None and b[3] is not None:
            out.append(b[3])
        return frozenset(out)


_OPATHS_CACHE = {}


def operand_paths(s):
    """Access paths mentioned in an operand string (a path, '#const', or 'f(a,b)')."""
    r = _OPATHS_CACHE.get(s)
    if r is None:
        r = _operand_paths(s)
        _OPATHS_CACHE[s] = r
    return r


def _operand_paths(s):
    if s.startswith('#'):
        return []
    if '(' in s and s.endswith(')'):
        inner = s[s.index('(') + 1:-1]
        out = []
        depth = 0
        cur = ''
        for ch in inner:
            if ch == '(':
                depth += 1
            elif ch == ')':
                depth -= 1
            if ch == ',' and depth == 0:
                out.extend(operand_paths(cur))
                cur = ''
            else:
                cur += ch
        if cur:
            out.extend(operand_paths(cur))
        return out
    return [s]


def rename_root(s, old, new):
    import re
    return re.sub(r'(?<![A-Za-z0-9_:$])' + re.escape(old) + r'(?![A-Za-z0-9_])', new, s)


def macro_invocations(path, name):
    """(line, [argument strings]) of every invocation of macro `name` in the
    source file: the macro call itself is not part of the AST, only its
    expansion; arguments are split on top-level commas."""
    try:
        text = open(path).read()
    except OSError:
        return []
    import re
    out = []
    for m in re.finditer(r'\b' + re.escape(name) + r'\s*\(', text):
        i = m.end()
        depth = 1
        args = []
        cur = ''
        while i < len(text) and depth > 0:
            ch = text[i]
            if ch == '(':
                depth += 1
                cur += ch
            elif ch == ')':
                depth -= 1
                if depth == 0:
                    args.append(cur.strip())
                else:
                    cur += ch
            elif ch == ',' and depth == 1:
                args.append(cur.strip())
                cur = ''
            else:
                cur += ch
            i += 1
        line = text.count('\n', 0, m.start()) + 1
        out.append((line, [re.sub(r'\s+', '', a) for a in args]))
    return out


# --------------------------------------------------------------- representable sums
NOWRAP_BIG = 2 ** 63 - 1


def nowrap_sums(op, lv, rv):
    """Sums of unsigned quantities that the comparison `lv op rv` (holding on the edge) proves representable:
    X <= MAX - Y with MAX a constant of at least 2^63 gives X + Y; the wrap idiom A <= A + B gives A + B.
    Returns a list of Lin (constant parts dropped)."""
    out = []
    if lv is None or rv is None:
        return out
    if op in ('>', '>='):
        lv, rv, op = rv, lv, {'>': '<', '>=': '<='}[op]
    if op in ('<', '<='):
        if rv.c >= NOWRAP_BIG and all(c < 0 for c in rv.t.values()) and all(c > 0 for c in lv.t.values()) and lv.c >= 0:
            out.append(Lin((lv - Lin(rv.t, 0)).t, 0))
        d = rv - lv
        if lv.t and d.c == 0 and d.t and all(c > 0 for c in d.t.values()) and all(c > 0 for c in lv.t.values()):
            out.append(Lin(rv.t, 0))
    return out


def covered_by(v, facts):
    """is the sum v (a Lin with non-negative coefficients) dominated term by term by one of the proven sums?"""
    return any(all(f.t.get(k, 0) >= c for k, c in v.t.items()) for f in facts)

"""Rules shared by C05 (range reassembly), C08 (local chunk reuse), C09, C11:
validity-flag discipline (R3), digest comparison primitive (R4), guards of the
copy / match / arming sites (R2), confinement of writes to the target (R7),
failure arms.
"""
from ..flow import M1, NEG, Z, P1, POS, POSITIVE, NONNEG, NEGATIVE, TOP, mask_str
from ..ir import strip, strip_transparent, show, callee_name, callee_field, const_value, walk, calls_in, is_unsigned_type
from ..program import rel, all_exprs, unique_defs, is_assign_op
from .common import (FactRule, SymRule, GuardRule, GateRule, run_rule, call_name, calls_of, pstr, last_field, Lin,
                     lin, atom_cmp, origin_names, macro_invocations, node_containing, assigned_fields)
from ..frontend import AnalysisBroken, repo_path

CMP_FUNCS = ('memcmp', 'strncmp', 'strcmp', 'bcmp', 'strncasecmp', 'strcasecmp')


# ------------------------------------------------------------------ digest comparisons

def digest_compares(ck, prog, config, clause, units=None):
    """Every comparison call with a digest operand is a memcmp over a digest_size."""
    n = 0
    for fn in sorted(prog.lib_funcs(), key=lambda f: f.qname):
        if units and not any(fn.unit.endswith(u) for u in units):
            continue
        subst = unique_defs(fn)
        digest_locals = set()
        from ..ir import walk_stmts
        for s in walk_stmts(fn.body):
            if s.k == 'decl' and s.e is not None and any(
                    x.k == 'call' and callee_name(x) == 'hash_finalize' for x in walk(s.e)):
                digest_locals.add(s.var.op)
        for c in calls_of(fn, CMP_FUNCS):
            args = [pstr(a, subst) for a in c.a[1:]]
            if not any('digest' in a.lower() or a in digest_locals for a in args[:2]):
                continue
            n += 1
            nm = callee_name(c)
            ok = nm == 'memcmp' and len(args) == 3 and args[2].endswith('digest_size')
            ck.ob(clause, 'R4.compare', fn.name, 'digest-compare@%s' % '/'.join(sorted(a.split('->')[-1] for a in args[:2])),
                  ok, '%s(%s)%s' % (nm, ', '.join(args), '' if ok else
                                     ': a digest must be compared byte-wise (memcmp) over its full digest_size'),
                  c.file, c.line, config=config)
    return n


# ------------------------------------------------------------------ R3 validity flag

ALLOW_VALID = {
    # function -> (required facts, reason)
    'finish_chunk': ('constructor: the flag is the `valid`/finished parameter; read-mode callers (range index) pass '
                     'false, the writer passes true for chunks it produced itself'),
}


class ValidRule(GuardRule):
    name = 'R3.validflag'

    def guard_edge(self, ctx, node, label, refined, ts):
        for expr, origins, before, after in refined:
            names = origin_names(origins)
            if 'validate_chunk' in names and after & ~POSITIVE == 0:
                ts = self.add_fact(ts, 'verdict-ok', ())
            helpers = self.prog.__dict__.get('_orfold_cache')
            if helpers is None:
                helpers = {}
                for g_ in self.prog.lib_funcs():
                    k_ = orfold_compare(self.prog, g_)
                    if k_:
                        helpers[g_.name] = k_
                self.prog.__dict__['_orfold_cache'] = helpers
            eq_names = set(n_ for n_ in names if (n_ in CMP_FUNCS and n_ not in helpers and after == Z) or
                           (helpers.get(n_) == 'zero-equal' and after == Z) or
                           (helpers.get(n_) == 'true-equal' and after & ~(P1 | POS) == 0 and after))
            if eq_names:
                # the comparison call itself, or a temporary holding its result (found through the origin tag)
                uids = [o.split('@', 1)[1] for o in origins if '@' in o and o.split('@', 1)[0] in eq_names]
                for ex_ in all_exprs(ctx.fn):
                    for c in calls_in(ex_):
                        if str(c.uid) in uids:
                            args = [self.P(a) for a in c.a[1:]]
                            if any('digest' in a for a in args):
                                ts = self.add_fact(ts, 'digest-equal', ())
        return ts


def valid_inventory(ck, prog, config, clause):
    """Every store to zckChunk.valid: a value that can be 1 needs a digest
    comparison success (or verdict) on every path, or a named allow-list entry."""
    sites = 0
    for fn in sorted(prog.lib_funcs(), key=lambda f: f.qname):
        stores = [(l, r, op, n) for (l, r, op, n) in assigned_fields(fn)
                  if strip(l).op == 'valid' and 'zckChunk' in (strip(l).a[0].t or '')]
        if not stores:
            continue
        for l, r, op, n in stores:
            sites += 1
        if fn.name in ALLOW_VALID:
            # constructor: check the read-mode callers pass a constant false
            bad = []
            for caller, call in prog.callers().get(fn.qname, []):
                pass
            inc = prog.need_func('index_new_chunk')
            for caller, call in prog.callers().get(inc.qname, []):
                v = const_value(call.a[-1])
                if v != 0:
                    bad.append('%s passes %s' % (caller.name, show(call.a[-1])))
            ck.ob(clause, 'R3.validflag', fn.name, 'valid=param', not bad,
                  'allow-listed: ' + ALLOW_VALID[fn.name] if not bad else
                  'index_new_chunk called with a non-false `finished` argument: ' + '; '.join(bad),
                  fn.file, fn.line, config=config)
            continue

        def can_be_one(rhs, ctx):
            if rhs is None:
                return True
            v = const_value(rhs)
            if v is not None:
                return v == 1
            # a verdict variable: fine when it carries validate_chunk's result
            if 'validate_chunk' in origin_names(ctx.origins(rhs)):
                return False
            return True
        patterns = [
            # nothing is stored for the entry (an empty dictionary): there is nothing to hash - and nothing to skip
            ('stored0', lambda op, lp, rp: op == '==' and lp.endswith('->comp_length') and rp == '#0'),
            ('lookup-hit', lambda op, lp, rp: op == '!=' and rp == '#0' and lp == 'f'),
            ('len-equal', lambda op, lp, rp: op == '==' and lp.endswith('->length') and
             rp.endswith('->length') and lp != rp and set([lp.split('->')[0], rp.split('->')[0]]) == set(['f', 'tgt_idx'])),
        ]
        req_by_fn = {
            'validate_checksums': ['stored0'],               # the empty dictionary entry has nothing to hash
            'zck_find_matching_chunks': ['lookup-hit', 'len-equal'],   # match marking (C08-c)
        }
        req = req_by_fn.get(fn.name)
        rule = ValidRule(prog, fn, patterns, assign_req=[], vocab=('length', 'comp_length', 'valid', 'f'))
        rule.viol_sites = []

        def on_assign(ctx, lhs, rhs, op, value, ts, rule=rule, fn=fn, req=req):
            if ctx.fn is fn and strip(lhs).k == 'mem' and strip(lhs).op == 'valid' and \
                    'zckChunk' in (strip(lhs).a[0].t or ''):
                rule.checked += 1
                if can_be_one(rhs, ctx):
                    have = rule.have(ts)
                    ok = 'digest-equal' in have or 'verdict-ok' in have
                    if not ok and req is not None:
                        ok = all(x in have for x in req)
                    if not ok:
                        rule.violate(ctx, 'valid-unverified',
                                     '%s = %s can mark a chunk valid without a successful digest comparison on this '
                                     'path%s' % (rule.P(lhs), show(rhs) if rhs is not None else '?',
                                                 (' (allowed here only under: %s)' % ', '.join(req)) if req else ''),
                                     inst='valid=1')
            return GuardRule.on_assign(rule, ctx, lhs, rhs, op, value, ts)
        rule.on_assign = on_assign
        run_rule(prog, fn, rule)
        ck.ob(clause, 'R3.validflag', fn.name, 'valid-stores', not rule.violations,
              '%d store state(s) to zckChunk.valid: a value that can be 1 only under a digest-comparison success%s' % (
                  rule.checked, (' or the allow-listed guard ' + '+'.join(req)) if req else '')
              if not rule.violations else rule.violations[0].msg, fn.file,
              rule.violations[0].node.line if rule.violations else fn.line,
              path=rule.violations[0].path if rule.violations else None, config=config)
    return sites


# ------------------------------------------------------------------ C08 guards

def hash_find_args(prog, fn, out_var, depth=1):
    """Arguments of the HASH_FIND invocations inside fn (or, when fn has none, inside the static
    helpers of the same unit that fn calls) that deliver into out_var.  Helper formals are renamed
    to the actual argument paths."""
    res = []
    for line, args in macro_invocations(repo_path(fn.unit), 'HASH_FIND'):
        if fn.line <= line <= fn.endline and len(args) == 5 and (out_var is None or args[4] == out_var):
            res.append((line, args))
    if not res and depth > 0:
        import re
        for c, fs, exs in prog.callgraph()[fn.qname]:
            for t in fs:
                if t.static and t.unit == fn.unit:
                    sub = hash_find_args(prog, t, None, depth - 1)
                    bind = dict((p.op, pstr(a, unique_defs(fn))) for p, a in zip(t.params, c.a[1:]))
                    for line, a in sub:
                        a2 = []
                        for x in a:
                            m = re.match(r'^([A-Za-z_][A-Za-z0-9_]*)(.*)$', x)
                            if m and m.group(1) in bind:
                                x = bind[m.group(1)] + m.group(2)
                            a2.append(x)
                        res.append((line, a2))
    return res


def copy_guard(ck, prog, config, clause):
    fn = prog.need_func('zck_copy_chunks')
    patterns = [
        ('hit', lambda op, lp, rp: op == '!=' and rp == '#0' and lp == 'f'),
        ('length', lambda op, lp, rp: op == '==' and set([lp, rp]) == set(['f->length', 'tgt_idx->length'])),
        ('comp_length', lambda op, lp, rp: op == '==' and set([lp, rp]) == set(['f->comp_length', 'tgt_idx->comp_length'])),
        ('not-valid', lambda op, lp, rp: lp == 'tgt_idx->valid' and (
            (op == '!=' and rp == '#1') or (op == '==' and rp in ('#0', '#-1')) or
            (op == '<' and rp == '#1') or (op == '<=' and rp == '#0'))),
    ]
    rule = GuardRule(prog, fn, patterns, call_req={'write_and_verify_chunk': ['hit', 'length', 'comp_length', 'not-valid']},
                     vocab=('f', 'length', 'comp_length', 'valid'))
    run_rule(prog, fn, rule)
    ck.require(rule.checked >= 1, 'zck_copy_chunks no longer calls write_and_verify_chunk')
    ck.ob(clause, 'R2.guard', fn.name, 'write_and_verify_chunk', not rule.violations,
          'copy only on a digest lookup hit with equal stored and uncompressed sizes, skipping valid chunks'
          if not rule.violations else rule.violations[0].msg, fn.file,
          rule.violations[0].node.line if rule.violations else fn.line,
          path=rule.violations[0].path if rule.violations else None, config=config)
    hf = hash_find_args(prog, fn, 'f')
    ck.require(len(hf) >= 1, 'zck_copy_chunks: HASH_FIND delivering into f not found')
    for line, a in hf:
        ok = a[0] == 'hh' and a[1].endswith('ht') and not a[1].endswith('htuncomp') and a[2] == 'tgt_idx->digest' and \
            a[3] == 'tgt_idx->digest_size'
        if len(hf) > 1 and a[0] == 'hhuncomp':
            continue   # shared helper serving both tables: the compressed-table invocation is the one used here
        ck.ob(clause, 'R8.lookup', fn.name, 'HASH_FIND', ok,
              'lookup HASH_FIND(%s): keyed by the target chunk digest over digest_size in the compressed-digest table'
              % ', '.join(a), fn.file, line, config=config)
    # arguments: (src, tgt, f, tgt_idx)
    for c in calls_of(fn, ('write_and_verify_chunk',)):
        args = [pstr(x) for x in c.a[1:]]
        ok = args == ['src', 'tgt', 'f', 'tgt_idx']
        ck.ob(clause, 'R8.args', fn.name, 'write_and_verify_chunk-args', ok,
              'write_and_verify_chunk(%s)' % ', '.join(args), c.file, c.line, config=config)


def match_guard(ck, prog, config, clause):
    fn = prog.need_func('zck_find_matching_chunks')
    hf = hash_find_args(prog, fn, 'f')
    ck.require(len(hf) >= 1, 'zck_find_matching_chunks: HASH_FIND not found')
    for line, a in hf:
        comp = a[0] == 'hh' and a[1].endswith('->ht') and a[2] == 'tgt_idx->digest'
        unc = a[0] == 'hhuncomp' and a[1].endswith('->htuncomp') and a[2] == 'tgt_idx->digest_uncompressed'
        ok = (comp or unc) and a[3] == 'tgt_idx->digest_size'
        ck.ob(clause, 'R8.lookup', fn.name, 'HASH_FIND:%s' % a[0], ok,
              'lookup HASH_FIND(%s): table, key and key length belong together' % ', '.join(a), fn.file, line,
              config=config)
    # which lookup is used is decided by comp.type equality / both uncompressed-source flags
    g = prog.cfg(fn)
    subst = unique_defs(fn)
    for line, a in hf:
        pass


def source_untouched(ck, prog, config, clause):
    """No write primitive in dl.c takes a descriptor/context derived from `src`."""
    n = 0
    for fn in prog.lib_funcs():
        if not fn.unit.endswith('dl/dl.c'):
            continue
        subst = unique_defs(fn)
        for c in calls_of(fn, ('write_data', 'write', 'pwrite', 'ftruncate', 'zero_chunk')):
            n += 1
            args = [pstr(a, subst) for a in c.a[1:]]
            nm = callee_name(c)
            tainted = [a for a in args[:2] if a == 'src' or a.startswith('src->') or a.startswith('src_')]
            if nm == 'zero_chunk':
                tainted = [a for a in args if a == 'src' or a.startswith('src_idx') or a.startswith('src->')]
            ck.ob(clause, 'R7.who-may-write', fn.name, '%s@%d' % (nm, n), not tainted,
                  '%s(%s): %s' % (nm, ', '.join(args), 'does not write the source' if not tainted else
                                  'writes through the SOURCE context/descriptor'), c.file, c.line, config=config)
    return n


def mismatch_arm(ck, prog, config, clause, fn_name, verdict, fail_after, clause_name):
    """On the failing edge of the digest verdict: zero_chunk is called, valid is set to -1 and never to 1."""
    fn = prog.need_func(fn_name)

    class Arm(FactRule):
        name = 'R2.failure-arm'

        def __init__(s, prog, fn):
            FactRule.__init__(s, prog, fn)
            s.fail_exits = 0

        def on_edge(s, ctx, node, label, refined, ts):
            for expr, origins, before, after in refined:
                vs = (verdict,) if isinstance(verdict, str) else verdict
                if set(vs) & origin_names(origins):
                    if after & ~fail_after == 0:
                        ts = ts | frozenset(['failed'])
            return ts

        def after_call(s, ctx, call, ts, mask):
            if callee_name(call) == 'zero_chunk':
                ts = ts | frozenset(['zeroed'])
            return ts

        def on_assign(s, ctx, lhs, rhs, op, value, ts):
            if strip(lhs).k == 'mem' and strip(lhs).op == 'valid':
                v = const_value(rhs) if rhs is not None else None
                if v == -1:
                    ts = ts | frozenset(['marked'])
                elif 'failed' in ts and v != 0:
                    s.violate(ctx, 'valid-on-failure', 'chunk marked %s on the digest-mismatch path' % show(rhs),
                              inst='valid')
            return ts

        def on_return(s, ctx, node, mask, ts):
            if ctx.fn is s.fn and 'failed' in ts:
                s.fail_exits += 1
                if 'zeroed' not in ts:
                    s.violate(ctx, 'no-zero-fill', 'exit on the digest-mismatch path without zero_chunk()', inst='zero',
                              node=node)
                elif 'marked' not in ts and mask & (P1 | POS):
                    s.violate(ctx, 'not-marked', 'success exit on the digest-mismatch path without valid = -1',
                              inst='mark', node=node)
            return ts
    r = Arm(prog, fn)
    run_rule(prog, fn, r)
    ck.require(r.fail_exits >= 1, '%s: no exit on the failing edge of %s found' % (fn_name, verdict))
    ck.ob(clause, 'R2.failure-arm', fn.name, clause_name, not r.violations,
          'every exit on the mismatch edge of %s passed zero_chunk(); the chunk is marked failed (-1), never valid'
          % (verdict if isinstance(verdict, str) else 'the digest comparison') if not r.violations else r.violations[0].msg, fn.file,
          r.violations[0].node.line if r.violations else fn.line,
          path=r.violations[0].path if r.violations else None, config=config)
    return r


# ------------------------------------------------------------------ C05 arming / confinement

def arming_guard(ck, prog, config, clause):
    # the function that arms the write window is found by what it does: it stores a chunk into tgt_check
    entry = prog.need_func('dl_write_range')
    arm = []
    for f in sorted(prog.lib_funcs(), key=lambda x: x.qname):
        if f.unit != entry.unit:
            continue
        for (l, r_, op, node) in assigned_fields(f):
            if strip(l).op == 'tgt_check' and op == '=' and r_ is not None and strip(r_).k != 'null' and \
                    const_value(r_) is None:
                if f not in arm:
                    arm.append(f)
    ck.require(len(arm) == 1, 'the function that arms the write window (stores a chunk into tgt_check) was not '
               'identified uniquely: %s' % [f.name for f in arm])
    fn = arm[0]
    moved = fn is not entry
    # locals that only ever hold <entry>->src (or NULL) are spelled through the range entry, so that the guards
    # read the same whether the code names the target chunk or not, and whatever the locals are called
    import re
    alias = {}
    from ..ir import walk_stmts as _ws
    defs = {}
    for st_ in _ws(fn.body):
        if st_.k == 'decl' and st_.e is not None:
            defs.setdefault(st_.var.op, []).append(st_.e)
    for (l_, r__, op_, node_) in [(None, None, None, None)]:
        pass
    for ex in all_exprs(fn):
        for nd in walk(ex):
            if nd.k == 'bin' and nd.op == '=' and strip(nd.a[0]).k == 'var':
                defs.setdefault(strip(nd.a[0]).op, []).append(nd.a[1])
    for name, es in defs.items():
        srcs = set()
        okk = True
        for e_ in es:
            se = strip(e_)
            if se is None or se.k == 'null' or const_value(se) == 0:
                continue
            if se.k == 'mem' and se.op == 'src' and strip(se.a[0]).k == 'var':
                srcs.add(strip(se.a[0]).op)
            else:
                okk = False
        if okk and len(srcs) == 1:
            alias[name] = list(srcs)[0] + '->src'

    def canon(pth):
        m = re.match(r'^([A-Za-z_]\w*)(->.*)?$', pth)
        if m and m.group(1) in alias:
            return alias[m.group(1)] + (m.group(2) or '')
        m2 = re.match(r'^memcmp\((.*)\)$', pth)
        if m2:
            return 'memcmp(%s)' % ','.join(canon(x) for x in m2.group(1).split(','))
        return pth

    def pair(lp, rp, f):
        """lp, rp are E->f and E->src->f for the same range entry E"""
        a, b = canon(lp), canon(rp)
        for x, y in ((a, b), (b, a)):
            m = re.match(r'^(\w+)->src->%s$' % f, y)
            if m and x == '%s->%s' % (m.group(1), f):
                return True
        return False

    def digest_cmp(lp):
        m = re.match(r'^memcmp\((.*)\)$', lp)
        if not m:
            return False
        args = [canon(x) for x in m.group(1).split(',')]
        if len(args) != 3:
            return False
        return pair(args[0], args[1], 'digest') and re.match(r'^\w+(->src)?->digest_size$', args[2]) is not None

    patterns = [
        ('not-valid', lambda op, lp, rp: re.match(r'^\w+->src->valid$', canon(lp)) is not None and (
            (op == '!=' and rp == '#1') or (op == '==' and rp in ('#0', '#-1')))),
        ('comp_length', lambda op, lp, rp: op == '==' and pair(lp, rp, 'comp_length')),
        ('at-start', lambda op, lp, rp: op == '==' and (
            (lp == 'dl->dl_chunk_data' and re.match(r'^\w+->start$', rp) is not None) or
            (rp == 'dl->dl_chunk_data' and re.match(r'^\w+->start$', lp) is not None))),
        ('digest', lambda op, lp, rp: op == '==' and rp == '#0' and digest_cmp(lp)),
        ('tgt-clear', lambda op, lp, rp: (lp == 'dl->tgt_check' and op == '==' and rp == '#0') or
         (lp == 'set_chunk_valid(dl)' and op == '!=' and rp == '#0')),
    ]

    class Arming(GuardRule):
        def guard_edge(s, ctx, node, label, refined, ts):
            for expr, origins, before, after in refined:
                if 'set_chunk_valid' in origin_names(origins) and after & ~(P1 | POS) == 0:
                    ts = s.add_fact(ts, 'tgt-clear', ('dl->tgt_check',))
            return ts

        def guard_assign(s, ctx, lhs, rhs, op, ts):
            f = last_field(lhs)
            if f == 'write_in_chunk' and op == '=' and rhs is not None and const_value(rhs) != 0:
                ts = ts | frozenset(['armed'])
                v = lin(rhs, s.subst)
                okv = v is not None and v.c == 0 and len(v.t) == 1 and list(v.t.values()) == [1] and \
                    re.match(r'^\w+(->src)?->comp_length$', canon(list(v.t)[0])) is not None
                if not okv:
                    s.violate(ctx, 'arm-length', 'write_in_chunk armed with %s, not the chunk\'s stored size' % show(rhs),
                              inst='length')
            return ts

        def guard_call(s, ctx, call, ts):
            if callee_name(call) == 'seek_data' and 'armed' in ts:
                v = lin(call.a[2], s.subst)
                oks = v is not None and v.c == 0 and v.t.get('dl->zck->data_offset') == 1 and len(v.t) == 2 and any(
                    c_ == 1 and re.match(r'^\w+->src->start$', canon(k_)) is not None for k_, c_ in v.t.items())
                if oks and const_value(call.a[3]) == 0:
                    ts = ts | frozenset(['seeked'])
                else:
                    s.violate(ctx, 'seek-target', 'after arming, seek_data goes to %s, not data_offset + tgt_chk->start'
                              % show(call.a[2]), inst='seek')
            if callee_name(call) == 'hash_init' and 'armed' not in ts:
                pass
            return ts

        def guard_return(s, ctx, node, mask, ts):
            if ctx.fn is s.fn and 'armed' in ts and 'seeked' not in ts and mask & (P1 | POS):
                s.violate(ctx, 'armed-no-seek', 'write window armed but a success exit is reached without seeking to '
                          'the chunk\'s offset', inst='seek', node=node)
            return ts
    req = ['not-valid', 'comp_length', 'digest', 'at-start']
    rule = Arming(prog, fn, patterns, assign_req=[
        ('write_in_chunk', lambda rhs, ctx: rhs is not None and const_value(rhs) != 0, req),
        ('tgt_check', lambda rhs, ctx: rhs is not None and strip(rhs).k != 'null', req + ([] if moved else ['tgt-clear'])),
    ], vocab=('valid', 'comp_length', 'dl_chunk_data', 'start', 'digest', 'tgt_check', 'memcmp', 'set_chunk_valid'),
        inline=True)
    run_rule(prog, fn, rule)
    ck.require(rule.checked >= 2, '%s: arming stores (write_in_chunk, tgt_check) not found' % fn.name)
    if moved:
        # the arming was moved into a helper: "the previous chunk was verified" must hold where the helper is called
        class AtCall(Arming):
            pass
        for caller in sorted(prog.lib_funcs(), key=lambda x: x.qname):
            if caller is fn or not calls_of(caller, (fn.name,)):
                continue
            cr = AtCall(prog, caller, patterns, call_req={fn.name: ['tgt-clear']},
                        vocab=('tgt_check', 'set_chunk_valid'), inline=False)
            run_rule(prog, caller, cr)
            for v in cr.violations:
                rule.violations.append(v)
    byinst = {}
    for v in rule.violations:
        byinst.setdefault(v.inst, v)
    ck.ob(clause, 'R2.guard', fn.name, 'arming', not rule.violations,
          'write window and tgt_check are armed only for a not-yet-valid chunk at the current payload position with '
          'equal stored size and equal digest (memcmp over digest_size), with a seek to data_offset + start, and only '
          'after the previous chunk was verified' if not rule.violations else
          '; '.join(v.msg for v in byinst.values())[:600], fn.file,
          rule.violations[0].node.line if rule.violations else fn.line,
          path=rule.violations[0].path if rule.violations else None, config=config)
    return rule


def confinement(ck, prog, config, clause):
    """Writers to a descriptor in the download code: frozen table; the write
    length in dl_write is min(write_in_chunk, length)."""
    allowed = {
        ('dl_write', 'write_data'): 'payload write, bounded by the armed window',
        ('zero_chunk', 'write_data'): 'zero fill of exactly one chunk',
        ('write_and_verify_chunk', 'write_data'): 'local copy of exactly one chunk',
        ('zck_write_zck_header_cb', 'write'): 'header download (caller positions the descriptor)',
    }
    n = 0
    for fn in prog.lib_funcs():
        if '/dl/' not in fn.unit:
            continue
        for c in calls_of(fn, ('write_data', 'write', 'pwrite', 'ftruncate', 'fwrite', 'dprintf')):
            n += 1
            key = (fn.name, callee_name(c))
            ck.ob(clause, 'R7.who-may-write', fn.name, callee_name(c), key in allowed,
                  ('allowed writer: ' + allowed[key]) if key in allowed else
                  'new writer to a descriptor in the download code: %s' % show(c)[:80], c.file, c.line, config=config)
    ck.min_instances('descriptor writers in the download code', n, 4)
    # dl_write: length is min(write_in_chunk, length)
    fn = prog.need_func('dl_write')

    class Bound(SymRule):
        def __init__(s, prog, fn):
            SymRule.__init__(s, prog, fn)
            s.seen = 0

        def on_edge(s, ctx, node, label, refined, ts):
            op, l, r = atom_cmp(node.e, label)
            lp, rp = s.P(l), s.P(r)
            pair = set([lp, rp])
            if pair == set(['dl->write_in_chunk', 'length']):
                if (lp == 'dl->write_in_chunk' and op in ('<', '<=')) or (rp == 'dl->write_in_chunk' and op in ('>', '>=')):
                    ts = ts | frozenset(['win<=len'])
                if (lp == 'dl->write_in_chunk' and op in ('>', '>=')) or (rp == 'dl->write_in_chunk' and op in ('<', '<=')):
                    ts = ts | frozenset(['len<=win'])
            return ts

        def sym_call(s, ctx, call, ts):
            if callee_name(call) == 'write_data':
                s.seen += 1
                v = s.value(call.a[4], ts)
                ok = (v == Lin({'dl->write_in_chunk': 1}) and 'win<=len' in ts) or \
                     (v == Lin({'length': 1}) and 'len<=win' in ts)
                if not ok:
                    s.violate(ctx, 'write-bound', 'write_data length %r is not min(write_in_chunk, length) on this path'
                              % (v,), inst='bound')
                fd = s.P(call.a[2])
                if fd != 'dl->zck->fd':
                    s.violate(ctx, 'write-fd', 'payload written to %s, not the target descriptor' % fd, inst='fd')
            return ts

        def sym_assign(s, ctx, lhs, rhs, op, ts):
            if last_field(lhs) == 'write_in_chunk' and op == '-=':
                v = s.value(rhs, ts)
                s.dec = v
            return ts
    b = Bound(prog, fn)
    run_rule(prog, fn, b)
    ck.require(b.seen >= 1, 'dl_write no longer calls write_data')
    ck.ob(clause, 'R4.extent', fn.name, 'write-length', not b.violations,
          'payload write length = min(write_in_chunk, length) to dl->zck->fd' if not b.violations else
          b.violations[0].msg, fn.file, b.violations[0].node.line if b.violations else fn.line,
          path=b.violations[0].path if b.violations else None, config=config)


def chunk_loop(ck, prog, config, clause, fn_name, total_path, ops, seek_want=None, rule_name='R4.chunk-loop'):
    """Bounded consume loop: `rem = <total_path>`; while(rem > 0) { n = min(BUF, rem); ops(buf, n); rem -= n }.
    Checks: the initial remainder is the chunk's stored size; each op in `ops` uses the step variable as its
    length; the remainder decreases by the same step; the loop condition is rem > 0."""
    fn = prog.need_func(fn_name)
    subst = unique_defs(fn)
    from .consume import check_consume_loop
    found = check_consume_loop(ck, prog, config, clause, fn, total_path, ops, rule_name)
    if seek_want is not None:
        sk = calls_of(fn, ('seek_data',))
        got = [(pstr(c.a[1], subst), lin(c.a[2], subst)) for c in sk]
        for ctxname, want in seek_want:
            ok = any(g[0] == ctxname and g[1] == want and True for g in got)
            ck.ob(clause, 'R4.extent', fn.name, 'seek:%s' % ctxname, ok,
                  'seek_data(%s, %r, SEEK_SET) positions the chunk' % (ctxname, want) if ok else
                  'no seek_data(%s, %r): got %s' % (ctxname, want, got), fn.file, sk[0].line if sk else fn.line,
                  config=config)
    return found


# ------------------------------------------------------------------ verdict functions and the comparison primitive
def orfold_compare(prog, f):
    """Is f a byte-wise comparison helper of the OR-fold shape (constant-time compare)?
         acc = 0; for(i < n) acc |= a[i] ^ b[i];  return acc  /  return acc == 0
    -> None, or 'zero-equal' (returns 0 when equal) / 'true-equal'.  An accumulator updated with any operator other
    than |= (for example ^=, +=) is not a comparison: different digests can fold to the same value."""
    from ..ir import walk_stmts
    ptr_params = [p for p in f.params if (p.t or '').rstrip().endswith('*')]
    if len(ptr_params) < 2 or f.body is None:
        return None
    accs = {}
    for ex in all_exprs(f):
        for n in walk(ex):
            if n.k == 'bin' and n.op.endswith('=') and n.op not in ('==', '!=', '<=', '>=', '='):
                l = strip(n.a[0])
                if l.k == 'var' and l.dk == 'VarDecl':
                    ops = set(x.op for x in walk(n.a[1]) if x.k == 'bin')
                    reads = [x for x in walk(n.a[1]) if x.k == 'idx' or (x.k == 'un' and x.op == '*')]
                    if len(reads) >= 2 and (ops & set(['^', '!=', '-'])):
                        accs.setdefault(l.decl, set()).add(n.op)
    good = [d for d, ops in accs.items() if ops == set(['|='])]
    if len(good) != 1 or len(accs) != 1:
        return None
    acc = good[0]
    if not any(s_.k in ('for', 'while', 'do') for s_ in walk_stmts(f.body)):
        return None
    kinds = set()
    for s_ in walk_stmts(f.body):
        if s_.k == 'return' and s_.e is not None:
            e = strip(s_.e)
            if e.k == 'var' and e.decl == acc:
                kinds.add('zero-equal')
            elif e.k == 'un' and e.op == '!' and strip(e.a[0]).k == 'var' and strip(e.a[0]).decl == acc:
                kinds.add('true-equal')
            elif e.k == 'bin' and e.op in ('==', '!=') and const_value(e.a[1]) == 0 and \
                    strip(e.a[0]).k == 'var' and strip(e.a[0]).decl == acc:
                kinds.add('true-equal' if e.op == '==' else 'zero-equal')
            else:
                return None
    return kinds.pop() if len(kinds) == 1 else None


def verdict_gates(ck, prog, config, clause, table):
    """table: (function, exception field or None, reason).  Every positive-verdict exit of a verdict function lies on
    the equal edge of a byte-wise comparison primitive (memcmp, or a repository helper of the OR-fold shape)."""
    from ..flow import Z as _Z, P1 as _P1, POS as _POS
    from .common import GateRule
    nv = 0
    for vname, exc_field, exc_why in table:
        vf = prog.need_func(vname)
        gates = {}
        for ex in all_exprs(vf):
            for c in calls_in(ex):
                nm = callee_name(c)
                if nm in ('memcmp', 'CRYPTO_memcmp', 'timingsafe_bcmp', 'timingsafe_memcmp'):
                    gates[nm] = _Z
                elif nm:
                    cands = [g for g in prog.lib_funcs() if g.name == nm]
                    if len(cands) == 1:
                        kind = orfold_compare(prog, cands[0])
                        if kind == 'zero-equal':
                            gates[nm] = _Z
                        elif kind == 'true-equal':
                            gates[nm] = _P1 | _POS

        def exc_edge(rule, ctx2, node, label, refined, ts, exc_field=exc_field, gates=gates):
            op, l, r = atom_cmp(node.e, label)
            if exc_field and last_field(l) == exc_field and op == '!=' and const_value(r) == 0:
                ts = ts | frozenset(['gate:' + g for g in gates] + ['exception'])
            return ts
        if not gates:
            ck.ob(clause, 'R2.gate', vname, 'digest-compare', False,
                  '%s() contains no byte-wise digest comparison (memcmp or an OR-fold helper): whatever it uses instead '
                  'can report equality for digests that differ, so a positive verdict does not mean the checksums match'
                  % vname, vf.file, vf.line, config=config)
            nv += 2      # the instance exists and is reported; do not let the instance floor mask the finding
            continue
        # any one of the primitives on the path suffices: run one rule per primitive and accept exits gated by any
        viol = None
        exits = 0
        for gname, mask in gates.items():
            rule = GateRule(prog, vf, {gname: mask}, _P1 | _POS, extra_edge=exc_edge)
            run_rule(prog, vf, rule)
            exits = max(exits, rule.success_exits)
            if not rule.violations:
                viol = None
                break
            viol = rule.violations[0]
        nv += exits
        ck.ob(clause, 'R2.gate', vname, 'digest-compare', viol is None,
              '%d positive-verdict exit(s), each on the equal edge of %s%s' % (
                  exits, '/'.join(sorted(gates)), (' or under %s (%s)' % (exc_field, exc_why)) if exc_field else '')
              if viol is None else viol.msg + ': the verdict is positive without the digests having been compared',
              vf.file, viol.node.line if viol else vf.line, path=viol.path if viol else None, config=config)
    return nv


# ------------------------------------------------------------------ the computed digest reaches the comparison untouched
_WRITERS_ARG1 = ('memset', 'memcpy', 'memmove', 'strcpy', 'strncpy', 'snprintf', 'sprintf', 'strcat', 'strncat',
                 '__builtin___memset_chk', '__builtin___memcpy_chk', '__builtin___memmove_chk')
_COMPARES = ('memcmp', 'CRYPTO_memcmp', 'timingsafe_bcmp', 'timingsafe_memcmp', 'bcmp')


def digest_intact(ck, prog, config, clause, funcs, exception_field='comp_length'):
    """R2.digest-intact: in a verdict function the buffer returned by hash_finalize() is what the comparison sees.
    Between the finalisation and the comparison nothing may write into that buffer - except on the edge
    `<chunk>->comp_length == 0` (nothing is stored for the entry: the index holds the all-zero placeholder and the
    computed digest of the empty input is replaced by it).  Any other overwrite makes the verdict independent of the
    stored bytes for the inputs that take that edge."""
    from .common import FactRule
    n = 0
    for fname in funcs:
        vf = prog.need_func(fname)

        class Intact(FactRule):
            name = 'R2.digest-intact'

            def __init__(s, prog_, fn):
                FactRule.__init__(s, prog_, fn)
                s.finals = 0
                s.compares = 0

            def on_assign(s, c2, lhs, rhs, op, value, ts):
                if c2.fn is not s.fn:
                    return ts
                l = strip(lhs)
                r = strip(rhs) if rhs is not None else None
                while r is not None and r.k == 'cast' and r.a:
                    r = strip(r.a[0])
                if l is not None and l.k == 'var' and op == '=' and r is not None and r.k == 'call' and \
                        callee_name(r) == 'hash_finalize':
                    s.finals += 1
                    return frozenset(x for x in ts if not (isinstance(x, tuple) and x[0] == 'fin')) | \
                        frozenset([('fin', l.decl, l.op)])
                # a store through the digest pointer
                if l is not None and l.k in ('idx', 'un'):
                    root = l
                    while root is not None and root.k in ('idx', 'un', 'cast', 'paren') and root.a:
                        root = strip(root.a[0])
                    if root is not None and root.k == 'bin' and root.a:
                        root = strip(root.a[0])
                    for x in ts:
                        if isinstance(x, tuple) and x[0] == 'fin' and root is not None and root.k == 'var' and \
                                root.decl == x[1] and 'nothing-stored' not in ts:
                            s.violate(c2, 'overwritten', 'the computed digest %s is written before it is compared'
                                      % x[2], inst='store')
                return ts

            def on_edge(s, c2, node, label, refined, ts):
                if c2.fn is not s.fn:
                    return ts
                op, l, r = atom_cmp(node.e, label)
                if last_field(l) == exception_field and const_value(r) == 0:
                    if op == '==':
                        ts = ts | frozenset(['nothing-stored'])
                    elif op in ('!=', '>'):
                        ts = ts - frozenset(['nothing-stored'])
                return ts

            def on_call(s, c2, call, ts):
                if c2.fn is not s.fn:
                    return ts
                nm = callee_name(call)
                fins = [x for x in ts if isinstance(x, tuple) and x[0] == 'fin']
                if not fins:
                    return ts

                def is_digest(a):
                    a = strip(a)
                    while a is not None and a.k in ('cast', 'paren') and a.a:
                        a = strip(a.a[0])
                    if a is not None and a.k == 'bin' and a.op in ('+', '-') and a.a:
                        a = strip(a.a[0])
                    return a is not None and a.k == 'var' and any(a.decl == x[1] for x in fins)
                if nm in _COMPARES or (nm and any(g.name == nm and orfold_compare(s.prog, g)
                                                  for g in s.prog.lib_funcs())):
                    if any(is_digest(a) for a in call.a[1:]):
                        s.compares += 1
                        return frozenset(x for x in ts if not (isinstance(x, tuple) and x[0] == 'fin'))
                    return ts
                written = []
                if nm in _WRITERS_ARG1:
                    if len(call.a) > 1 and is_digest(call.a[1]):
                        written.append(1)
                elif nm and nm != 'free':
                    cands = [g for g in s.prog.lib_funcs() if g.name == nm]
                    if len(cands) == 1:
                        for i, p in enumerate(cands[0].params):
                            if i + 1 < len(call.a) and is_digest(call.a[i + 1]) and (p.t or '').rstrip().endswith('*') \
                                    and 'const' not in (p.t or ''):
                                written.append(i + 1)
                if written and 'nothing-stored' not in ts:
                    s.violate(c2, 'overwritten', '%s() writes into the computed digest %s before it is compared, on a path '
                              'that is not the nothing-stored case (%s == 0): for the inputs that take this path the '
                              'verdict no longer depends on the bytes that were hashed' % (nm, fins[0][2], exception_field),
                              inst='%s' % nm)
                return ts
        r = Intact(prog, vf)
        run_rule(prog, vf, r)
        ck.require(r.finals >= 1 and r.compares >= 1, '%s: no hash_finalize() result compared byte-wise' % fname)
        n += r.compares
        ck.ob(clause, 'R2.digest-intact', fname, 'finalize->compare', not r.violations,
              'the buffer returned by hash_finalize() reaches the comparison unmodified (or replaced by zeros only when '
              'nothing is stored for the entry)' if not r.violations else r.violations[0].msg, vf.file,
              r.violations[0].node.line if r.violations else vf.line,
              path=r.violations[0].path if r.violations else None, config=config)
    return n


# ------------------------------------------------------------------ what the scan reads of a chunk reaches the chunk hash
def read_reaches_hash(ck, prog, config, clause, fname='validate_checksums', reader='read_data', hasher='hash_update',
                      hash_field='check_chunk_hash', verdict='validate_chunk'):
    """R6.read-hashed: in the validity scan, every count of bytes read from a chunk's extent that can be positive is
    handed, with the same buffer, to the chunk hash before the next read of the same buffer and before the chunk's
    verdict.  A path on which bytes were read but not hashed (a fast path that classifies a chunk by looking at the
    bytes instead, a skipped block) makes the verdict a function of something other than the stored bytes."""
    fn = prog.need_func(fname)

    class RH(FactRule):
        name = 'R6.read-hashed'

        def __init__(s, prog_, f):
            FactRule.__init__(s, prog_, f)
            s.reads = 0
            s.hashes = 0
            s.verdicts = 0

        def pending(s, ts):
            return [x for x in ts if isinstance(x, tuple) and x[0] == 'rd']

        def flush(s, c2, ts, what):
            for x in s.pending(ts):
                s.violate(c2, 'unhashed', 'the bytes read into %s (count %s, read at line %d) can be more than none on this '
                          'path and have not been given to the chunk hash when %s: the chunk is classified without its '
                          'stored bytes having been hashed' % (x[3], x[2], x[4], what), inst='read@%s' % x[2])
            return frozenset(x for x in ts if not (isinstance(x, tuple) and x[0] == 'rd'))

        def on_assign(s, c2, lhs, rhs, op, value, ts):
            if c2.fn is not s.fn:
                return ts
            l = strip(lhs)
            r = strip(rhs) if rhs is not None else None
            while r is not None and r.k == 'cast' and r.a:
                r = strip(r.a[0])
            if l is not None and l.k == 'var' and op == '=' and r is not None and r.k == 'call' and \
                    callee_name(r) == reader and len(r.a) > 3:
                ts = s.flush(c2, ts, 'the buffer is read into again')
                s.reads += 1
                ts = ts | frozenset([('rd', l.decl, l.op, pstr(r.a[2]), r.line)])
            return ts

        def on_edge(s, c2, node, label, refined, ts):
            if c2.fn is not s.fn:
                return ts
            op, l, r = atom_cmp(node.e, label)
            sl = strip(l)
            while sl is not None and sl.k == 'cast' and sl.a:
                sl = strip(sl.a[0])
            cv = const_value(r)
            if sl is not None and sl.k == 'var' and cv is not None:
                nothing = (op == '<=' and cv <= 0) or (op == '<' and cv <= 1) or (op == '==' and cv <= 0)
                if nothing:
                    ts = frozenset(x for x in ts if not (isinstance(x, tuple) and x[0] == 'rd' and x[1] == sl.decl))
            return ts

        def on_call(s, c2, call, ts):
            if c2.fn is not s.fn:
                return ts
            nm = callee_name(call)
            if nm == hasher and len(call.a) > 4 and hash_field in pstr(call.a[2]):
                s.hashes += 1
                ln = strip(call.a[4])
                while ln is not None and ln.k == 'cast' and ln.a:
                    ln = strip(ln.a[0])
                buf = pstr(call.a[3])
                ts = frozenset(x for x in ts if not (isinstance(x, tuple) and x[0] == 'rd' and ln is not None and
                                                     ln.k == 'var' and ln.decl == x[1] and buf == x[3]))
            elif nm == verdict:
                s.verdicts += 1
                ts = s.flush(c2, ts, '%s() gives the verdict' % verdict)
            return ts

        def on_return(s, c2, node, mask, ts):
            return ts
    r = RH(prog, fn)
    run_rule(prog, fn, r)
    ck.require(r.reads >= 1 and r.hashes >= 1 and r.verdicts >= 1,
               '%s: read (%d) / chunk-hash update (%d) / verdict (%d) not found' % (fname, r.reads, r.hashes, r.verdicts))
    ck.ob(clause, 'R6.read-hashed', fname, 'read->hash->verdict', not r.violations,
          'every count read from a chunk that can be positive is hashed (same buffer) before the next read and before %s() '
          '(%d read, %d hash, %d verdict state(s))' % (verdict, r.reads, r.hashes, r.verdicts) if not r.violations else
          r.violations[0].msg, fn.file, r.violations[0].node.line if r.violations else fn.line,
          path=r.violations[0].path if r.violations else None, config=config)
    return r.reads

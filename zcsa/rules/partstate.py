"""R5.part-remaining   the data state of the multipart scanner never holds an exhausted part.

multipart_extract() is a two-state machine: in the data state (mp->state != 0) `mp->length` bytes of the current part
are still to come; they are forwarded to dl_write_range() as they arrive, whatever the transport's fragmentation.
Object invariant of the data state:  mp->length >= 1  (a well-formed part has at least one byte: C05 quantifies over
well-formed responses; the part-header parser that enters the state is outside this rule).

Decided over every path of one pass through the data-state block, from the true edge of the state test to the next
loop head, with linear values and Fourier-Motzkin, assuming the invariant at the state test:

  forward     the length handed to the range writer is >= 1   (an empty piece reaches hash_update(data, 0), which is
              an error: the target context goes into the error state and the transfer cannot be continued)
  preserve    a pass that leaves the state unchanged leaves  mp->length >= 1;  equivalently, when the part is used up
              the pass also leaves the data state.  Otherwise a part that ends exactly at the end of a callback
              buffer stays in the data state with nothing left, and the next callback forwards an empty piece.

Both obligations are dropped when the range writer tolerates an empty piece (every path from its entry to the
zero-rejecting hash update is dominated by a test that the length is not zero).
"""
from ..ir import strip, show, callee_name, const_value, calls_in, walk
from ..program import all_exprs
from ..cfg import must_pass_edges
from .common import SymRule, run_rule, Lin, atom_cmp, last_field, node_containing, pstr
from .bounds import cons_of
from .guardlen import fm_feasible


def writer_tolerates_zero(prog, writer):
    """does `writer`(…, length) return before anything rejects an empty piece when length == 0 ?"""
    fn = prog.need_func(writer)
    ints = [p for p in fn.params if not (p.t or '').rstrip().endswith('*')]
    if not ints:
        return False
    g = prog.cfg(fn)
    # the first call that forwards the length: dominated by a non-zero edge on the parameter?
    for ex in all_exprs(fn):
        for c in calls_in(ex):
            if callee_name(c) and any(strip(a) is not None and strip(a).k == 'var' and strip(a).decl == ints[-1].decl
                                      for a in c.a[1:]):
                nd = node_containing(g, c.uid)
                if nd is None:
                    return False
                for b, lab in must_pass_edges(g, nd):
                    op, l, r = atom_cmp(b.e, lab)
                    sl = strip(l)
                    if sl is not None and sl.k == 'var' and sl.decl == ints[-1].decl and const_value(r) == 0 and \
                            op in ('!=', '>'):
                        return True
                return False
    return False


class PartRemaining(SymRule):
    name = 'R5.part-remaining'
    track_fields = ('length', 'state')

    def __init__(self, prog, fn, writer):
        SymRule.__init__(self, prog, fn)
        self.writer = writer
        self.entered = 0
        self.forwards = 0
        self.passes = 0

    def cons(self, ts):
        return [x[1] for x in ts if isinstance(x, tuple) and len(x) == 2 and x[0] == 'c']

    def length_path(self, ts):
        for x in ts:
            if isinstance(x, tuple) and len(x) == 2 and x[0] == 'lenpath':
                return x[1]
        return None

    def on_node(self, ctx, node, ts):
        if ctx.fn is self.fn and node.loop is not None and 'data' in ts:
            # end of a pass through the data-state block
            self.passes += 1
            lp = self.length_path(ts)
            if 'left' not in ts and lp is not None:
                _, fields = self.env_of(ts)
                cur = fields.get(lp)
                if cur is None:
                    cur = Lin({lp: 1})
                if cur is not None:
                    w = fm_feasible(self.cons(ts) + [-cur] + self.nonneg(ts, [cur]))
                    if w is not None:
                        self.violate(ctx, 'exhausted', 'a pass through the data state can end with %s == %r = 0 and the state '
                                     'unchanged (e.g. %s): a part whose last byte is the last byte of a callback buffer '
                                     'stays in the data state with nothing left, and the next callback forwards an empty '
                                     'piece to %s()' % (lp, cur, ', '.join('%s=%s' % kv for kv in sorted(w.items())[:4]),
                                                        self.writer), inst='preserve', node=node)
            ts = frozenset(x for x in ts if not (x in ('data', 'left') or (isinstance(x, tuple) and len(x) == 2 and
                                                                            x[0] in ('c', 'lenpath'))))
        elif ctx.fn is self.fn and node.loop is not None:
            ts = frozenset(x for x in ts if not (isinstance(x, tuple) and len(x) == 2 and x[0] == 'c'))
        return SymRule.on_node(self, ctx, node, ts)

    def nonneg(self, ts, extra=()):
        syms = set(k for c in self.cons(ts) for k in c.t)
        for e in extra:
            syms |= set(e.t)
        return [Lin({k: 1}) for k in syms]

    def on_edge(self, ctx, node, label, refined, ts):
        if ctx.fn is not self.fn:
            return ts
        op, l, r = atom_cmp(node.e, label)
        if last_field(l) == 'state' and const_value(r) == 0 and 'data' not in ts:
            if op == '!=':
                self.entered += 1
                sp = pstr(l)
                lp = sp[:-len('state')] + 'length'
                _, fields = self.env_of(ts)
                cur = fields.get(lp)
                if cur is None:
                    cur = Lin({lp: 1})
                ts = ts | frozenset(['data', ('lenpath', lp), ('c', cur - Lin(None, 1))])     # invariant: length >= 1
            return ts
        lv, rv = self.value(l, ts), self.value(r, ts)
        if lv is not None and rv is not None and (lv.t or rv.t):
            for c in cons_of(op, lv, rv):
                ts = ts | frozenset([('c', c)])
        return ts

    def sym_assign(self, ctx, lhs, rhs, op, ts):
        if ctx.fn is self.fn and last_field(lhs) == 'state' and 'data' in ts:
            if rhs is not None and const_value(rhs) == 0:
                ts = ts | frozenset(['left'])
            else:
                ts = ts - frozenset(['left'])
        return ts

    def sym_call(self, ctx, call, ts):
        if ctx.fn is self.fn and callee_name(call) == self.writer and 'data' in ts and len(call.a) > 3:
            self.forwards += 1
            L = self.value(call.a[3], ts)
            if L is None:
                self.violate(ctx, 'forward', 'length %s handed to %s() is not a linear value' % (show(call.a[3]), self.writer),
                             inst='forward')
                return ts
            w = fm_feasible(self.cons(ts) + [-L] + self.nonneg(ts, [L]))
            if w is not None:
                self.violate(ctx, 'forward', 'the data state can hand an empty piece (%r = 0, e.g. %s) to %s(), which '
                             'fails on it' % (L, ', '.join('%s=%s' % kv for kv in sorted(w.items())[:4]), self.writer),
                             inst='forward')
        return ts


def check_part_remaining(ck, prog, config, clause, fname='multipart_extract', writer='dl_write_range'):
    fn = prog.need_func(fname)
    if writer_tolerates_zero(prog, writer):
        ck.ob(clause, 'R5.part-remaining', fn.name, 'writer-accepts-empty', True,
              '%s() returns early on a zero length: an exhausted part in the data state is harmless' % writer,
              fn.file, fn.line, config=config, trivial=True)
        return 0
    r = PartRemaining(prog, fn, writer)
    run_rule(prog, fn, r)
    ck.require(r.entered >= 1 and r.forwards >= 1 and r.passes >= 1,
               '%s: data state (%d), forward to %s (%d) or end of pass (%d) not found' % (fname, r.entered, writer,
                                                                                         r.forwards, r.passes))
    by = {}
    for v in r.violations:
        by.setdefault(v.inst, v)
    for inst, text in (('forward', 'the piece handed to %s() in the data state is never empty' % writer),
                       ('preserve', 'a pass that stays in the data state leaves at least one byte of the part to come '
                                    '(a part that is used up also leaves the state)')):
        v = by.get(inst)
        ck.ob(clause, 'R5.part-remaining', fn.name, inst, v is None, text if v is None else v.msg, fn.file,
              v.node.line if v else fn.line, path=v.path if v else None, config=config)
    return r.forwards

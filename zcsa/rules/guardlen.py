"""R4.guarded-length   a write whose length is positive must not be skipped by its own guard.

Shape:   if (G) write_like(.., P, LEN);      (no else; G compares variables that occur in LEN)
The guard exists to skip an empty write.  If there is an assignment of the variables with LEN >= 1 and G false
(under the sign facts of the function: unsigned objects, and signed locals that are only ever assigned non-negative
values), the LEN queued bytes at P are dropped.  Decided by Fourier-Motzkin elimination over the (at most four)
variables of the two linear forms - a closed-form linear argument about one `if`, not a search over paths.
A feasible system is reported with a witness assignment.
"""
from fractions import Fraction

from ..ir import strip, show, callee_name, const_value, walk, walk_stmts, calls_in, is_unsigned_type
from ..program import all_exprs
from .common import Lin, lin

WRITE_LIKE = {'write_data': None, 'zck_write': None, 'comp_write': None, 'write': None, 'fwrite': None}


def length_arg(call):
    n = callee_name(call)
    args = call.a[1:]
    if n == 'fwrite':
        return None
    if n in ('write_data',):
        return args[-1]
    if n in ('zck_write', 'comp_write', 'write'):
        return args[2] if len(args) > 2 else None
    return None


def nonneg_locals(fn):
    """names of integer locals that only ever hold non-negative values (flow-insensitive fixpoint)"""
    cands = {}
    for v in list(fn.locals.values()) + list(fn.params):
        t = (v.dt or v.t or '')
        if t.rstrip().endswith('*') or '[' in t:
            continue
        cands[v.decl] = v
    assigns = {}
    for st in walk_stmts(fn.body):
        if st.k == 'decl' and st.var is not None and st.e is not None:
            assigns.setdefault(st.var.decl, []).append(('=', st.e))
    for ex in all_exprs(fn):
        for n in walk(ex):
            if n.k == 'bin' and n.op.endswith('=') and n.op not in ('==', '!=', '<=', '>='):
                l = strip(n.a[0])
                if l.k == 'var':
                    assigns.setdefault(l.decl, []).append((n.op, n.a[1]))
            elif n.k == 'un' and n.op in ('++', '--'):
                l = strip(n.a[0])
                if l.k == 'var':
                    assigns.setdefault(l.decl, []).append((n.op, None))
            elif n.k == 'un' and n.op == '&':
                l = strip(n.a[0])
                if l.k == 'var':
                    assigns.setdefault(l.decl, []).append(('&', None))
    good = set(d for d, v in cands.items() if is_unsigned_type(v.t, v.dt))
    maybe = set(d for d in cands if d not in good and all(op != '&' for op, _ in assigns.get(d, [])))
    names = dict((d, v.op) for d, v in cands.items())
    changed = True
    ok = set(maybe)
    while changed:
        changed = False
        for d in list(ok):
            for op, rhs in assigns.get(d, []):
                fine = False
                if op == '++':
                    fine = True
                elif op in ('=', '+=') and rhs is not None:
                    r = lin(rhs)
                    if r is not None and r.c >= 0 and all(c >= 0 and any(names.get(x) == k for x in (ok | good))
                                                          for k, c in r.t.items()):
                        fine = True
                if not fine:
                    ok.discard(d)
                    changed = True
                    break
    return set(names[d] for d in ok | good)


def fm_feasible(cons):
    """cons: list of Lin meaning  L >= 0  over rational variables.  -> witness dict or None."""
    cons = [(dict((k, Fraction(v)) for k, v in c.t.items()), Fraction(c.c)) for c in cons]
    order = sorted(set(k for t, c in cons for k in t))
    stack = []
    cur = cons
    for x in order:
        lower, upper, rest = [], [], []      # x >= expr ; x <= expr
        for t, c in cur:
            a = t.get(x, 0)
            if a == 0:
                rest.append((t, c))
                continue
            # a*x + r >= 0  ->  x >= -r/a (a>0)  or  x <= -r/a (a<0)
            r_t = dict((k, -v / a) for k, v in t.items() if k != x)
            r_c = -c / a
            (lower if a > 0 else upper).append((r_t, r_c))
        stack.append((x, lower, upper))
        new = list(rest)
        for lt, lc in lower:
            for ut, uc in upper:
                # ut + uc >= lt + lc
                t = dict(ut)
                for k, v in lt.items():
                    t[k] = t.get(k, 0) - v
                new.append((dict((k, v) for k, v in t.items() if v != 0), uc - lc))
        cur = new
        if len(cur) > 400:
            return {}
    for t, c in cur:
        if not t and c < 0:
            return None
    # back-substitute a witness
    w = {}
    for x, lower, upper in reversed(stack):
        def ev(t, c):
            return c + sum(v * w.get(k, 0) for k, v in t.items())
        lo = max([ev(t, c) for t, c in lower], default=None)
        hi = min([ev(t, c) for t, c in upper], default=None)
        if lo is None and hi is None:
            w[x] = Fraction(0)
        elif lo is None:
            w[x] = hi
        else:
            import math
            v = Fraction(math.ceil(lo))
            w[x] = v if (hi is None or v <= hi) else lo
    return w


def negate(op):
    return {'<': '>=', '<=': '>', '>': '<=', '>=': '<', '==': '!=', '!=': '=='}[op]


def check_guarded_lengths(ck, prog, config, clause, units=('src/zck.c', 'src/unzck.c')):
    n = 0
    for fn in sorted(prog.funcs.values(), key=lambda f: f.qname):
        if not any(fn.unit.endswith(u) for u in units):
            continue
        nn = None
        for st in walk_stmts(fn.body):
            if st.k != 'if' or st.els is not None or st.e is None:
                continue
            body = st.then
            while body is not None and not isinstance(body, list) and body.k == 'compound' and body.body and \
                    len(body.body) == 1:
                body = body.body[0]
            if body is None or isinstance(body, list) or body.k != 'expr' or body.e is None:
                continue
            call = strip(body.e)
            if call.k != 'call' or callee_name(call) not in WRITE_LIKE:
                continue
            la = length_arg(call)
            g = strip(st.e)
            if la is None or g.k != 'bin' or g.op not in ('<', '<=', '>', '>='):
                continue
            L = lin(la)
            gl, gr = lin(g.a[0]), lin(g.a[1])
            if L is None or gl is None or gr is None or L.is_const():
                continue
            if not (set(gl.t) | set(gr.t)) <= set(L.t) | set(gl.t) & set(gr.t) or not (set(gl.t) | set(gr.t)) & set(L.t):
                continue
            n += 1
            if nn is None:
                nn = nonneg_locals(fn)
            # not G as  X >= 0
            nop = negate(g.op)
            d = gl - gr
            notg = {'>=': d, '>': d - Lin(None, 1), '<=': -d, '<': -d - Lin(None, 1)}[nop]
            cons = [L - Lin(None, 1), notg]
            for k in set(L.t) | set(d.t):
                if k in nn:
                    cons.append(Lin({k: 1}))
            w = fm_feasible(cons)
            ok = w is None
            ck.ob(clause, 'R4.guarded-length', fn.name, '%s@%s' % (callee_name(call), show(g)[:30]), ok,
                  'if(%s) %s(.., %s): the guard holds whenever the length is positive' % (
                      show(g), callee_name(call), show(la)) if ok else
                  'if(%s) %s(.., %s): the write is skipped although %s bytes are queued when %s - the bytes are lost '
                  '(non-negative: %s)' % (show(g), callee_name(call), show(la), show(la),
                                          ', '.join('%s = %s' % (k, v) for k, v in sorted(w.items())) or 'e.g. all zero',
                                          ', '.join(sorted(k for k in (set(L.t) | set(d.t)) if k in nn))),
                  call.file, call.line, config=config)
    return n


def check_deferred_flush(ck, prog, config, clause, units=('src/zck.c',)):
    """A write inside a read loop whose length subtracts a carried counter V (bytes held back because they might
    be the start of a match that continues in the next block) needs a write of exactly V bytes after the loop:
    otherwise input that ends inside such a partial match loses its tail."""
    n = 0
    for fn in sorted(prog.funcs.values(), key=lambda f: f.qname):
        if not any(fn.unit.endswith(u) for u in units):
            continue
        names = dict((v.op, v) for v in fn.locals.values())
        for st in walk_stmts(fn.body):
            if st.k not in ('while', 'for', 'do'):
                continue
            # writes that are direct statements of this loop's body (not inside a nested loop)
            direct = []
            stack = [st.body]
            last_line = st.line
            while stack:
                x = stack.pop()
                if x is None:
                    continue
                if isinstance(x, list):
                    stack.extend(x)
                    continue
                last_line = max(last_line, x.line or 0)
                if x.k in ('while', 'for', 'do'):
                    for y in walk_stmts(x.body):
                        last_line = max(last_line, y.line or 0)
                    continue
                if x.k == 'expr' and x.e is not None:
                    c = strip(x.e)
                    if c.k == 'call' and callee_name(c) in WRITE_LIKE:
                        direct.append(c)
                for attr in ('body', 'then', 'els'):
                    y = getattr(x, attr)
                    if y is not None:
                        stack.append(y)
            assigned_in_loop = set()
            for y in walk_stmts(st.body):
                e = getattr(y, 'e', None)
                if e is None:
                    continue
                for z in walk(e):
                    if (z.k == 'bin' and z.op.endswith('=') and z.op not in ('==', '!=', '<=', '>=')) or \
                            (z.k == 'un' and z.op in ('++', '--')):
                        l = strip(z.a[0])
                        if l.k == 'var':
                            assigned_in_loop.add(l.op)
            for c in direct:
                la = length_arg(c)
                L = lin(la) if la is not None else None
                if L is None:
                    continue
                ptr = None
                args_ = c.a[1:]
                if callee_name(c) in ('write_data', 'zck_write', 'comp_write', 'write') and len(args_) >= 2:
                    ptr = lin(args_[-2])
                for v, coef in L.t.items():
                    if coef != -1 or v not in names or v not in assigned_in_loop:
                        continue
                    if ptr is not None and ptr.t.get(v, 0) > 0:
                        continue      # v is the start offset of the piece (added to the pointer), not a held-back count
                    # is v declared outside the loop (carried across iterations)?
                    decl_in_loop = any(y.k == 'decl' and y.var is not None and y.var.op == v for y in walk_stmts(st.body))
                    if decl_in_loop:
                        continue
                    n += 1
                    flushed = False
                    for ex in all_exprs(fn):
                        for c2 in calls_in(ex):
                            if callee_name(c2) in WRITE_LIKE and (c2.line or 0) > last_line:
                                l2 = length_arg(c2)
                                if l2 is not None and lin(l2) == Lin({v: 1}):
                                    flushed = True
                    ck.ob(clause, 'R4.deferred-flush', fn.name, 'held-back:%s' % v, flushed,
                          '%s bytes are held back per block by %s(.., %s) and written after the loop' % (
                              v, callee_name(c), show(la)) if flushed else
                          '%s(.., %s) holds %s byte(s) back at the end of every block (they may start a match that '
                          'continues in the next block), but nothing after the loop writes them: input that ends inside '
                          'such a partial match loses its last %s byte(s), and the tool still exits 0' % (
                              callee_name(c), show(la), v, v), c.file, c.line, config=config)
    return n


def check_carried_bound(ck, prog, config, clause, units=('src/zck.c',)):
    """A write inside a read loop whose length L subtracts a carried counter V (declared outside the loop: it can
    count bytes held back from *earlier* blocks) from per-block quantities P needs, on the way to the call, a test
    that implies P - V >= 0 (or L >= 0): otherwise a block shorter than what is held back makes the length negative,
    and the size_t conversion turns it into a huge write (the scanner's end-of-block flush when the input ends
    inside a split string that began in the previous block).  Decided per call from the conditions of the enclosing
    `if`s (then-branches) as linear constraints, unique definitions of locals substituted, by Fourier-Motzkin."""
    from ..program import unique_defs
    from .bounds import cons_of
    n = 0
    for fn in sorted(prog.funcs.values(), key=lambda f: f.qname):
        if not any(fn.unit.endswith(u) for u in units):
            continue
        names = dict((v.op, v) for v in fn.locals.values())
        subst = unique_defs(fn)

        def visit(stmts, loop, conds, out):
            for x in (stmts if isinstance(stmts, list) else [stmts]):
                if x is None:
                    continue
                if x.k == 'compound':
                    visit(x.body, loop, conds, out)
                elif x.k in ('while', 'for', 'do'):
                    visit(x.body, loop if loop is not None else x, conds if loop is not None else [], out)
                elif x.k == 'if':
                    g = strip(x.e)
                    tc = []
                    if g is not None and g.k == 'bin' and g.op in ('<', '<=', '>', '>=', '=='):
                        tc = [(g.op, g.a[0], g.a[1])]
                    visit(x.then, loop, conds + tc, out)
                    if x.els is not None:
                        ec = [(negate(g.op), g.a[0], g.a[1])] if tc and g.op != '==' else []
                        visit(x.els, loop, conds + ec, out)
                elif x.k == 'expr' and x.e is not None and loop is not None:
                    c = strip(x.e)
                    if c.k == 'call' and callee_name(c) in WRITE_LIKE:
                        out.append((c, loop, list(conds)))
        sites = []
        visit(fn.body, None, [], sites)
        for c, loop, conds in sites:
            la = length_arg(c)
            L = lin(la, subst) if la is not None else None
            if L is None:
                continue
            carried = []
            for v, coef in L.t.items():
                if coef >= 0 or v not in names:
                    continue
                decl_in_loop = any(y.k == 'decl' and y.var is not None and y.var.op == v for y in walk_stmts(loop.body))
                assigned = False
                for y in walk_stmts(loop.body):
                    e = getattr(y, 'e', None)
                    if e is None:
                        continue
                    for z in walk(e):
                        if ((z.k == 'bin' and z.op.endswith('=') and z.op not in ('==', '!=', '<=', '>=')) or
                                (z.k == 'un' and z.op in ('++', '--'))) and strip(z.a[0]).k == 'var' and strip(z.a[0]).op == v:
                            assigned = True
                if not decl_in_loop and assigned:
                    carried.append(v)
            for v in carried:
                n += 1
                P = Lin(dict((k, cf) for k, cf in L.t.items() if cf > 0), max(L.c, 0))
                cons = []
                for op, a, b in conds:
                    lv, rv = lin(a, subst), lin(b, subst)
                    if lv is not None and rv is not None:
                        cons += cons_of(op, lv, rv)
                # violated if  V - P >= 1  is possible under the enclosing conditions
                nn = nonneg_locals(fn)
                allv = set(k for c_ in cons for k in c_.t) | set(L.t)
                w = fm_feasible(cons + [Lin({v: 1}) - P - Lin(None, 1)] +
                                [Lin({k: 1}) for k in (set(P.t) | set([v]) | set(k for k in allv if k in nn))])
                ok = w is None
                ck.ob(clause, 'R4.carried-bound', fn.name, 'carried:%s@%s' % (v, show(la)[:30]), ok,
                      '%s(.., %s): the enclosing conditions imply %s <= %r' % (callee_name(c), show(la), v, P) if ok else
                      '%s(.., %s) subtracts the carried counter %s (it also counts bytes held back from earlier blocks) '
                      'from %r without a test that %s <= %r: when the block is shorter than what is held back the length '
                      'is negative and is converted to a huge size_t (e.g. %s) - the tool crashes on an input that ends '
                      'inside a split string begun in the previous block' % (
                          callee_name(c), show(la), v, P, v, P,
                          ', '.join('%s=%s' % kv for kv in sorted(w.items()))), c.file, c.line, config=config)
    return n

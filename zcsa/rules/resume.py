"""R4.resume   a terminator search that is resumed over carried-over bytes must not skip an unexamined position.

multipart_extract() looks for the 4-byte part-header terminator with a loop that stops examining positions once
fewer than K bytes remain (`j + K >= end`), saves the unfinished header and merges it with the next fragment.  If
the search over the merged buffer starts at an offset S > 0 (an optimisation), every position below S must have
been examined by the previous call: S <= carried_length - K, with K taken from the loop's own stop test.  S == 0
(the search starts at the unconsumed header, as today) is trivially fine.  Linear values, loops unrolled twice.
"""
from ..ir import strip, show, callee_name, const_value, walk, walk_stmts, calls_in
from .common import SymRule, Lin, pstr, atom_cmp, run_rule

UNROLL = 2


class ResumeRule(SymRule):
    name = 'R4.resume'

    def __init__(self, prog, fn, loop, jdecl, start_name, carried, K):
        SymRule.__init__(self, prog, fn)
        self.track_fields = tuple(sorted(set(self.track_fields) | set([carried.split('->')[-1]])))
        self.loop = loop
        self.jdecl = jdecl
        self.start_name = start_name
        self.carried = carried
        self.K = K
        self.starts = 0
        # only the variables the start offset is computed from are followed (everything else stays a name)
        byname = dict((v.op, v.decl) for v in list(fn.locals.values()) + list(fn.params))
        rel_ = set([jdecl])
        work = [jdecl]
        from ..program import all_exprs as _all
        defs = {}
        for st_ in walk_stmts(fn.body):
            if st_.k == 'decl' and st_.var is not None and st_.e is not None:
                defs.setdefault(st_.var.decl, []).append(st_.e)
        for ex in _all(fn):
            for n in walk(ex):
                if n.k == 'bin' and n.op.endswith('=') and n.op not in ('==', '!=', '<=', '>='):
                    l = strip(n.a[0])
                    if l.k == 'var':
                        defs.setdefault(l.decl, []).append(n.a[1])
        while work:
            d = work.pop()
            for e_ in defs.get(d, []):
                for n in walk(e_):
                    if n.k == 'var' and n.dk in ('VarDecl', 'ParmVarDecl') and n.op != start_name and n.decl not in rel_:
                        if d == jdecl or True:
                            rel_.add(n.decl)
                            work.append(n.decl)
        # the scan variable's own later assignments (j++, j += 4) pull in nothing new
        self.locals = set(x for x in self.locals if x in rel_)

    MARK = '\u00b0'

    def value(self, e, ts):
        """Like SymRule.value, but the entry value of a tracked field is a marked symbol (path + degree sign), so that
        a local that holds an entry value is not rewritten when the field is assigned later."""
        from .common import lin
        env, fields = self.env_of(ts)
        r = lin(e, None, env)
        if r is None:
            return None
        out = Lin(None, r.c)
        for term, coef in sorted(r.t.items()):
            if term.endswith(self.MARK):
                out = out + Lin({term: coef})
            elif term in fields:
                out = out + fields[term].scale(coef)
            elif term.replace('.', '->').split('->')[-1] in self.track_fields:
                out = out + Lin({term + self.MARK: coef})
            else:
                out = out + Lin({term: coef})
        return out

    def visits(self, ts, line):
        for x in ts:
            if isinstance(x, tuple) and x[0] == 'visits' and x[1] == line:
                return x[2]
        return 0

    def on_node(self, ctx, node, ts):
        if ctx.fn is self.fn and node.loop is not None and node.loop is not self.loop:
            n = self.visits(ts, node.line)
            ts = frozenset(x for x in ts if not (isinstance(x, tuple) and x[0] == 'visits' and x[1] == node.line))
            if n < UNROLL:
                return ts | frozenset([('visits', node.line, n + 1)])
            ts = ts | frozenset([('visits', node.line, n), 'widened'])
            return SymRule.on_node(self, ctx, node, ts)
        return SymRule.on_node(self, ctx, node, ts)

    def facts(self, ts):
        return [x[1] for x in ts if isinstance(x, tuple) and len(x) == 2 and x[0] == 'le']

    def on_edge(self, ctx, node, label, refined, ts):
        if ctx.fn is not self.fn:
            return ts
        op, l, r = atom_cmp(node.e, label)
        lv, rv = self.value(l, ts), self.value(r, ts)
        if lv is None or rv is None:
            return ts
        if not any(self.carried in k for k in list(lv.t) + list(rv.t)):
            return ts
        new = {'<=': lv - rv, '<': lv - rv + Lin(None, 1), '>=': rv - lv, '>': rv - lv + Lin(None, 1)}.get(op)
        if new is not None and not new.is_const():
            ts = ts | frozenset([('le', new)])
        return ts

    def sym_assign(self, ctx, lhs, rhs, op, ts):
        l = strip(lhs)
        if l.k == 'var' and l.decl == self.jdecl and op == '=' and rhs is not None and 'widened' not in ts:
            env, _ = self.env_of(ts)
            jv = env.get(self.jdecl)
            iv = None
            for d, v in env.items():
                pass
            # the value of the start variable at this point
            start = None
            for v_ in list(self.fn.locals.values()) + list(self.fn.params):
                if v_.op == self.start_name:
                    start = env.get(v_.decl, Lin({v_.op: 1}))
            if jv is None or start is None:
                return ts
            self.starts += 1
            S = jv - start
            if S.is_const() and S.c == 0:
                return ts
            need = S - Lin({self.carried + self.MARK: 1}, -self.K)
            ok = need.is_const() and need.c <= 0
            if not ok:
                for f in self.facts(ts):
                    d = need - f
                    if d.is_const() and d.c <= 0:
                        ok = True
            if not ok:
                self.violate(ctx, 'resume', 'the search for the part-header terminator starts %r bytes into the merged '
                             'buffer; the previous call left the last %d positions of the %s carried bytes unexamined '
                             '(its loop stops at j + %d >= end), so the start may be at most %s - %d: a terminator that '
                             'was complete at the very end of the previous fragment is skipped and the response is parsed '
                             'differently depending on where the transport split it' % (
                                 S, self.K, self.carried, self.K, self.carried, self.K), inst='scan-start')
        return ts


def find_scan(fn):
    """the loop that looks for the terminator: contains memcmp(j, "\\r\\n\\r\\n", 4); returns (loop stmt, j decl, K)"""
    best = (None, None, None)
    for st in walk_stmts(fn.body):
        if st.k not in ('for', 'while'):
            continue
        hit = None
        for sub in walk_stmts(st.body):
            e = getattr(sub, 'e', None)
            if e is None:
                continue
            for c in calls_in(e):
                if callee_name(c) == 'memcmp' and any(strip(a).k == 'str' and '\\r\\n\\r\\n' in (strip(a).val or '')
                                                       for a in c.a[1:]):
                    hit = c
        if hit is None:
            continue
        jv = strip(hit.a[1])
        if jv.k != 'var':
            continue
        K = None
        for sub in walk_stmts(st.body):
            e = getattr(sub, 'e', None)
            if sub.k == 'if' and e is not None:
                se = strip(e)
                if se.k == 'bin' and se.op in ('>=', '>'):
                    l = strip(se.a[0])
                    if l.k == 'bin' and l.op == '+' and strip(l.a[0]).k == 'var' and strip(l.a[0]).decl == jv.decl \
                            and const_value(l.a[1]) is not None:
                        K = const_value(l.a[1]) + (1 if se.op == '>' else 0)
        best = (st, jv.decl, K)
    return best


def check_resume(ck, prog, config, clause, fname='multipart_extract', start='i', carried='mp->buffer_len'):
    fn = prog.need_func(fname)
    loop, jdecl, K = find_scan(fn)
    ck.require(loop is not None, '%s: terminator search loop (memcmp with "\\\\r\\\\n\\\\r\\\\n") not found' % fname)
    ck.require(K is not None, '%s: stop test `j + K >= end` of the terminator search not found' % fname)
    r = ResumeRule(prog, fn, loop, jdecl, start, carried, K)
    run_rule(prog, fn, r)
    ck.require(r.starts >= 1, '%s: start of the terminator search not found' % fname)
    ck.ob(clause, 'R4.resume', fname, 'scan-start', not r.violations,
          'the terminator search starts at the unconsumed header (or at most carried - %d bytes into it): %d start '
          'state(s)' % (K, r.starts) if not r.violations else r.violations[0].msg, fn.file,
          r.violations[0].node.line if r.violations else fn.line,
          path=r.violations[0].path if r.violations else None, config=config)

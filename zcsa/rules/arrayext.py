"""R4.array-extent   what is read from / written into a fixed-size array stays inside the array.

For every function of the library and the tools, every call that hands a fixed-size byte array (a local, a static local
or a file-scope array; `a`, `a + off`, `&a[off]`) together with a length to

  * a primitive that transfers that many bytes (read_data, write_data, read, write, memset, memcpy, memmove, memcmp,
    hash_update, zck_read, zck_write, snprintf), or
  * a repository function whose own body accesses its pointer parameter at an index / with a length that is a linear
    function of its integer parameters (summary computed from the stores `p[e]`, `*(p + e)` and from the transfers
    `(p + e, n)` it makes; terms that are not parameters are not summarised)

is decided per path:  offset + length > sizeof(array)  must be unsatisfiable under the path's comparison edges
(linear values, Fourier-Motzkin).  Fields whose complete value set is known (rules/fielddom.py: e.g. digest_size in
{16, 20, 32, 64}) are bounded by it; unsigned symbols are non-negative; a length that is not linear is skipped and
counted.
"""
import re
from ..ir import strip, show, walk, walk_stmts, callee_name, const_value, calls_in
from ..program import all_exprs, is_assign_op
from .common import SymRule, run_rule, Lin, lin, atom_cmp
from .bounds import cons_of
from .guardlen import fm_feasible
from . import fielddom

# callee -> list of (buffer index, length index) in call.a[1:]
PRIMS = {
    'read_data': [(1, 2)], 'write_data': [(2, 3)], 'read': [(1, 2)], 'write': [(1, 2)],
    'memset': [(0, 2)], 'memcpy': [(0, 2), (1, 2)], 'memmove': [(0, 2), (1, 2)], 'memcmp': [(0, 2), (1, 2)],
    'hash_update': [(2, 3)], 'zck_read': [(1, 2)], 'zck_write': [(1, 2)], 'snprintf': [(0, 1)],
    'comp_write': [(1, 2)], 'comp_read': [(1, 2)], 'strncpy': [(0, 2)], 'strncmp': [(0, 2), (1, 2)],
}
# read primitives: index (in call.a[1:]) of the requested count, which bounds the result
READ_CONTRACT = {'read_data': 2, 'read': 2, 'comp_read': 2, 'zck_read': 2, 'fread': 2}
BYTE_TYPES = ('char', 'unsigned char', 'signed char', 'uint8_t', 'int8_t', 'const char', 'const unsigned char',
              'const uint8_t')


def array_size(var):
    """byte size of a fixed-size byte array variable, or None"""
    t = (getattr(var, 'dt', None) or var.t or '')
    m = re.match(r'^(.*?)\s*\[(\d+)\]$', t.strip())
    if not m:
        t = var.t or ''
        m = re.match(r'^(.*?)\s*\[(\d+)\]$', t.strip())
        if not m:
            return None
    if m.group(1).strip() not in BYTE_TYPES:
        return None
    return int(m.group(2))


def split_base(e):
    """e -> (array var node, offset expr or None) when e denotes array, array + off, &array[off]; else None"""
    e = strip(e)
    if e is None:
        return None
    if e.k == 'var' and array_size(e) is not None:
        return e, None
    if e.k == 'bin' and e.op == '+':
        a, b = strip(e.a[0]), strip(e.a[1])
        if a is not None and a.k == 'var' and array_size(a) is not None:
            return a, e.a[1]
        if b is not None and b.k == 'var' and array_size(b) is not None:
            return b, e.a[0]
    if e.k == 'un' and e.op == '&':
        x = strip(e.a[0])
        if x is not None and x.k == 'idx':
            a = strip(x.a[0])
            if a is not None and a.k == 'var' and array_size(a) is not None:
                return a, x.a[1]
    return None


def summaries(prog):
    """qname -> {param index: [Lin over parameter names = bytes needed behind the pointer]}"""
    if getattr(prog, '_arrsum', None) is not None:
        return prog._arrsum
    out = {}
    for f in prog.funcs.values():
        if f.body is None:
            continue
        ptrs = dict((p.decl, i) for i, p in enumerate(f.params) if (p.t or '').rstrip().endswith('*'))
        ints = set(p.op for p in f.params if not (p.t or '').rstrip().endswith('*'))
        if not ptrs or not ints:
            continue
        # parameters that are reassigned in the body are not summarised
        dirty = set()
        for ex in all_exprs(f):
            for n in walk(ex):
                if (n.k == 'bin' and is_assign_op(n.op)) or (n.k == 'un' and n.op in ('++', '--', '&')):
                    l = strip(n.a[0])
                    if l is not None and l.k == 'var' and l.dk == 'ParmVarDecl':
                        dirty.add(l.op)
                        if l.decl in ptrs:
                            dirty.add(l.decl)

        def plin(e):
            v = lin(e)
            if v is None:
                return None
            if any(k not in ints or k in dirty for k in v.t):
                return None
            return v

        def base_of(e):
            e = strip(e)
            if e is None:
                return None
            if e.k == 'var' and e.decl in ptrs and e.decl not in dirty:
                return e.decl, Lin(None, 0)
            if e.k == 'bin' and e.op == '+':
                a, b = strip(e.a[0]), strip(e.a[1])
                for x, y in ((a, e.a[1]), (b, e.a[0])):
                    if x is not None and x.k == 'var' and x.decl in ptrs and x.decl not in dirty:
                        v = plin(y)
                        if v is not None:
                            return x.decl, v
            return None
        needs = {}
        for ex in all_exprs(f):
            for n in walk(ex):
                if n.k == 'idx':
                    b = base_of(n.a[0])
                    v = plin(n.a[1])
                    if b is not None and v is not None:
                        needs.setdefault(ptrs[b[0]], []).append(b[1] + v + Lin(None, 1))
                elif n.k == 'un' and n.op == '*':
                    b = base_of(n.a[0])
                    if b is not None:
                        needs.setdefault(ptrs[b[0]], []).append(b[1] + Lin(None, 1))
                elif n.k == 'call' and callee_name(n) in PRIMS:
                    args = n.a[1:]
                    for bi, li in PRIMS[callee_name(n)]:
                        if max(bi, li) < len(args):
                            b = base_of(args[bi])
                            v = plin(args[li])
                            if b is not None and v is not None and (v.t or v.c > 0):
                                needs.setdefault(ptrs[b[0]], []).append(b[1] + v)
        needs = dict((k, [x for x in v if x.t]) for k, v in needs.items())
        needs = dict((k, v) for k, v in needs.items() if v)
        if needs:
            out[f.qname] = (f, needs)
    prog._arrsum = out
    return out


class ArrayExtent(SymRule):
    name = 'R4.array-extent'

    def __init__(self, prog, fn, sums, doms, light=False):
        SymRule.__init__(self, prog, fn)
        self.light = light
        self.sums = sums
        self.doms = doms
        self.checked = 0
        self.skipped = 0
        self.sites = set()
        # names that matter: what occurs in the arguments of the calls that involve an array, closed over the
        # assignments that define them
        rel = set()
        sumnames = set(g.name for g, _ in sums.values())
        # local pointers that are set to (a place inside) a fixed-size array somewhere in the function
        alias = set()
        for st in walk_stmts(fn.body):
            if st.k == 'decl' and st.e is not None and st.var is not None and array_size(st.var) is None and \
                    split_base(st.e) is not None:
                alias.add(st.var.decl)
        for ex in all_exprs(fn):
            for n in walk(ex):
                if n.k == 'bin' and n.op == '=' and split_base(n.a[1]) is not None:
                    l = strip(n.a[0])
                    if l is not None and l.k == 'var' and array_size(l) is None:
                        alias.add(l.decl)

        def into_array(a):
            if split_base(a) is not None:
                return True
            return any(x.k == 'var' and x.decl in alias for x in walk(a))
        for ex in all_exprs(fn):
            for c in calls_in(ex):
                cn = callee_name(c)
                if (cn in PRIMS or cn in sumnames) and any(into_array(a) for a in c.a[1:]):
                    for a in c.a[1:]:
                        rel |= set(n.op for n in walk(a) if n.k in ('var', 'mem'))
        for ex in all_exprs(fn):
            for n in walk(ex):
                if n.k == 'idx' and into_array(n.a[0]):
                    rel |= set(x.op for x in walk(n.a[1]) if x.k in ('var', 'mem'))
        changed = not light         # light mode: only the names that occur in the accesses themselves
        while changed:
            changed = False
            for ex in all_exprs(fn):
                for n in walk(ex):
                    if n.k == 'bin' and is_assign_op(n.op):
                        l = strip(n.a[0])
                        if l is not None and l.k in ('var', 'mem') and l.op in rel:
                            new = set(x.op for x in walk(n.a[1]) if x.k in ('var', 'mem')) - rel
                            if new:
                                rel |= new
                                changed = True
            for st in walk_stmts(fn.body):
                if st.k == 'decl' and st.e is not None and st.var.op in rel:
                    new = set(x.op for x in walk(st.e) if x.k in ('var', 'mem')) - rel
                    if new:
                        rel |= new
                        changed = True
        self.relevant = rel | set(st.var.op for st in walk_stmts(fn.body) if st.k == 'decl' and st.var is not None and
                                  array_size(st.var) is not None)
        # arrays initialised from a string literal (and so NUL-terminated inside the array): strlen(a) <= sizeof(a) - 1
        self.literal_arrays = {}
        self.arrays = {}
        for st in walk_stmts(fn.body):
            if st.k == 'decl' and st.var is not None and array_size(st.var) is not None:
                self.arrays[st.var.op] = array_size(st.var)
        for ex in all_exprs(fn):
            for n in walk(ex):
                if n.k == 'var' and array_size(n) is not None:
                    self.arrays.setdefault(n.op, array_size(n))
        for st in walk_stmts(fn.body):
            if st.k == 'decl' and st.var is not None and array_size(st.var) is not None and st.e is not None:
                ie = strip(st.e)
                while ie is not None and ie.k in ('init',) and len(ie.a) == 1:
                    ie = strip(ie.a[0])
                if ie is not None and ie.k == 'str':
                    self.literal_arrays[st.var.op] = array_size(st.var)

    def cons(self, ts):
        return [x[1] for x in ts if isinstance(x, tuple) and len(x) == 2 and x[0] == 'c']

    def on_node(self, ctx, node, ts):
        ts = SymRule.on_node(self, ctx, node, ts)
        if ctx.fn is self.fn and node.loop is not None:
            tag = '@L%d' % node.line
            ts = frozenset(x for x in ts if not (isinstance(x, tuple) and len(x) == 2 and x[0] == 'c' and
                                                 (self.light or any(tag in k for k in x[1].t))))
        return ts

    def on_edge(self, ctx, node, label, refined, ts):
        if ctx.fn is not self.fn:
            return ts
        op, l, r = atom_cmp(node.e, label)
        names = set(n.op for x in (l, r) for n in walk(x) if n.k in ('var', 'mem') and
                    getattr(n, 'dk', None) not in ('FunctionDecl', 'EnumConstantDecl'))
        if not names or not names <= self.relevant:
            return ts
        lv, rv = self.value(l, ts), self.value(r, ts)
        if lv is not None and rv is not None and (lv.t or rv.t):
            for c in cons_of(op, lv, rv):
                ts = ts | frozenset([('c', c)])
        return ts

    def resolve(self, e, ts):
        """e -> (array name, size, offset Lin) when e points into a fixed-size array of this function: the array
        itself, array + off, &array[off], or a local pointer whose current value is one of those"""
        sb = split_base(e)
        if sb is not None:
            off = Lin(None, 0) if sb[1] is None else self.value(sb[1], ts)
            return sb[0].op, array_size(sb[0]), off
        v = self.value(e, ts)
        if v is None:
            return None
        bases = [k for k, c in v.t.items() if k.startswith('&A:')]
        if len(bases) != 1 or v.t[bases[0]] != 1:
            return None
        name = bases[0][3:]
        return name, self.arrays.get(name), v - Lin({bases[0]: 1})

    def subscripts(self, ctx, e, ts):
        for n in walk(e):
            if n.k == 'idx':
                r = self.resolve(n.a[0], ts)
                if r is not None and r[1] is not None:
                    iv = self.value(n.a[1], ts)
                    self.check(ctx, n, r, None if (iv is None or r[2] is None) else r[2] + iv, Lin(None, 1),
                               'subscript %s' % show(n)[:40], ts)

    def sym_assign(self, ctx, lhs, rhs, op, ts):
        if ctx.fn is self.fn:
            self.subscripts(ctx, lhs, ts)
            if rhs is not None:
                self.subscripts(ctx, rhs, ts)
            l = strip(lhs)
            if l is not None and l.k == 'var' and l.decl in self.locals and op == '=' and rhs is not None and \
                    array_size(l) is None:
                sb = split_base(rhs)
                if sb is not None:
                    off = Lin(None, 0) if sb[1] is None else self.value(sb[1], ts)
                    ts = self.set_key(ts, ('v', l.decl), None if off is None else Lin({'&A:' + sb[0].op: 1}) + off)
        # contract of the read primitives: the count returned never exceeds the count asked for
        if ctx.fn is self.fn and rhs is not None and op == '=':
            r = strip(rhs)
            while r is not None and r.k == 'cast' and r.a:
                r = strip(r.a[0])
            if r is not None and r.k == 'call' and callee_name(r) in READ_CONTRACT:
                li = READ_CONTRACT[callee_name(r)]
                if li < len(r.a[1:]):
                    lv = self.value(r.a[1:][li], ts)
                    rv = self.value(lhs, ts)
                    if lv is not None and rv is not None:
                        ts = ts | frozenset([('c', lv - rv)])
        return ts

    def bound_terms(self, over, ts):
        extra = []
        syms = set(k for c in self.cons(ts) for k in c.t) | set(over.t)
        for k in syms:
            extra.append(Lin({k: 1}))            # sizes and lengths are unsigned
            m = re.match(r'^strlen\((\w+)\)$', k)
            if m and m.group(1) in self.literal_arrays:
                extra.append(Lin({k: -1}, self.literal_arrays[m.group(1)] - 1))
            f = k.replace('.', '->').split('->')[-1].split('@')[0].split('#')[0]
            if ('->' in k or '.' in k) and f in self.doms and '@' not in k and '#' not in k:
                extra.append(Lin({k: -1}, max(self.doms[f])))
        return extra

    def check(self, ctx, call, res, off, need, what, ts):
        class _A(object):
            pass
        arr = _A()
        arr.op, size = res[0], res[1]
        if off is None or need is None:
            self.skipped += 1
            return
        self.checked += 1
        self.sites.add((call.line, arr.op))
        over = off + need - Lin(None, size) - Lin(None, 1)
        w = fm_feasible(self.cons(ts) + [over] + self.bound_terms(over, ts))
        if w is not None:
            self.violate(ctx, 'overrun', '%s accesses %r byte(s) at offset %r of %s, which is %d bytes long: nothing on this '
                         'path keeps the access inside the array (e.g. %s)' % (
                             what, need, off, arr.op, size, ', '.join('%s=%s' % kv for kv in sorted(w.items())[:4]) or
                             'constants'), inst='%s->%s' % (what.split('(')[0], arr.op))

    def sym_call(self, ctx, call, ts):
        if ctx.fn is not self.fn:
            return ts
        n = callee_name(call)
        args = call.a[1:]
        if n in PRIMS:
            for bi, li in PRIMS[n]:
                if max(bi, li) >= len(args):
                    continue
                r = self.resolve(args[bi], ts)
                if r is None or r[1] is None:
                    continue
                ln = self.value(args[li], ts)
                self.check(ctx, call, r, r[2], ln, '%s()' % n, ts)
            return ts
        if not n:
            return ts
        for q, (g, needs) in self.sums.items():
            if g.name != n:
                continue
            targets, _ = self.prog.call_targets(self.fn, call)
            if g not in targets:
                continue
            for pi, forms in needs.items():
                if pi >= len(args):
                    continue
                r = self.resolve(args[pi], ts)
                if r is None or r[1] is None:
                    continue
                for form in forms:
                    need = Lin(None, form.c)
                    ok = True
                    for term, coef in form.t.items():
                        idx = [i for i, p in enumerate(g.params) if p.op == term]
                        if not idx or idx[0] >= len(args):
                            ok = False
                            break
                        v = self.value(args[idx[0]], ts)
                        if v is None:
                            ok = False
                            break
                        need = need + v.scale(coef)
                    self.check(ctx, call, r, r[2], need if ok else None,
                               '%s() (which touches %r byte(s) behind its parameter %s)' % (n, form, g.params[pi].op), ts)
        return ts


def check_array_extents(ck, prog, config, clause, scope='lib', units=None):
    sums = summaries(prog)
    doms = fielddom.by_name(prog)
    funcs = prog.lib_funcs() if scope == 'lib' else [f for f in prog.funcs.values() if not prog.is_lib_unit(f.unit)] \
        if scope == 'tools' else list(prog.funcs.values())
    total = 0
    sumnames = set(g.name for g, _ in sums.values())
    for fn in sorted(funcs, key=lambda f: f.qname):
        if fn.body is None:
            continue
        if units is not None and not any(fn.unit.endswith(u) for u in units):
            continue
        hit = False
        for ex in all_exprs(fn):
            for c in calls_in(ex):
                cn = callee_name(c)
                if cn in PRIMS or cn in sumnames:
                    if any(split_base(a) is not None for a in c.a[1:]):
                        hit = True
        if not hit:
            for ex in all_exprs(fn):
                for n in walk(ex):
                    if n.k == 'idx' and strip(n.a[0]) is not None and strip(n.a[0]).k == 'var' and \
                            array_size(strip(n.a[0])) is not None and const_value(n.a[1]) is None:
                        hit = True
        if not hit:
            # a local pointer set to a fixed-size array (helpers expanded in place bind their parameters like this)
            for st in walk_stmts(fn.body):
                if st.k == 'decl' and st.e is not None and st.var is not None and array_size(st.var) is None and \
                        split_base(st.e) is not None:
                    hit = True
        if not hit:
            continue
        from ..frontend import AnalysisBroken
        r = ArrayExtent(prog, fn, sums, doms)
        try:
            run_rule(prog, fn, r)
        except AnalysisBroken:
            # too many distinct constraint sets (long scanners): second attempt with the names of the accesses only and
            # no facts carried around loops; what that cannot prove either is recorded as undecided, not as a finding
            r = ArrayExtent(prog, fn, sums, doms, light=True)
            try:
                run_rule(prog, fn, r)
            except AnalysisBroken:
                ck.info(clause, 'R4.array-extent', fn.name, 'undecided', 'state space too large in both modes: array '
                        'accesses of this function are not decided', fn.file, fn.line)
                continue
            if r.violations:
                ck.info(clause, 'R4.array-extent', fn.name, 'undecided', 'light mode (no facts across loop iterations) '
                        'cannot bound %d access(es), e.g. %s; not reported' % (len(r.violations), r.violations[0].msg[:160]),
                        fn.file, fn.line)
                r.violations = []
        total += len(r.sites)
        by = {}
        for v in r.violations:
            by.setdefault(v.inst, v)
        if not by:
            ck.ob(clause, 'R4.array-extent', fn.name, 'arrays', True,
                  '%d (call, array) site(s), %d path state(s): every access stays inside the fixed-size array (%d with a '
                  'non-linear length skipped)' % (len(r.sites), r.checked, r.skipped), fn.file, fn.line, config=config)
        for inst, v in sorted(by.items()):
            ck.ob(clause, 'R4.array-extent', fn.name, inst, False, v.msg, v.node.file, v.node.line, path=v.path,
                  config=config)
    return total

"""Protocol-order typestate over zckdl's main() (serves C04, C11, C12)."""
from ..flow import M1, NEG, Z, P1, POS, POSITIVE, TOP, NONNEG, mask_str, Engine
from ..ir import strip, strip_transparent, show, callee_name, const_value, walk, calls_in
from ..program import unique_defs
from .common import FactRule, run_rule, calls_of, pstr, last_field, atom_cmp, origin_names
from . import errdisc


class DlMain(FactRule):
    name = 'R2.protocol'

    def __init__(self, prog, fn):
        FactRule.__init__(self, prog, fn)
        self.zero_exits = 0
        self.range_calls = 0
        self.seen = set()

    def after_call(self, ctx, call, ts, mask):
        if ctx.fn is not self.fn:
            return ts
        n = callee_name(call)
        self.seen.add(n)
        # the scan and the copy mark chunks failed (-1): a reset that came before them does not cover those
        if n == 'zck_find_valid_chunks':
            ts = (ts - frozenset(['reset'])) | frozenset(['scanned'])
        elif n == 'zck_copy_chunks':
            ts = (ts - frozenset(['reset'])) | frozenset(['copied'])
        elif n == 'zck_reset_failed_chunks':
            ts = ts | frozenset(['reset'])
        elif n == 'ftruncate':
            a = strip(call.a[2])
            if a is not None and a.k == 'call' and callee_name(a) == 'zck_get_length':
                ts = ts | frozenset(['truncated'])
            elif const_value(call.a[2]) == 0:
                ts = ts | frozenset(['emptied'])
        elif n == 'dl_header':
            ts = ts | frozenset(['started'])
        elif n == 'dl_byte_range':
            ts = ts | frozenset(['full-download'])
        elif n == 'dl_range':
            ts = (ts - frozenset(['none-missing', 'truncated'])) | frozenset(['fetched'])
        elif n in ('exit', '_exit'):
            if ctx.value(call.a[1]) & Z:
                self.exit0(ctx, ts, 'exit(%s)' % show(call.a[1]))
            return None
        return ts

    def on_assign(self, ctx, lhs, rhs, op, value, ts):
        # locals that hold a constant (a parameter of an expanded helper bound to a literal argument)
        if ctx.fn is self.fn and strip(lhs) is not None and strip(lhs).k == 'var' and op == '=':
            d_ = strip(lhs).decl
            ts = frozenset(x for x in ts if not (isinstance(x, tuple) and x[0] == 'kconst' and x[1] == d_))
            cv_ = const_value(rhs) if rhs is not None else None
            if cv_ is not None:
                ts = ts | frozenset([('kconst', d_, cv_)])
        if ctx.fn is self.fn and last_field(lhs) == 'fail_no_ranges' and strip(lhs).k == 'mem' and op == '=':
            self.rejects200 = getattr(self, 'rejects200', 0) + 1
            cv = const_value(rhs) if rhs is not None else None
            if cv is None and rhs is not None:
                r_ = strip(rhs)
                while r_ is not None and r_.k == 'cast' and r_.a:
                    r_ = strip(r_.a[0])
                if r_ is not None and r_.k == 'var':
                    for x in ts:
                        if isinstance(x, tuple) and x[0] == 'kconst' and x[1] == r_.decl:
                            cv = x[2]
            if cv is not None and cv != 0:
                ts = ts | frozenset(['reject-200'])
            else:
                ts = ts - frozenset(['reject-200'])
        return ts

    def on_call(self, ctx, call, ts):
        if ctx.fn is not self.fn:
            return ts
        n = callee_name(call)
        if n == 'dl_range' and 'reject-200' not in ts:
            self.violate(ctx, 'range-accepts-200', 'dl_range() is reachable with the download context\'s fail_no_ranges '
                         'not set to a non-zero constant: a server that answers 200 with the whole file (too many '
                         'ranges) has its body fed to the range write callback, which maps the bytes to chunks by '
                         'counting - chunks are filled from the wrong bytes, fail and are zeroed, instead of the '
                         'request being retried with fewer ranges', inst='reject-200')
        if n == 'zck_get_missing_range':
            self.range_calls += 1
            if 'scanned' not in ts:
                self.violate(ctx, 'range-before-scan', 'zck_get_missing_range() reachable before '
                             'zck_find_valid_chunks(): chunks already on disk would be fetched again and a partially '
                             'written chunk is not re-derived from checksums', inst='scan-first')
            if 'copied' not in ts and 'no-source' not in ts:
                self.violate(ctx, 'range-before-copy', 'zck_get_missing_range() reachable before zck_copy_chunks(): '
                             'chunks present in the local source would be fetched', inst='copy-first')
            if 'reset' not in ts:
                self.violate(ctx, 'range-before-reset', 'zck_get_missing_range() reachable without a '
                             'zck_reset_failed_chunks() after the last scan/copy: chunks they marked failed (a source '
                             'chunk whose bytes do not match its checksum) are never requested',
                             inst='reset-failed')
            if 'missing>0' not in ts:
                self.violate(ctx, 'range-unconditional', 'range requested without a preceding zck_missing_chunks() > 0 '
                             'test', inst='loop-condition')
        return ts

    def on_edge(self, ctx, node, label, refined, ts):
        if ctx.fn is not self.fn:
            return ts
        for expr, origins, before, after in refined:
            names = origin_names(origins)
            if 'zck_find_valid_chunks' in names and after == P1:
                ts = ts | frozenset(['scan-all-valid'])
            if 'zck_validate_data_checksum' in names and after == P1:
                ts = ts | frozenset(['validated'])
            if 'zck_missing_chunks' in names:
                if after & ~POSITIVE == 0:
                    ts = (ts - frozenset(['none-missing'])) | frozenset(['missing>0'])
                elif after & POSITIVE == 0:
                    ts = (ts - frozenset(['missing>0'])) | frozenset(['none-missing'])
            if 'zck_failed_chunks' in names and after == Z:
                ts = ts | frozenset(['none-failed'])
        op, l, r = atom_cmp(node.e, label)
        if pstr(l) == 'zck_src' and op == '==' and const_value(r) == 0:
            ts = ts | frozenset(['no-source'])
        return ts

    def exit0(self, ctx, ts, what):
        if 'started' not in ts:
            return     # option parsing exits (--help/--version): nothing was downloaded
        self.zero_exits += 1
        if 'full-download' in ts:
            gates = ['validated']
        else:
            gates = []
        # whole-file gate
        if not (ts & frozenset(['validated', 'scan-all-valid'])):
            self.violate(ctx, 'exit0-unvalidated', '%s with status 0 without a whole-file gate '
                         '(zck_validate_data_checksum() == 1 or zck_find_valid_chunks() == 1)' % what, inst='gate')
        if 'truncated' not in ts:
            self.violate(ctx, 'exit0-untruncated', '%s with status 0 without ftruncate(dst_fd, zck_get_length(tgt)): a '
                         'longer pre-existing target keeps its tail' % what, inst='truncate')
        if 'full-download' not in ts and 'scan-all-valid' not in ts and 'none-missing' not in ts:
            self.violate(ctx, 'exit0-missing', '%s with status 0 while chunks may still be missing (the fetch loop is '
                         'not conditioned on zck_missing_chunks() > 0)' % what, inst='complete')

    def on_return(self, ctx, node, mask, ts):
        if ctx.fn is self.fn and mask & Z:
            self.exit0(ctx, ts, 'return')
        return ts


def dl_main(prog):
    ms = [f for f in prog.by_name.get('main', []) if f.unit.endswith('zck_dl.c')]
    return ms[0] if len(ms) == 1 else None


def check_protocol(ck, prog, config, clauses):
    """clauses: dict inst -> clause id to report under (only listed insts are reported)."""
    fn = dl_main(prog)
    ck.require(fn is not None, 'zckdl main() not found')
    r = DlMain(prog, fn)
    run_rule(prog, fn, r)
    ck.require(r.zero_exits >= 1, 'zckdl main has no exit with status 0')
    ck.require(r.range_calls >= 1, 'zckdl main no longer calls zck_get_missing_range')
    for need in ('zck_find_valid_chunks', 'zck_copy_chunks', 'zck_reset_failed_chunks', 'zck_missing_chunks',
                 'dl_range', 'ftruncate', 'zck_validate_data_checksum'):
        ck.require(need in r.seen, 'zckdl main no longer calls %s' % need)
    by = {}
    for v in r.violations:
        by.setdefault(v.inst, v)
    texts = {
        'scan-first': 'zck_find_valid_chunks(tgt) precedes every zck_get_missing_range()',
        'copy-first': 'zck_copy_chunks(src, tgt) (when a source is given) precedes every zck_get_missing_range()',
        'reset-failed': 'zck_reset_failed_chunks() lies between the scan/copy and the fetch loop',
        'loop-condition': 'ranges are requested only while zck_missing_chunks() > 0',
        'gate': 'exit status 0 only through a whole-file gate',
        'truncate': 'exit status 0 only after ftruncate(dst_fd, zck_get_length(tgt))',
        'complete': 'exit status 0 only when no chunk is missing',
        'reject-200': 'every range request is made with fail_no_ranges set: a 200 answer aborts the transfer instead of '
                      'being written as range data',
    }
    if 'reject-200' in clauses:
        ck.require(getattr(r, 'rejects200', 0) >= 1, 'zckdl main no longer sets fail_no_ranges on its download context')
    for inst, clause in clauses.items():
        v = by.get(inst)
        ck.ob(clause, 'R2.protocol', 'zckdl main', inst, v is None, texts[inst] if v is None else v.msg, fn.file,
              v.node.line if v else fn.line, path=v.path if v else None, config=config)
    return r


def check_open_flags(ck, prog, config, clause):
    fn = dl_main(prog)
    O_TRUNC = 0o1000
    n = 0
    for c in calls_of(fn, ('open',)):
        fl = const_value(c.a[2])
        if fl is None:
            continue
        if fl & 0o3 == 0:
            continue   # O_RDONLY: the source
        n += 1
        ck.ob(clause, 'R7.open-flags', 'zckdl main', 'target-open', fl & O_TRUNC == 0,
              'target opened with flags %#o: %s' % (fl, 'no O_TRUNC (what is on disk is kept for the validity scan)'
                                                    if fl & O_TRUNC == 0 else 'O_TRUNC discards every chunk already '
                                                    'downloaded'), c.file, c.line, config=config)
    ck.min_instances('writable open() in zckdl main', n, 1)


def check_dl_errors(ck, prog, config, clause):
    """dl_range / dl_header / dl_byte_range failures leave with a non-zero status."""
    fn = dl_main(prog)
    convs = errdisc.Conventions(prog)
    n = 0
    for name in ('dl_range', 'dl_header', 'dl_byte_range', 'zck_copy_chunks', 'zck_find_valid_chunks',
                 'zck_validate_data_checksum', 'ftruncate', 'zck_read_lead', 'zck_read_header'):
        for c in calls_of(fn, (name,)):
            n += 1
            t = prog.resolve_direct(fn, name)
            conv = errdisc.CONVENTIONS.get(name) or (convs.of_func(t) if t else 'neg')
            mask = convs.masks(t) if t is not None else errdisc.EXTERN_MASKS.get(name, TOP)
            for which in ('io', 'verify'):
                if conv != 'tri' and which == 'verify':
                    continue
                if name == 'zck_find_valid_chunks' and which == 'verify':
                    continue   # -1 = "some chunks are not valid yet": the normal outcome before fetching
                rule = errdisc.SiteRule(prog, convs, fn, c, name, conv, mask, 'exit0', unique_defs(fn), which)
                Engine(prog, rule).summary(fn, 'pre')
                ck.ob(clause, 'R1.errdisc', 'zckdl main', '%s#%d:%s' % (name, n, which), not rule.violations,
                      'failure of %s leads to a non-zero exit status' % name if not rule.violations else
                      'failure of %s can end in exit status 0: %s' % (name, rule.violations[0]['what']),
                      c.file, c.line, config=config)
    ck.min_instances('checked calls in zckdl main', n, 8)


# ------------------------------------------------------------------ R7.fd-cursor
def check_fd_cursor(ck, prog, config, clause):
    """A tool function that takes the descriptor of a context the library is reading (zck_get_fd) and repositions it
    (lseek SEEK_SET, or a transfer that writes through it) must hand it back where the library left it: every
    success exit is reached with the last repositioning being lseek(fd, <offset saved by lseek(fd, 0, SEEK_CUR)>,
    SEEK_SET).  The library reads sequentially and may have read ahead (read_lead reads 25 bytes of a 23-byte lead);
    a computed position puts its cursor out of step with what it has buffered."""
    n = 0
    for fn in sorted(prog.funcs.values(), key=lambda f: f.qname):
        if not fn.unit.endswith('src/zck_dl.c') or fn.body is None:
            continue
        fds = set()
        for s in walk_stmts_(fn.body):
            if s.k == 'decl' and s.e is not None and any(callee_name(c) == 'zck_get_fd' for c in calls_in(s.e)):
                fds.add(s.var.decl)
        if not fds:
            continue

        class Cur(FactRule):
            name = 'R7.fd-cursor'

            def __init__(s, prog, fn):
                FactRule.__init__(s, prog, fn)
                s.seeks = 0

            def is_fd(s, e):
                e = strip(e)
                return e is not None and e.k == 'var' and e.decl in fds

            def on_call(s, c2, call, ts):
                if c2.fn is not s.fn:
                    return ts
                nm = callee_name(call)
                if nm == 'lseek' and s.is_fd(call.a[1]):
                    whence = const_value(call.a[3])
                    if whence == 0:       # SEEK_SET
                        s.seeks += 1
                        off = strip(call.a[2])
                        if off is not None and off.k == 'var' and ('saved', off.decl) in ts:
                            ts = (ts - frozenset(['moved'])) | frozenset(['restored'])
                        else:
                            ts = (ts - frozenset(['restored'])) | frozenset(['moved'])
                elif nm in ('dl_byte_range', 'dl_range', 'dl_bytes'):
                    ts = (ts - frozenset(['restored'])) | frozenset(['moved'])
                return ts

            def on_assign(s, c2, lhs, rhs, op, value, ts):
                if c2.fn is not s.fn:
                    return ts
                ts = s.kill_terms(lhs, ts)
                if rhs is None:
                    return ts
                l = strip(lhs)
                r = strip(rhs)
                while r is not None and r.k == 'cast' and r.a:
                    r = strip(r.a[0])
                if l is not None and l.k == 'var':
                    ts = frozenset(x for x in ts if not (isinstance(x, tuple) and x[0] == 'saved' and x[1] == l.decl))
                    if r is not None and r.k == 'call' and callee_name(r) == 'lseek' and s.is_fd(r.a[1]) and \
                            const_value(r.a[2]) == 0 and const_value(r.a[3]) == 1 and 'moved' not in ts:
                        ts = ts | frozenset([('saved', l.decl)])
                return ts

            def on_edge(s, c2, node, label, refined, ts):
                # linear comparison facts, used only to discard exits that contradict an earlier test
                if c2.fn is not s.fn:
                    return ts
                from .common import lin
                from .bounds import cons_of
                op, l, r = atom_cmp(node.e, label)
                lv, rv = lin(l, None), lin(r, None)
                if lv is not None and rv is not None and (lv.t or rv.t):
                    for c in cons_of(op, lv, rv):
                        ts = ts | frozenset([('c', c)])
                return ts

            def kill_terms(s, lhs, ts):
                p = pstr(lhs)
                return frozenset(x for x in ts if not (isinstance(x, tuple) and x[0] == 'c' and p in x[1].t))

            def feasible(s, ts):
                from .guardlen import fm_feasible
                cons = [x[1] for x in ts if isinstance(x, tuple) and len(x) == 2 and x[0] == 'c']
                return not cons or fm_feasible(cons) is not None

            def on_return(s, c2, node, mask, ts):
                if c2.fn is s.fn and mask & (P1 | POS) and 'moved' in ts and s.feasible(ts):
                    s.violate(c2, 'cursor-moved', '%s() returns success after repositioning the descriptor of a context the '
                              'library is reading, without putting it back at the offset the library left (saved with '
                              'lseek(fd, 0, SEEK_CUR) before the first move): the library continues at a position that does '
                              'not match the bytes it has already buffered - the header is read misaligned and its '
                              'checksum fails (overall checksum type SHA-512/128: lead shorter than the 25 bytes read '
                              'ahead)' % s.fn.name, inst='restore', node=node)
                return ts
        r = Cur(prog, fn)
        run_rule(prog, fn, r)
        n += r.seeks
        ck.ob(clause, 'R7.fd-cursor', fn.name, 'restore', not r.violations,
              '%d repositioning(s) of the library\'s descriptor, every success exit restores the saved offset' % r.seeks
              if not r.violations else r.violations[0].msg, fn.file,
              r.violations[0].node.line if r.violations else fn.line,
              path=r.violations[0].path if r.violations else None, config=config)
    ck.min_instances('repositionings of a library descriptor in zckdl', n, 2)


def walk_stmts_(b):
    from ..ir import walk_stmts
    return walk_stmts(b)

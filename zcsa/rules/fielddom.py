"""Field value sets (flow-insensitive) and the two rules that use them.

field_domains(prog): for every struct field of the repository, the set of integer constants that can ever be stored in
it, when *every* store to it in the whole program is a constant, a copy of another such field, a parameter whose
every call-site argument is such a value, or a conditional of those; None when some store is anything else (a decoded
value, a call result, arithmetic, address taken).  Zero is always a member (objects are zero-allocated).

R9.bitfield-width   a bit-field whose value set is known holds every member of it (otherwise the store truncates
                    silently: the value read back differs from the value written).
"""
import re
from ..ir import strip, walk, walk_stmts, const_value, callee_name
from ..program import all_exprs, is_assign_op


def _rec_of(base):
    t = (getattr(base, 'dt', None) or base.t or '')
    t = t.replace('const ', '').replace('struct ', '').replace('*', '').replace('volatile ', '').strip()
    return t


def _key(mem):
    b = strip(mem.a[0]) if mem.a else None
    return (_rec_of(b) if b is not None else '?', mem.op)


def field_domains(prog):
    if getattr(prog, '_fielddom', None) is not None:
        return prog._fielddom
    stores = {}        # key -> list of (fn, rhs expr or None (=unknown))
    for fn in prog.funcs.values():
        for ex in all_exprs(fn):
            for n in walk(ex):
                if n.k == 'bin' and is_assign_op(n.op):
                    l = strip(n.a[0])
                    if l is not None and l.k == 'mem':
                        stores.setdefault(_key(l), []).append((fn, n.a[1] if n.op == '=' else None))
                elif n.k == 'un' and n.op in ('++', '--'):
                    l = strip(n.a[0])
                    if l is not None and l.k == 'mem':
                        stores.setdefault(_key(l), []).append((fn, None))
                elif n.k == 'un' and n.op == '&':
                    l = strip(n.a[0])
                    if l is not None and l.k == 'mem':
                        stores.setdefault(_key(l), []).append((fn, None))
    callers = prog.callers()
    memo_param = {}

    def defs_of_local(fn, decl):
        out = []
        for st in walk_stmts(fn.body):
            if st.k == 'decl' and st.var is not None and st.var.decl == decl:
                out.append(st.e)            # None: uninitialised declaration (no value)
        for ex in all_exprs(fn):
            for n in walk(ex):
                if n.k == 'bin' and is_assign_op(n.op):
                    l = strip(n.a[0])
                    if l is not None and l.k == 'var' and l.decl == decl:
                        out.append(n.a[1] if n.op == '=' else False)
                elif n.k == 'un' and n.op in ('++', '--', '&'):
                    l = strip(n.a[0])
                    if l is not None and l.k == 'var' and l.decl == decl:
                        out.append(False)
        return out

    dom = {}
    state = {'changed': True}

    def val(fn, e, depth=0):
        """-> set of ints, or None (unknown).  Uses the current approximation of dom (grows monotonically)."""
        if e is None:
            return set()
        if e is False or depth > 8:
            return None
        e = strip(e)
        cv = const_value(e)
        if cv is not None:
            return set([cv])
        if e.k == 'var' and e.dk == 'EnumConstantDecl' and e.val is not None:
            return set([e.val])
        if e.k == 'sizeof' and e.val is not None:
            return set([e.val])
        if e.k == 'mem':
            k = _key(e)
            if k not in stores:
                return None         # never stored in the repository: filled by someone else
            d = dom.get(k, set())
            return None if d is None else set(d)
        if e.k == 'cond' and len(e.a) == 3:
            a, b = val(fn, e.a[1], depth + 1), val(fn, e.a[2], depth + 1)
            return None if a is None or b is None else a | b
        if e.k == 'var' and e.dk == 'ParmVarDecl':
            idx = [i for i, p in enumerate(fn.params) if p.decl == e.decl]
            if not idx or defs_of_local(fn, e.decl):
                return None
            sites = callers.get(fn.qname, [])
            if not sites:
                return None
            if not fn.static and (any('visibility' in str(a).lower() for a in (fn.attrs or [])) or fn.name == 'main'):
                return None         # public entry point: callers outside the repository pass anything
            out = set()
            for cf, c in sites:
                if idx[0] + 1 >= len(c.a):
                    return None
                v = val(cf, c.a[idx[0] + 1], depth + 1)
                if v is None:
                    return None
                out |= v
            return out
        if e.k == 'var' and e.dk == 'VarDecl':
            ds = defs_of_local(fn, e.decl)
            if not ds:
                return None
            out = set()
            for d in ds:
                v = val(fn, d, depth + 1)
                if v is None:
                    return None
                out |= v
            return out
        return None

    for k in stores:
        dom[k] = set([0])
    for _ in range(12):
        changed = False
        for k, sl in stores.items():
            if dom[k] is None:
                continue
            new = set(dom[k])
            for fn, rhs in sl:
                v = None if rhs is None else val(fn, rhs)
                if v is None:
                    new = None
                    break
                new |= v
            if new != dom[k]:
                dom[k] = new
                changed = True
        if not changed:
            break
    # a field that depends on an unknown field is unknown: one more closure (val() returned the partial set before
    # the dependency turned unknown)
    for _ in range(12):
        changed = False
        for k, sl in stores.items():
            if dom[k] is None:
                continue
            for fn, rhs in sl:
                if rhs is None or val(fn, rhs) is None:
                    dom[k] = None
                    changed = True
                    break
        if not changed:
            break
    prog._fielddom = dom
    return dom


def by_name(prog):
    """field name -> set of ints when every record with a field of that name has a known set, else absent"""
    out = {}
    bad = set()
    for (rec, f), d in field_domains(prog).items():
        if d is None:
            bad.add(f)
        else:
            out.setdefault(f, set()).update(d)
    return dict((f, d) for f, d in out.items() if f not in bad)


def _fits(v, width, typ):
    signed = not ((typ or '').startswith('unsigned') or '_Bool' in (typ or '') or 'bool' == (typ or ''))
    if signed:
        return -(1 << (width - 1)) <= v <= (1 << (width - 1)) - 1
    return 0 <= v <= (1 << width) - 1


def check_bitfields(ck, prog, config, clause):
    """Every bit-field of a repository record: the constants known to be stored in it fit its width."""
    dom = field_domains(prog)
    n = 0
    for (rec, f), (width, typ) in sorted(prog.bitfields.items()):
        cands = [(k, d) for k, d in dom.items() if k[1] == f and (k[0] == rec or k[0].endswith(rec) or rec.endswith(k[0]))]
        n += 1
        if width is None:
            ck.require(False, 'bit-field %s.%s: width not a constant' % (rec, f))
        vals = set()
        unknown = False
        for k, d in cands:
            if d is None:
                unknown = True
                # still use the constants stored directly
            else:
                vals |= d
        bad = sorted(v for v in vals if not _fits(v, width, typ))
        ck.ob(clause, 'R9.bitfield-width', rec, f, not bad,
              'bit-field %s.%s:%d holds every value stored in it (%s)%s' % (
                  rec, f, width, sorted(vals)[:12], '; other stores are not constants (not decided)' if unknown else '')
              if not bad else
              'bit-field %s.%s is %d bits wide (%s) but the value(s) %s are stored in it (through the chain of copies '
              'that ends here): the field silently keeps %s instead, and everything reported or sized from it is wrong '
              'for those inputs' % (rec, f, width, typ, bad, [v & ((1 << width) - 1) for v in bad]),
              None, 0, config=config)
    return n

"""R6.segmentation-taint   the automatic chunk-end decision does not depend on how the content was cut into calls.

In the automatic loop of zck_write() a chunk ends where the rolling hash says so (or at the automatic maximum, measured
in bytes of the chunk so far).  Everything the decision reads must therefore be a function of the content and of
context state that is itself segmentation independent.  Quantities that describe *this call* are not:

  * the size parameter of the call and every local computed from it (bytes left in this call's buffer);
  * the position inside this call's buffer (a counter that restarts in every call), except where it is added to the
    chunk-size accumulator (`dc_data_size + i` = bytes of the chunk so far) or used to address content.

The rule takes every branch condition inside the loop that decides between "end the chunk here" and "go on scanning"
(the conditions enclosing the chunk-end call, and the ones that `continue`/`break` in front of it; error returns are
not chunking decisions), closes them under data dependence (definitions of the locals and context fields they read,
including out-parameters of calls, and the conditions that control those definitions inside the loop) and reports
the first call-local quantity in that slice.  Two deliveries of the same content that differ only in the sizes of the
write calls take different branches exactly where such a quantity differs.
"""
from ..ir import S, strip, walk, callee_name, const_value, show
from ..program import is_assign_op


def _children(s):
    out = []
    for attr in ('init', 'body', 'then', 'els'):
        x = getattr(s, attr)
        if isinstance(x, S):
            out.append(x)
        elif isinstance(x, list):
            out += [y for y in x if isinstance(y, S)]
    return out


def _stmts(s):
    if isinstance(s, list):
        for x in s:
            for y in _stmts(x):
                yield y
        return
    if s is None:
        return
    yield s
    for c in _children(s):
        for y in _stmts(c):
            yield y


def _exprs_of(s):
    out = []
    if s.e is not None:
        out.append(s.e)
    if s.inc is not None and not isinstance(s.inc, (S, list)):
        out.append(s.inc)
    return out


def _is_ptr(e):
    t = (getattr(e, 'dt', None) or e.t or '')
    return t.rstrip().endswith('*') or t.rstrip().endswith(']')


def _has_call(s, names):
    for st in _stmts(s):
        for ex in _exprs_of(st):
            for n in walk(ex):
                if n.k == 'call' and callee_name(n) in names:
                    return True
    return False


def _jumps(s):
    """does s contain a continue / break / goto (a jump that stays inside the function)?"""
    return any(st.k in ('continue', 'break', 'goto') for st in _stmts(s))


def _only_error_return(s):
    sts = [st for st in _stmts(s) if st.k not in ('compound', 'expr', 'null')]
    return bool(sts) and all(st.k == 'return' for st in sts)


class Slice(object):
    def __init__(self, fn, loop, acc_fields):
        self.fn = fn
        self.loop = loop
        self.acc_fields = acc_fields
        self.int_params = dict((p.decl, p.op) for p in fn.params if not (p.t or '').rstrip().endswith('*'))
        # definitions: decl -> list of (rhs exprs, statement); field name -> same
        self.defs = {}
        self.fdefs = {}
        self.ctrl = {}           # id(statement) -> list of enclosing if-conditions inside the loop
        self._index(fn.body, [])
        self._ctrl(loop.body if loop.k != 'do' else loop.body, [])
        self.counters = self._counters()

    def _add_def(self, lhs, rhs_list, st):
        l = strip(lhs)
        if l is None:
            return
        if l.k == 'var':
            self.defs.setdefault(l.decl, []).append((rhs_list, st, l.op))
        elif l.k == 'mem':
            self.fdefs.setdefault(l.op, []).append((rhs_list, st, l.op))

    def _index(self, s, stack):
        for st in _stmts(s):
            if st.k == 'decl' and st.var is not None:
                self._add_def(st.var, [st.e] if st.e is not None else [], st)
            for ex in _exprs_of(st):
                for n in walk(ex):
                    if n.k == 'bin' and is_assign_op(n.op):
                        rhs = [n.a[1]] + ([n.a[0]] if n.op != '=' else [])
                        self._add_def(n.a[0], rhs, st)
                    elif n.k == 'un' and n.op in ('++', '--'):
                        self._add_def(n.a[0], [], st)
                    elif n.k == 'call':
                        for i, a in enumerate(n.a[1:]):
                            sa = strip(a)
                            if sa is not None and sa.k == 'un' and sa.op == '&':
                                # out-parameter: the value depends on the other arguments
                                self._add_def(sa.a[0], [x for j, x in enumerate(n.a[1:]) if j != i], st)

    def _ctrl(self, s, conds):
        if isinstance(s, list):
            for x in s:
                self._ctrl(x, conds)
            return
        if s is None:
            return
        self.ctrl[id(s)] = list(conds)
        if s.k == 'if':
            self._ctrl(s.then, conds + [s.e])
            self._ctrl(s.els, conds + [s.e])
        else:
            for c in _children(s):
                self._ctrl(c, conds)

    def _counters(self):
        """integer locals every definition of which is a constant or a step of itself: positions inside this call"""
        out = {}
        for d, dl in self.defs.items():
            ok = bool(dl)
            name = dl[0][2] if dl else None
            for rhs, st, nm in dl:
                for r in rhs:
                    for n in walk(r):
                        if n.k == 'var' and n.decl != d and n.dk in ('VarDecl', 'ParmVarDecl'):
                            ok = False
                        if n.k in ('mem', 'call'):
                            ok = False
            if ok and any(not rhs for rhs, st, nm in dl):        # has a ++/-- step (or an empty initialiser)
                stepped = any(st_.k != 'decl' for rhs, st_, nm in dl if not rhs)
                if stepped:
                    out[d] = name
        return out

    def uses(self, e):
        """(kind, key, name, node) read by e in a value context: kind 'var' / 'field'"""
        out = []

        def go(n, addr):
            n0 = n
            n = strip(n)
            if n is None:
                return
            if n.k == 'var':
                if n.dk in ('VarDecl', 'ParmVarDecl') and not addr:
                    out.append(('var', n.decl, n.op, n))
                return
            if n.k == 'mem':
                out.append(('field', n.op, show(n), n))
                return
            if n.k == 'idx':
                go(n.a[0], True)
                go(n.a[1], True)
                return
            if n.k == 'bin' and n.op in ('+', '-') and (_is_ptr(n0) or _is_ptr(n) or any(_is_ptr(strip(x)) for x in n.a)):
                for x in n.a:
                    go(x, True)
                return
            if n.k == 'bin' and n.op == '+':
                # position + chunk-size accumulator: bytes of the chunk so far
                fl = [strip(x) for x in n.a]
                if any(x is not None and x.k == 'mem' and x.op in self.acc_fields for x in fl):
                    for x in n.a:
                        sx = strip(x)
                        if sx is not None and sx.k == 'var' and sx.decl in self.counters:
                            continue
                        go(x, addr)
                    return
            if n.k == 'call':
                for x in n.a[1:]:
                    go(x, addr)
                return
            for x in n.a:
                go(x, addr)
        go(e, False)
        return out

    def run(self, conds):
        """-> (tainted (name, why, line) or None, number of slice items)"""
        seen = set()
        work = []
        for c in conds:
            work.append((c, 'decision at line %d' % c.line))
        n_items = 0
        while work:
            e, why = work.pop()
            for kind, key, name, node in self.uses(e):
                if kind == 'var' and _is_ptr(node):
                    continue
                k = (kind, key)
                if kind == 'var' and key in self.int_params:
                    return (name, 'the size parameter of the call (%s)' % why, node.line), n_items
                if kind == 'var' and key in self.counters:
                    return (name, 'the position inside this call\'s buffer, outside the sum with the chunk-size '
                            'accumulator (%s)' % why, node.line), n_items
                if k in seen:
                    continue
                seen.add(k)
                n_items += 1
                dl = self.defs.get(key, []) if kind == 'var' else self.fdefs.get(key, [])
                for rhs, st, nm in dl:
                    for r in rhs:
                        work.append((r, '%s <- line %d <- %s' % (name, st.line, why)))
                    for c in self.ctrl.get(id(st), []):
                        work.append((c, 'controls the definition of %s at line %d <- %s' % (name, st.line, why)))
        return None, n_items


def check_segmentation_taint(ck, prog, config, clause, end_names, hash_update='buzhash_update', acc_fields=('dc_data_size',)):
    fn = prog.need_func('zck_write')
    loops = [s for s in _stmts(fn.body) if s.k in ('for', 'while', 'do') and _has_call(s.body, (hash_update,))
             and _has_call(s.body, end_names)]
    ck.require(len(loops) >= 1, 'zck_write: no loop that both rolls the hash (%s) and ends chunks (%s)' % (hash_update, '/'.join(end_names)))
    # innermost such loop
    loop = loops[-1]
    sl = Slice(fn, loop, acc_fields)
    conds = []

    def visit(s, stack):
        if isinstance(s, list):
            for x in s:
                visit(x, stack)
            return
        if s is None:
            return
        if s.k == 'if':
            branches = [b for b in (s.then, s.els) if b is not None]
            decides = any(_has_call(b, end_names) for b in branches) or \
                any(_jumps(b) and not _only_error_return(b) for b in branches)
            # a test of a call's result is an error check (of the compressor, of the hash window), not a chunking
            # decision, however the error path is spelled (return, or goto the end of a helper expanded in place)
            tests_call = any(n.k == 'call' for n in walk(s.e))
            if decides and not tests_call and not all(_only_error_return(b) for b in branches):
                conds.append(s.e)
            visit(s.then, stack)
            visit(s.els, stack)
            return
        for c in _children(s):
            visit(c, stack)
    visit(loop.body, [])
    ck.require(len(conds) >= 1, 'zck_write: no chunk-end decision found in the automatic loop')
    bad, n = sl.run(conds)
    ck.ob(clause, 'R6.segmentation-taint', fn.name, 'chunk-end-decision', bad is None,
          '%d decision condition(s) of the automatic loop and the %d local/field value(s) they depend on read only '
          'content, context state and the bytes of the chunk so far' % (len(conds), n) if bad is None else
          'the decision where an automatic chunk ends depends on %s: %s.  The same content delivered through write '
          'calls of other sizes is cut at other places' % (bad[0], bad[1]), fn.file, bad[2] if bad else loop.line,
          config=config)
    return len(conds)

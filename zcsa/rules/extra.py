"""Rules added after the second round of seeded changes (each is generic over the library and wired into
the property it is a necessary condition of).

R6.own-then-free     a local pointer stored into a struct field must not be freed on the same path while the
                     field still holds it (dangling carry-over state).
R10.nullable-field   a field that the reader allocates only under a flag must be used (as a copy source / hash key)
                     only under that flag of the owning context or a non-NULL test.
R6.reset-complete    every field of zckDL that the download callbacks both read and write is reset by
                     zck_dl_reset() (whole-struct memset, or one assignment per field).
R7.pure-range        computing the missing range does not write the target context; the walk starts at index.first.
R6.dict-consumed     import_dict succeeds with a non-empty dictionary chunk only after having read it.
R1.no-downgrade      after write_data() failed (fatal error), no non-fatal set_error() before the function returns.
"""
from ..flow import M1, NEG, Z, P1, POS
from ..ir import strip, strip_transparent, show, callee_name, callee_field, const_value, walk, walk_stmts, calls_in
from ..program import all_exprs, unique_defs, is_assign_op, rel
from .common import (FactRule, GuardRule, run_rule, calls_of, pstr, last_field, atom_cmp, origin_names,
                     assigned_fields, macro_invocations)
from ..frontend import repo_path


# ------------------------------------------------------------------ R6.own-then-free
# (function, field) pairs that are accepted, with the reason
OWN_EXCEPTIONS = {
    ('range_insert_new', 'next'): 'index_new_chunk() can fail here only on allocation failure (a chunk of an opened '
                                  'file never has digest_size 0): outside the quantifier of the properties (no fault '
                                  'injection on malloc)',
    ('range_insert_new', 'prev'): 'same as above',
}


class OwnRule(FactRule):
    name = 'R6.own-then-free'

    def __init__(self, prog, fn):
        FactRule.__init__(self, prog, fn)
        self.stores = 0

    def on_assign(self, ctx, lhs, rhs, op, value, ts):
        if ctx.fn is not self.fn:
            return ts
        l = strip(lhs)
        if l.k == 'mem' and op == '=' and rhs is not None:
            lp = pstr(lhs)
            # the field now holds something else
            ts = frozenset(x for x in ts if not (isinstance(x, tuple) and x[0] == 'held' and x[2] == lp))
            r = strip(rhs)
            if r.k == 'var' and r.dk == 'VarDecl' and (r.t or '').rstrip().endswith('*'):
                self.stores += 1
                ts = ts | frozenset([('held', r.decl, lp, r.op)])
            if r.k == 'call' and callee_name(r) in ('zmalloc', 'malloc', 'calloc', 'zrealloc', 'realloc'):
                ts = ts | frozenset([('fresh', lp)])
        elif l.k == 'var' and op == '=':
            # the local now points elsewhere: the field no longer shares its block with it
            ts = frozenset(x for x in ts if not (isinstance(x, tuple) and x[0] == 'held' and x[1] == l.decl))
            r = strip(rhs) if rhs is not None else None
            if r is not None and r.k == 'call' and callee_name(r) in ('zmalloc', 'malloc', 'calloc', 'zrealloc', 'realloc'):
                ts = ts | frozenset([('fresh', l.op)])
        return ts

    def on_edge(self, ctx, node, label, refined, ts):
        if ctx.fn is self.fn:
            for expr, origins, before, after in refined:
                names = origin_names(origins)
                for x in list(ts):
                    if isinstance(x, tuple) and x[0] == 'handed' and x[4] in names:
                        ts = ts - frozenset([x])
                        if after & Z == 0:       # the callee succeeded: it holds the block now
                            ts = ts | frozenset([('held', x[1], x[2], x[3])])
        return self.on_edge2(ctx, node, label, refined, ts)

    def on_edge2(self, ctx, node, label, refined, ts):
        # paths that exist only after an allocation failed are outside the quantifier of the properties this rule
        # serves (no fault injection on malloc): remember it
        if ctx.fn is self.fn:
            op, l, r = atom_cmp(node.e, label)
            if op == '==' and const_value(r) == 0:
                lp = pstr(l)
                if ('fresh', lp) in ts:
                    ts = ts | frozenset(['alloc-failed'])
        return ts

    def keeps(self, callee):
        """parameter index -> field path, for parameters the callee stores into a struct field (it keeps the block)"""
        cache = self.prog.__dict__.setdefault('_keeps_cache', {})
        if callee not in cache:
            res = {}
            fs = [f for f in self.prog.lib_funcs() if f.name == callee]
            if len(fs) == 1:
                f = fs[0]
                pidx = dict((p_.decl, i) for i, p_ in enumerate(f.params))
                for (l, r, op, node) in assigned_fields(f):
                    if op == '=' and r is not None:
                        sr = strip(r)
                        if sr is not None and sr.k == 'var' and sr.decl in pidx and (sr.t or '').rstrip().endswith('*'):
                            res[pidx[sr.decl]] = pstr(l)
            cache[callee] = res
        return cache[callee]

    def after_call(self, ctx, call, ts, mask):
        # a callee that stores a pointer parameter into a field has taken the block over (if it succeeded)
        if ctx.fn is self.fn:
            n = callee_name(call)
            if n and n != 'free':
                kp = self.keeps(n)
                for i, field in kp.items():
                    if i + 1 < len(call.a):
                        a = strip(call.a[i + 1])
                        if a is not None and a.k == 'var' and a.dk == 'VarDecl':
                            self.stores += 1
                            ts = ts | frozenset([('handed', a.decl, '%s (stored by %s())' % (field, n), a.op, n)])
        return ts

    def on_call(self, ctx, call, ts):
        if ctx.fn is self.fn and callee_name(call) == 'free' and len(call.a) > 1 and 'alloc-failed' not in ts:
            a = strip(call.a[1])
            if a.k == 'var':
                for x in ts:
                    if isinstance(x, tuple) and x[0] == 'held' and x[1] == a.decl:
                        self.violate(ctx, 'dangling', 'free(%s) while %s still holds the same block (stored at an earlier '
                                     'point of this path): the field dangles after the function returns' % (a.op, x[2]),
                                     inst='%s' % x[2].split('->')[-1])
        return ts


def check_own_then_free(ck, prog, config, clause, units=None):
    n = 0
    for fn in sorted(prog.lib_funcs(), key=lambda f: f.qname):
        if units and not any(fn.unit.endswith(u) for u in units):
            continue
        if not calls_of(fn, ('free',)):
            continue
        r = OwnRule(prog, fn)
        direct = any(strip(r_).k == 'var' and (strip(r_).t or '').rstrip().endswith('*')
                     for (l, r_, op, node) in assigned_fields(fn) if r_ is not None and op == '=')
        handed = False
        for ex in all_exprs(fn):
            for c in calls_in(ex):
                cn = callee_name(c)
                if cn and cn != 'free' and r.keeps(cn):
                    handed = True
        if not direct and not handed:
            continue
        run_rule(prog, fn, r)
        n += 1
        by = {}
        for v in r.violations:
            by.setdefault(v.inst, v)
        if not by:
            ck.ob(clause, 'R6.own-then-free', fn.name, 'stored-pointers', True,
                  '%d store(s) of a local pointer into a field; none is freed while the field holds it' % r.stores,
                  fn.file, fn.line, config=config)
        for inst, v in sorted(by.items()):
            exc = OWN_EXCEPTIONS.get((fn.name, inst))
            if exc:
                ck.ob(clause, 'R6.own-then-free', fn.name, inst, True, 'named exception: ' + exc, v.node.file,
                      v.node.line, config=config)
                continue
            ck.ob(clause, 'R6.own-then-free', fn.name, inst, False, v.msg, v.node.file, v.node.line, path=v.path,
                  config=config)
    return n


# ------------------------------------------------------------------ R10.nullable-field
def check_nullable_key(ck, prog, config, clause, field='digest_uncompressed', flag='has_uncompressed_source'):
    """Uses of <chunk>->field as HASH_FIND key or memcpy source need, on every path, <owner>->flag != 0 or
    <chunk>->field != NULL, where owner is the context the chunk list was taken from."""
    n = 0
    for fn in sorted(prog.lib_funcs(), key=lambda f: f.qname):
        subst = unique_defs(fn)
        uses = []
        for line, args in macro_invocations(repo_path(fn.unit), 'HASH_FIND'):
            if fn.line <= line <= fn.endline and len(args) == 5 and args[2].endswith('->' + field):
                uses.append((line, args[2], 'HASH_FIND key'))
        for c in calls_of(fn, ('memcpy',)):
            src = pstr(c.a[2], subst)
            if src.endswith('->' + field):
                uses.append((c.line, src, 'memcpy source'))
        if not uses:
            continue
        for line, keypath, what in uses:
            n += 1
            chunk = keypath.rsplit('->', 1)[0]
            # owner of the chunk: root of the expression the chunk variable (or its list head) was taken from
            owner = None
            for s in walk_stmts(fn.body):
                if s.k == 'decl' and s.var.op == chunk.split('->')[0] and s.e is not None and \
                        not any(x.k == 'call' for x in walk(s.e)):
                    p = pstr(s.e, subst)
                    if const_value(s.e) is None and strip(s.e).k != 'null':
                        owner = p.lstrip('&*').split('->')[0].split('.')[0]
            patterns = [
                ('flag', lambda op, lp, rp, owner=owner: lp.endswith('->' + flag) and op == '!=' and rp == '#0' and
                 (owner is None or lp.lstrip('&*').split('->')[0] == owner)),
                ('nonnull', lambda op, lp, rp, keypath=keypath: lp == keypath and op == '!=' and rp == '#0'),
            ]
            gr = GuardRule(prog, fn, patterns, vocab=(flag, field), inline=False)
            hit = []

            def gnode(c2, node, ts, gr=gr, line=line, hit=hit):
                if c2.fn is gr.fn and node.line == line and node.k in ('stmt', 'decl', 'branch'):
                    hit.append(1)
                    have = gr.have(ts)
                    if 'flag' not in have and 'nonnull' not in have:
                        gr.violate(c2, 'null-key', '%s %s is used without %s->%s being set or the pointer being tested: '
                                   'index_read() allocates it only under that flag, so it may be NULL' % (
                                       what, keypath, owner or 'the owning context', flag), inst=keypath)
                return ts
            gr.on_node = gnode
            run_rule(prog, fn, gr)
            ck.ob(clause, 'R10.nullable-field', fn.name, '%s@%s' % (keypath.split('->')[-1], what.split()[0]),
                  not gr.violations, '%s %s only under %s->%s (or a non-NULL test)' % (what, keypath, owner, flag)
                  if not gr.violations else gr.violations[0].msg, fn.file, line,
                  path=gr.violations[0].path if gr.violations else None, config=config)
    return n


# ------------------------------------------------------------------ R6.reset-complete
def is_dl_field(e):
    e = strip(e)
    if e is None or e.k != 'mem':
        return False
    bt = (strip(e.a[0]).t or '') if e.a else ''
    return 'zckDL' in bt


def check_dl_reset(ck, prog, config, clause):
    roots = [prog.need_func(n) for n in ('zck_write_chunk_cb', 'zck_header_cb', 'zck_write_zck_header_cb')]
    seen, ext = prog.reachable_calls(roots)
    reads, writes = {}, {}
    for q in seen:
        fn = prog.funcs[q]
        for ex in all_exprs(fn):
            lhs_nodes = set()
            for n in walk(ex):
                if n.k == 'bin' and is_assign_op(n.op) and is_dl_field(n.a[0]):
                    writes.setdefault(strip(n.a[0]).op, set()).add(fn.name)
                    if n.op == '=':
                        lhs_nodes.add(id(strip(n.a[0])))
            for n in walk(ex):
                if n.k == 'mem' and is_dl_field(n) and id(n) not in lhs_nodes:
                    reads.setdefault(n.op, set()).add(fn.name)
    # statistics and configuration persist by design
    keep = {'dl': 'download statistics', 'ul': 'upload statistics', 'zck': 'the context', 'mp': 'multipart parser '
            '(reset through reset_mp)', 'boundary': 'cleared explicitly', 'hdr_regex': 'cleared by clear_dl_regex',
            'dl_regex': 'cleared by clear_dl_regex', 'end_regex': 'cleared by clear_dl_regex'}
    carried = sorted(f for f in reads if f in writes and f not in keep)
    ck.min_instances('per-transfer fields of zckDL carried between callbacks', len(carried), 3)
    rs = prog.need_func('zck_dl_reset')
    subst = unique_defs(rs)
    killed = set()
    whole = False
    for c in calls_of(rs, ('memset',)):
        t = strip(c.a[1])
        if 'zckDL' in (t.t or '') and const_value(c.a[2]) == 0:
            whole = True
    for (l, r, op, n) in assigned_fields(rs):
        if is_dl_field(l) and op == '=' and r is not None and (const_value(r) == 0 or strip(r).k == 'null'):
            killed.add(strip(l).op)
    for f in carried:
        ok = whole or f in killed
        ck.ob(clause, 'R6.reset-complete', rs.name, f, ok,
              'dl->%s (read in %s, written in %s) is reset by zck_dl_reset()%s' % (
                  f, ', '.join(sorted(reads[f]))[:50], ', '.join(sorted(writes[f]))[:50],
                  ' (whole-struct memset)' if whole else '') if ok else
              'dl->%s is carried from one transfer to the next: zck_dl_reset() does not reset it (read in %s, written in '
              '%s)' % (f, ', '.join(sorted(reads[f])), ', '.join(sorted(writes[f]))), rs.file, rs.line, config=config)
    return carried


# ------------------------------------------------------------------ R7.pure-range
def check_range_purity(ck, prog, config, clause):
    fn = prog.need_func('zck_get_missing_range')
    subst = unique_defs(fn)
    ctxp = fn.params[0].op
    bad = []
    for f2 in (fn, prog.need_func('range_add')):
        for (l, r, op, n) in assigned_fields(f2):
            p = pstr(l, unique_defs(f2))
            if p.split('->')[0] in ('zck',) and f2 is fn or (f2 is not fn and p.startswith('zck->')):
                bad.append('%s %s ... (%s:%d)' % (p, op, f2.name, n.line))
    ck.ob(clause, 'R7.pure-range', fn.name, 'no-context-write', not bad,
          'computing the missing range writes nothing into the target context (the request is a function of the '
          'validity marking alone)' if not bad else 'the range computation writes the target context: %s' % '; '.join(bad),
          fn.file, fn.line, config=config)
    # the walk starts at the first chunk
    starts = []
    for s in walk_stmts(fn.body):
        if s.k == 'for':
            if s.init is not None:
                for d in walk_stmts(s.init):
                    if d.k == 'decl' and d.e is not None:
                        starts.append(pstr(d.e, subst))
            else:
                starts.append('(no initialiser)')
    ok = bool(starts) and all(p.endswith('index.first') for p in starts)
    ck.ob(clause, 'R7.pure-range', fn.name, 'walk-from-first', ok,
          'the chunk walk starts at index.first' if ok else 'the chunk walk starts at %s, not at index.first: missing '
          'chunks before that point are never requested' % starts, fn.file, fn.line, config=config)


# ------------------------------------------------------------------ R6.dict-consumed
def check_dict_consumed(ck, prog, config, clause):
    fn = prog.need_func('import_dict')

    class R(FactRule):
        name = 'R6.dict-consumed'

        def __init__(s, prog, f):
            FactRule.__init__(s, prog, f)
            s.succ = 0

        def on_edge(s, ctx, node, label, refined, ts):
            op, l, r = atom_cmp(node.e, label)
            if strip(l).k == 'var' and op == '==' and const_value(r) == 0 and 'size' in strip(l).op:
                ts = ts | frozenset(['empty'])
            for side in (l, r):
                if 'comp_read' in origin_names(ctx.origins(side)) and op == '==':
                    ts = ts | frozenset(['consumed'])
            return ts

        def on_return(s, ctx, node, mask, ts):
            if ctx.fn is s.fn and mask & (P1 | POS):
                s.succ += 1
                if 'empty' not in ts and 'consumed' not in ts:
                    s.violate(ctx, 'dict-skipped', 'import_dict() succeeds for a non-empty dictionary chunk without '
                              'having read it: the sequential reader then delivers the dictionary as content',
                              inst='consumed', node=node)
            return ts
    r = R(prog, fn)
    run_rule(prog, fn, r)
    ck.require(r.succ >= 1, 'import_dict has no success exit')
    ck.ob(clause, 'R6.dict-consumed', fn.name, 'consumed', not r.violations,
          'every success exit is on the empty-dictionary edge or after comp_read() returned the whole dictionary'
          if not r.violations else r.violations[0].msg, fn.file, r.violations[0].node.line if r.violations else fn.line,
          path=r.violations[0].path if r.violations else None, config=config)


# ------------------------------------------------------------------ R1.no-downgrade
def check_no_downgrade(ck, prog, config, clause):
    n = 0
    for fn in sorted(prog.lib_funcs(), key=lambda f: f.qname):
        if not calls_of(fn, ('write_data',)) or fn.name == 'write_data':
            continue

        class R(FactRule):
            name = 'R1.no-downgrade'

            def on_edge(s, ctx, node, label, refined, ts):
                for expr, origins, before, after in refined:
                    if 'write_data' in origin_names(origins) and after == Z:
                        ts = ts | frozenset(['write-failed'])
                return ts

            def on_call(s, ctx, call, ts):
                if ctx.fn is s.fn and callee_name(call) == 'set_error_wf' and 'write-failed' in ts and \
                        const_value(call.a[2]) == 0:
                    s.violate(ctx, 'downgrade', 'non-fatal set_error() after write_data() failed: set_error_wf() '
                              'overwrites error_state, so the fatal error of the lost write becomes clearable and a '
                              'later zck_close() can report success', inst='after-write_data')
                return ts
        r = R(prog, fn)
        run_rule(prog, fn, r)
        n += 1
        ck.ob(clause, 'R1.no-downgrade', fn.name, 'after-write_data', not r.violations,
              'no non-fatal set_error() on the failure path of write_data()' if not r.violations else
              r.violations[0].msg, fn.file, r.violations[0].node.line if r.violations else fn.line,
              path=r.violations[0].path if r.violations else None, config=config)
    return n


# ------------------------------------------------------------------ R6.fd-release
class FdReleaseRule(FactRule):
    """close(X->f) leaves a number in X->f that the process may hand out again at once (to another context on
    another thread): the field must be overwritten on every path before the function returns."""
    name = 'R6.fd-release'

    def __init__(self, prog, fn):
        FactRule.__init__(self, prog, fn)
        self.closes = 0

    def on_call(self, ctx, call, ts):
        if ctx.fn is self.fn and callee_name(call) == 'close' and len(call.a) > 1:
            a = strip(call.a[1])
            if a is not None and a.k == 'mem':
                self.closes += 1
                ts = ts | frozenset([('closed', pstr(call.a[1], self.subst), call.line)])
        return ts

    def on_assign(self, ctx, lhs, rhs, op, value, ts):
        if ctx.fn is self.fn and strip(lhs).k == 'mem':
            lp = pstr(lhs, self.subst)
            ts = frozenset(x for x in ts if not (isinstance(x, tuple) and x[0] == 'closed' and x[1] == lp))
        return ts

    def on_return(self, ctx, node, mask, ts):
        if ctx.fn is self.fn:
            for x in ts:
                if isinstance(x, tuple) and x[0] == 'closed':
                    self.violate(ctx, 'stale-fd', 'returns with %s still holding the descriptor number closed at line %d: '
                                 'a later close()/write() through the field hits whatever the process opened under that '
                                 'number in the meantime (another context\'s file)' % (x[1], x[2]),
                                 inst=x[1].replace('.', '->').split('->')[-1], node=node)
        return ts


def check_fd_release(ck, prog, config, clause):
    n = 0
    for fn in sorted(prog.lib_funcs(), key=lambda f: f.qname):
        if not calls_of(fn, ('close',)):
            continue
        r = FdReleaseRule(prog, fn)
        run_rule(prog, fn, r)
        if not r.closes:
            continue
        n += r.closes
        by = {}
        for v in r.violations:
            by.setdefault(v.inst, v)
        if not by:
            ck.ob(clause, 'R6.fd-release', fn.name, 'close-then-reset', True,
                  '%d close() of a descriptor field, the field is overwritten before every return' % r.closes,
                  fn.file, fn.line, config=config)
        for inst, v in sorted(by.items()):
            ck.ob(clause, 'R6.fd-release', fn.name, inst, False, v.msg, v.node.file, v.node.line, path=v.path,
                  config=config)
    return n


# ------------------------------------------------------------------ R7.std-fds
def is_std_fd_reserver(prog, f):
    """a function that opens "/dev/null" and compares the descriptor it got with 2 / STDERR_FILENO (in a loop):
    it fills the standard descriptors so that later opens cannot land on them"""
    from ..ir import walk_stmts
    if f.body is None:
        return False
    opens = False
    for ex in all_exprs(f):
        for c in calls_in(ex):
            if callee_name(c) in ('open', 'open64') and any(strip(a) is not None and strip(a).k == 'str' and
                                                             'dev/null' in (strip(a).val or '') for a in c.a[1:]):
                opens = True
    cmp2 = any(n.k == 'bin' and n.op in ('<=', '<', '>', '>=') and (const_value(n.a[1]) in (2, 3) or const_value(n.a[0]) in (2, 3))
               for ex in all_exprs(f) for n in walk(ex))
    loop = any(s_.k in ('while', 'do', 'for') for s_ in walk_stmts(f.body))
    return opens and cmp2 and loop


def check_std_fds(ck, prog, config, clause):
    """Diagnostics go to a fixed descriptor number; every tool therefore reserves descriptors 0..2 before it opens
    anything (a file opened on descriptor 2 would receive the log lines)."""
    from ..cfg import dominates
    from .common import node_containing
    reservers = set(f.name for f in prog.funcs.values() if is_std_fd_reserver(prog, f))
    n = 0
    for fn in sorted(prog.funcs.values(), key=lambda f: f.qname):
        if fn.name != 'main' or prog.is_lib_unit(fn.unit):
            continue
        g = prog.cfg(fn)
        opens = [c for c in calls_of(fn, ('open', 'open64', 'creat', 'fopen', 'mkstemp'))]
        if not opens:
            continue
        n += 1
        res = [c for c in calls_of(fn, tuple(reservers))] if reservers else []
        rnodes = [node_containing(g, c.uid) for c in res]
        bad = None
        for c in opens:
            nd = node_containing(g, c.uid)
            if nd is None:
                continue
            if not any(r is not None and dominates(g, r, nd) for r in rnodes):
                bad = c
                break
        tool = rel(fn.unit).split('/')[-1]
        ck.ob(clause, 'R7.std-fds', tool, 'reserve-before-open', bad is None,
              '%s: %d open call(s), each dominated by a call that fills descriptors 0..2 (%s)' % (
                  tool, len(opens), ', '.join(sorted(reservers))) if bad is None else
              '%s: open() at line %d can return descriptor 0, 1 or 2 when the tool is started with one of them closed; '
              'diagnostics are written to descriptor 2 and end up inside that file (zck -vv -o out in 2>&-: log lines in '
              'front of the magic, exit 0)' % (tool, bad.line), fn.file, bad.line if bad else fn.line, config=config)
    return n


# ------------------------------------------------------------------ R9.narrow-compare
def check_narrow_compare(ck, prog, config, clause, units, what='file-supplied'):
    """No comparison in the given units compares a value after an integer conversion to a narrower type
    (explicit cast or implicit conversion of an operand): the comparison then holds modulo 2^width, so a
    count, size or type that differs from the expected one by a multiple of 2^32 passes an equality or
    range gate.  (A narrowing that is itself guarded is written as a range test on the wide value; the
    repository has no comparison on a narrowed operand today, so every instance is reported.)"""
    from ..ir import type_width
    n = 0
    bad = []
    for f in sorted(prog.funcs.values(), key=lambda x: x.qname):
        if not any(f.unit.endswith(u) for u in units):
            continue
        # locals with exactly one definition (their initialiser, no other assignment)
        single = {}
        assigned = set()
        for ex in all_exprs(f):
            for nd in walk(ex):
                if (nd.k == 'bin' and nd.op.endswith('=') and nd.op not in ('==', '!=', '<=', '>=')) or \
                        (nd.k == 'un' and nd.op in ('++', '--', '&')):
                    l_ = strip(nd.a[0])
                    if l_ is not None and l_.k == 'var':
                        assigned.add(l_.decl)
        for st_ in walk_stmts(f.body):
            if st_.k == 'decl' and st_.e is not None and st_.var.decl not in assigned:
                single[st_.var.decl] = st_.e
        for ex in all_exprs(f):
            for nd in walk(ex):
                if nd.k == 'bin' and nd.op in ('==', '!=', '<', '>', '<=', '>='):
                    n += 1
                    for a in nd.a:
                        b = a
                        while b is not None and b.k == 'paren':
                            b = b.a[0]
                        if b is None or b.k != 'cast' or not b.a:
                            continue
                        src = b.a[0]
                        ws, wd = type_width(src.t, src.dt), type_width(b.t, b.dt)
                        if ws and wd and wd < ws and const_value(src) is None:
                            bad.append((f, nd, src, b))
                    # an operand that is a local whose only definition narrows a wider integer expression
                    for a in nd.a:
                        v = strip(a)
                        while v is not None and v.k == 'cast' and v.a:
                            v = strip(v.a[0])
                        if v is None or v.k != 'var' or v.decl not in single:
                            continue
                        d = single[v.decl]
                        wv = type_width(v.t, v.dt)
                        inner = d
                        while inner is not None and inner.k == 'cast' and inner.a and inner.macro != 'explicit':
                            inner = inner.a[0]
                        wi = type_width(inner.t, inner.dt) if inner is not None else None
                        isint = lambda t: t is not None and not any(x in (t or '') for x in ('double', 'float', '*'))
                        if wv and wi and wv < wi and const_value(inner) is None and isint(inner.t) and \
                                inner.k in ('bin', 'un') and any(type_width(o.t, o.dt) == wi and const_value(o) is None
                                                                 for o in inner.a):
                            bad.append((f, nd, inner, v))
    for f, nd, src, b in bad:
        ck.ob(clause, 'R9.narrow-compare', f.name, 'cmp@%s' % show(nd)[:40], False,
              '`%s`: the operand %s (%s) is converted to %s before the comparison; values that differ by a multiple of '
              '2^%d compare equal, so a %s value that does not fit is accepted instead of rejected' % (
                  show(nd)[:80], show(src)[:30], src.t, b.t, type_width(b.t, b.dt), what), nd.file or f.file, nd.line,
              config=config)
    if not bad:
        ck.ob(clause, 'R9.narrow-compare', '*', 'comparisons', True,
              '%d comparisons in %s: no operand is narrowed before it is compared' % (n, ', '.join(sorted(units))),
              config=config)
    ck.min_instances('comparisons inspected for narrowed operands', n, 20)


# ------------------------------------------------------------------ R6.end-of-data
def check_end_of_data(ck, prog, config, clause, advancer='comp_end_dchunk', idx='data_idx', eof='data_eof'):
    """The function that ends a chunk on the read side advances the reader's chunk pointer, possibly to NULL (the
    last chunk).  Every caller must, after a successful call and before it returns success or starts another
    iteration, have looked at the pointer, and on the edge where it is NULL have set the end-of-data flag: a reader
    left with the pointer NULL and the flag clear is in the 'not started' state and the next read fails or starts
    over.  (If the advancing function sets the flag itself, the callers have nothing to do.)"""
    adv = prog.need_func(advancer)
    own = any(strip(l).op == eof for (l, r, op, node) in assigned_fields(adv))
    callers = [f for f in sorted(prog.lib_funcs(), key=lambda f: f.qname) if f is not adv and calls_of(f, (advancer,))]
    ck.require(bool(callers), '%s has no caller' % advancer)
    if own:
        ck.ob(clause, 'R6.end-of-data', adv.name, 'flag', True, '%s() sets %s itself' % (advancer, eof), adv.file, adv.line,
              config=config, trivial=True)
        return

    class Eod(FactRule):
        name = 'R6.end-of-data'

        def __init__(s, prog, fn):
            FactRule.__init__(s, prog, fn)
            s.calls = 0

        def on_edge(s, c2, node, label, refined, ts):
            if c2.fn is not s.fn:
                return ts
            for expr, origins, before, after in refined:
                if advancer in origin_names(origins):
                    if after & ~(P1 | POS) == 0:
                        ts = ts | frozenset(['advanced'])
            op, l, r = atom_cmp(node.e, label)
            if last_field(l) == idx and strip(l).k == 'mem' and const_value(r) == 0:
                if op == '==' and 'advanced' in ts:
                    ts = (ts - frozenset(['advanced'])) | frozenset(['at-end'])
                elif op == '!=':
                    ts = ts - frozenset(['advanced', 'at-end'])
            return ts

        def after_call(s, c2, call, ts, mask):
            if c2.fn is s.fn and callee_name(call) == advancer:
                s.calls += 1
                # a call whose result is not tested on this path: success is possible
                if mask & (P1 | POS) and not (mask & ~(P1 | POS)):
                    ts = ts | frozenset(['advanced'])
            return ts

        def on_assign(s, c2, lhs, rhs, op, value, ts):
            if c2.fn is s.fn and last_field(lhs) == eof and op == '=' and rhs is not None and const_value(rhs) not in (None, 0):
                ts = ts - frozenset(['at-end'])
            if c2.fn is s.fn and last_field(lhs) == idx and strip(lhs).k == 'mem' and op == '=':
                ts = ts - frozenset(['advanced', 'at-end'])      # repositioned (seek to a chunk)
            return ts

        def check(s, c2, node, ts, what):
            if 'advanced' in ts:
                s.violate(c2, 'unexamined', '%s after a successful %s() without looking at %s: when that was the last '
                          'chunk the pointer is NULL and %s stays clear, so the next read fails (or starts over) instead '
                          'of returning 0' % (what, advancer, idx, eof), inst='examined', node=node)
            elif 'at-end' in ts:
                s.violate(c2, 'flag-not-set', '%s with %s known to be NULL after %s() but %s not set' % (
                    what, idx, advancer, eof), inst='flag', node=node)

        def on_node(s, c2, node, ts):
            if c2.fn is s.fn and node.loop is not None:
                s.check(c2, node, ts, 'the next iteration starts')
                ts = ts - frozenset(['advanced', 'at-end'])
            return ts

        def on_return(s, c2, node, mask, ts):
            if c2.fn is s.fn and mask & (Z | P1 | POS):
                s.check(c2, node, ts, 'return %s' % (show(node.e) if node.e is not None else ''))
            return ts
    for fn in callers:
        r = Eod(prog, fn)
        run_rule(prog, fn, r)
        ck.ob(clause, 'R6.end-of-data', fn.name, 'after-%s' % advancer, not r.violations,
              'after every successful %s() the chunk pointer is examined and %s is set when it is NULL (%d call '
              'state(s))' % (advancer, eof, r.calls) if not r.violations else r.violations[0].msg, fn.file,
              r.violations[0].node.line if r.violations else fn.line,
              path=r.violations[0].path if r.violations else None, config=config)


# ------------------------------------------------------------------ R7.no-self-overwrite
def check_no_self_overwrite(ck, prog, config, clause, unit='src/unzck.c'):
    """A tool that derives its output name from the base name of its input and opens it with O_TRUNC must, on every
    path to that open(), have made the name different from the input's: a suffix was stripped (the edge on which the
    suffix comparison matched) or one was appended (an snprintf/strcat of a literal behind the base name).  Otherwise
    the output is the input itself (same directory): it is truncated before it is read."""
    ms = [f for f in prog.by_name.get('main', []) if f.unit.endswith(unit)]
    ck.require(len(ms) == 1, 'main() of %s not found' % unit)
    fn = ms[0]
    O_TRUNC = 0o1000
    # the variable holding basename(args)
    base = None
    for s in walk_stmts(fn.body):
        if s.k == 'decl' and s.e is not None and any(callee_name(c) in ('basename', '__xpg_basename', '__gnu_basename') for c in calls_in(s.e)):
            base = s.var
    ck.require(base is not None, '%s: no local initialised from basename()' % unit)
    outs = set()
    for ex in all_exprs(fn):
        for c in calls_in(ex):
            if callee_name(c) in ('strncpy', 'strcpy', 'memcpy', 'snprintf') and len(c.a) > 2:
                srcs = [strip(a) for a in c.a[2:]]
                if any(a is not None and a.k == 'var' and a.decl == base.decl for a in srcs):
                    d = strip(c.a[1])
                    if d is not None and d.k == 'var':
                        outs.add(d.decl)

    class Name(FactRule):
        name = 'R7.no-self-overwrite'

        def __init__(s, prog, fn):
            FactRule.__init__(s, prog, fn)
            s.opens = 0

        def on_edge(s, c2, node, label, refined, ts):
            if c2.fn is not s.fn:
                return ts
            op, l, r = atom_cmp(node.e, label)
            sl = strip_transparent(l)
            # the same option field tested twice must have the same value on one path
            if sl.k == 'mem' and strip(sl.a[0]).k == 'var' and const_value(r) == 0 and op in ('==', '!='):
                key = pstr(sl)
                if ('opt', key, '!=' if op == '==' else '==') in ts:
                    ts = ts | frozenset(['infeasible'])
                ts = ts | frozenset([('opt', key, op)])
            # first character of a local that holds a known literal
            sl0 = sl
            while sl.k == 'cast' and sl.a:
                sl = strip(sl.a[0])
            if sl.k == 'idx' and strip(sl.a[0]).k == 'var' and const_value(sl.a[1]) == 0 and const_value(r) == 0:
                names_ = set([strip(sl.a[0]).decl])
                for _ in range(3):          # a local initialised from another local names the same string
                    for st_ in walk_stmts(s.fn.body):
                        if st_.k == 'decl' and st_.var.decl in names_ and st_.e is not None:
                            iv_ = strip(st_.e)
                            while iv_ is not None and iv_.k == 'cast' and iv_.a:
                                iv_ = strip(iv_.a[0])
                            if iv_ is not None and iv_.k == 'var':
                                names_.add(iv_.decl)
                for x in ts:
                    if isinstance(x, tuple) and x[0] == 'lit' and x[1] in names_:
                        if (x[2] > 0 and op == '==') or (x[2] == 0 and op == '!='):
                            ts = ts | frozenset(['infeasible'])
            sl = sl0
            if sl.k == 'call' and callee_name(sl) in ('strncmp', 'strcmp', 'memcmp') and op == '==' and const_value(r) == 0:
                if any(x.k == 'var' and x.decl == base.decl for a in sl.a[1:] for x in walk(a)) and \
                        any(strip(a) is not None and strip(a).k == 'str' for a in sl.a[1:]):
                    ts = ts | frozenset(['suffix-matched'])
            return ts

        def on_assign(s, c2, lhs, rhs, op, value, ts):
            # string literals held by locals (a suffix chosen earlier), followed through copies
            if c2.fn is s.fn and strip(lhs) is not None and strip(lhs).k == 'var' and op == '=':
                d_ = strip(lhs).decl
                ts = frozenset(x for x in ts if not (isinstance(x, tuple) and x[0] == 'lit' and x[1] == d_))
                r_ = strip(rhs) if rhs is not None else None
                while r_ is not None and r_.k == 'cast' and r_.a:
                    r_ = strip(r_.a[0])
                if r_ is not None and r_.k == 'str':
                    lit = (r_.val or '')
                    lit = lit[1:-1] if len(lit) >= 2 and lit[0] == '"' else lit
                    ts = ts | frozenset([('lit', d_, len(lit))])
                elif r_ is not None and r_.k == 'var':
                    for x in list(ts):
                        if isinstance(x, tuple) and x[0] == 'lit' and x[1] == r_.decl:
                            ts = ts | frozenset([('lit', d_, x[2])])
            # base_name[len - k] = '\\0' on the matched edge: the suffix is gone
            if c2.fn is s.fn and 'suffix-matched' in ts:
                l = strip(lhs)
                if l is not None and l.k == 'idx' and strip(l.a[0]).k == 'var' and strip(l.a[0]).decl == base.decl and \
                        const_value(rhs) == 0:
                    ts = ts | frozenset(['differs'])
            return ts

        def on_call(s, c2, call, ts):
            if c2.fn is not s.fn:
                return ts
            n = callee_name(call)
            if n in ('exit', '_exit', 'abort', '__assert_fail'):
                return None
            if n is not None and n.startswith('zck_') and n not in ('zck_set_log_level', 'zck_set_log_fd'):
                return None       # the files are open by the time the library is used: the rest is not this rule's
            if n in ('snprintf', 'strcat', 'strncat', 'memcpy', 'strcpy', 'stpcpy', 'strncpy', 'mempcpy') and len(call.a) > 2:
                d = [x for x in walk(call.a[1]) if x.k == 'var' and x.decl in outs]
                # text that is certainly appended: a literal without directives, the literal part of a format, or a
                # local that holds a non-empty literal on this path
                texts = []
                for a in call.a[2:]:
                    sa = strip(a)
                    while sa is not None and sa.k == 'cast' and sa.a:
                        sa = strip(sa.a[0])
                    if sa is None:
                        continue
                    if sa.k == 'str':
                        import re as _re
                        lit = (sa.val or '')
                        lit = lit[1:-1] if len(lit) >= 2 and lit[0] == '"' else lit
                        plain = _re.sub(r'%[-0-9.*lhz]*[sdiuxXcf]', '', lit)
                        if plain:
                            texts.append(plain)
                    elif sa.k == 'var':
                        names_ = set([sa.decl])
                        for _ in range(3):
                            for st_ in walk_stmts(s.fn.body):
                                if st_.k == 'decl' and st_.var.decl in names_ and st_.e is not None:
                                    iv_ = strip(st_.e)
                                    while iv_ is not None and iv_.k == 'cast' and iv_.a:
                                        iv_ = strip(iv_.a[0])
                                    if iv_ is not None and iv_.k == 'var':
                                        names_.add(iv_.decl)
                        for x in ts:
                            if isinstance(x, tuple) and x[0] == 'lit' and x[1] in names_ and x[2] > 0:
                                texts.append('<%s>' % sa.op)
                if d and texts and strip(call.a[1]).k != 'var':
                    # a non-empty suffix written behind the copied base name
                    ts = ts | frozenset(['differs'])
            if n == 'open' and len(call.a) > 2:
                fl = const_value(call.a[2])
                p = strip(call.a[1])
                if fl is not None and fl & O_TRUNC and p is not None and p.k == 'var' and p.decl in outs:
                    s.opens += 1
                    if 'differs' not in ts and 'infeasible' not in ts:
                        s.violate(c2, 'self-overwrite', 'open(%s, O_TRUNC) is reachable with the name equal to the base name '
                                  'of the input: neither was the input\'s suffix found and cut off nor a suffix appended on '
                                  'this path, so in the input\'s own directory the tool truncates its input before reading '
                                  'it (and unlinks it on the error path)' % show(call.a[1]), inst='open')
                    return None       # nothing after the open matters to this rule
            return ts
    r = Name(prog, fn)
    run_rule(prog, fn, r)
    ck.require(r.opens >= 1, '%s: no open(O_TRUNC) of a name derived from the input name' % unit)
    ck.ob(clause, 'R7.no-self-overwrite', 'unzck main', 'output-name', not r.violations,
          'every open(O_TRUNC) of the derived output name lies behind a stripped or an appended suffix (%d open state(s))'
          % r.opens if not r.violations else r.violations[0].msg, fn.file,
          r.violations[0].node.line if r.violations else fn.line,
          path=r.violations[0].path if r.violations else None, config=config)


# ------------------------------------------------------------------ R8.data-offset
def check_reader_data_offset(ck, prog, config, clause):
    """On the read side the data starts where the lead says the header ends: every assignment to data_offset in a
    function reachable from zck_read_header() has the value lead_size + header_length (the size declared in the lead),
    not a sum of the sections the parser happened to consume - a header may legally carry unused bytes after its last
    section, and every consumer (validity scan, data checksum, chunk offsets, the streaming reader) must agree on
    one start of the data."""
    root = prog.need_func('zck_read_header')
    seen, ext = prog.reachable_calls([root])
    n = 0
    from .common import lin, Lin
    for q in sorted(seen):
        fn = prog.funcs[q]
        subst = unique_defs(fn)
        for (l, r, op, node) in assigned_fields(fn):
            if strip(l).op != 'data_offset' or op != '=' or r is None:
                continue
            n += 1
            v = lin(r, subst)
            base = pstr(strip(l).a[0])
            want = Lin({'%s->lead_size' % base: 1, '%s->header_length' % base: 1})
            ok = v is not None and v == want
            ck.ob(clause, 'R8.data-offset', fn.name, 'data_offset', ok,
                  'data_offset := lead_size + header_length (the header size the lead declares)' if ok else
                  '%s() sets data_offset to %s, not to lead_size + header_length: for a header with unused bytes after its '
                  'last section the validity scan, the data checksum and the chunk offsets start %s the real data' % (
                      fn.name, show(r)[:80], 'before' if v is not None else 'somewhere other than'), fn.file, node.line,
                  config=config)
    ck.min_instances('assignments of data_offset on the read path', n, 1)


# ------------------------------------------------------------------ R7.const-input
def check_const_input(ck, prog, config, clause, unit_filter):
    """A function that takes its data through a pointer to const must not write through it: not directly, not
    through a local alias obtained by casting the const away.  The hash backends are handed the caller's buffer, which
    the library afterwards compresses, writes or hashes again with another digest - a backend that scribbles over
    it (an "avoid the copy" optimisation of a block transform) still returns the right digest and corrupts the data."""
    WRITES_ARG0 = ('memcpy', 'memmove', 'memset', 'strcpy', 'strncpy', 'snprintf', 'sprintf', 'bzero')
    n = 0
    bad = []
    for fn in sorted(prog.funcs.values(), key=lambda f: f.qname):
        if fn.body is None or not unit_filter(fn.unit):
            continue
        cps = [p for p in fn.params if (p.t or '').rstrip().endswith('*') and 'const' in (p.t or '').split('*')[0]]
        if not cps:
            continue
        n += 1
        alias = dict((p.decl, p.op) for p in cps)
        changed = True
        defs = []
        for s in walk_stmts(fn.body):
            if s.k == 'decl' and s.e is not None and (s.var.t or '').rstrip().endswith('*'):
                defs.append((s.var, s.e))
        for ex in all_exprs(fn):
            for nd in walk(ex):
                if nd.k == 'bin' and nd.op == '=' and strip(nd.a[0]).k == 'var' and (strip(nd.a[0]).t or '').rstrip().endswith('*'):
                    defs.append((strip(nd.a[0]), nd.a[1]))

        def root(e):
            e = strip(e)
            while e is not None:
                if e.k == 'cast' and e.a:
                    e = strip(e.a[0])
                elif e.k == 'bin' and e.op in ('+', '-'):
                    e = strip(e.a[0])
                elif e.k == 'un' and e.op == '&' and strip(e.a[0]).k in ('idx', 'mem'):
                    e = strip(strip(e.a[0]).a[0])
                else:
                    break
            return e
        while changed:
            changed = False
            for v, e in defs:
                r = root(e)
                if r is not None and r.k == 'var' and r.decl in alias and v.decl not in alias:
                    alias[v.decl] = alias[r.decl]
                    changed = True

        def lroot(e):
            e = strip(e)
            while e is not None and e.k in ('idx', 'mem', 'cast') or (e is not None and e.k == 'un' and e.op == '*'):
                e = strip(e.a[0])
                if e is not None and e.k == 'bin' and e.op in ('+', '-'):
                    e = strip(e.a[0])
            return e
        for ex in all_exprs(fn):
            for nd in walk(ex):
                tgt = None
                if (nd.k == 'bin' and nd.op.endswith('=') and nd.op not in ('==', '!=', '<=', '>=')) or \
                        (nd.k == 'un' and nd.op in ('++', '--')):
                    l = strip(nd.a[0])
                    if l is not None and l.k in ('idx', 'mem') or (l is not None and l.k == 'un' and l.op == '*'):
                        tgt = lroot(l)
                elif nd.k == 'call' and callee_name(nd) in WRITES_ARG0 and len(nd.a) > 1:
                    tgt = root(nd.a[1])
                if tgt is not None and tgt.k == 'var' and tgt.decl in alias:
                    bad.append((fn, nd, alias[tgt.decl], tgt.op))
    for fn, nd, pname, via in bad[:6]:
        ck.ob(clause, 'R7.const-input', fn.name, 'write-through:%s' % pname, False,
              '%s() writes through %s, %s the const input parameter %s: the caller\'s data is modified while it is '
              'being hashed (the digest stays right, what is compressed / written / hashed again afterwards is not the '
              'caller\'s data any more)' % (fn.name, via, 'an alias of' if via != pname else 'which is', pname),
              nd.file or fn.file, nd.line, config=config)
    if not bad:
        ck.ob(clause, 'R7.const-input', '*', 'const-inputs', True,
              '%d function(s) with a pointer-to-const input: none writes through it or through an alias of it' % n,
              config=config)
    ck.min_instances('functions with a const input pointer in the selected units', n, 3)


# ------------------------------------------------------------------ R7.hash-owner
# who may begin, end or finalise the two running digests of a context (confirmed on the reference tree)
HASH_OWNERS = {
    'check_chunk_hash': {'zck_clear': 'context clean-up', 'comp_end_dchunk': 're-initialised after a chunk was verified',
                         'comp_read': 'initialised when the first chunk is entered / lazily before the first bytes',
                         'dl_write_range': 'initialised when a chunk of the response is begun',
                         'validate_checksums': 'initialised per chunk of the scan',
                         'validate_chunk': 'finalised for the verdict', 'zck_free': 'context clean-up'},
    'check_full_hash': {'zck_clear': 'context clean-up', 'read_header_from_file': 'header digest',
                        'validate_header': 'finalised for the header verdict',
                        'validate_checksums': 'initialised before and after the scan',
                        'validate_file': 'finalised for the data verdict',
                        'zck_validate_data_checksum': 'initialised before and after the pass',
                        'read_sig': 'initialised for the data once the header is read', 'zck_free': 'context clean-up',
                        'zck_read_header': 'initialised for the data once the header is read'},
}


def check_hash_owners(ck, prog, config, clause):
    """The running chunk digest accumulates the stored bytes of the chunk being read until the chunk ends and is
    verified; the running data digest does the same for the whole body.  Closing, re-initialising or finalising one of
    them anywhere else throws away (or double-counts) what was hashed so far: the chunk or the data then fails - or
    passes - verification for a reason that has nothing to do with its bytes (a reset helper that also closes the
    chunk digest breaks every file whose dictionary is imported in the middle of a read).  Who-may-call inventory over
    hash_init / hash_close / hash_reset / hash_finalize with one of the two fields as argument."""
    n = 0
    for fn in sorted(prog.lib_funcs(), key=lambda f: f.qname):
        for c in calls_of(fn, ('hash_init', 'hash_close', 'hash_reset', 'hash_finalize')):
            for a in c.a[1:]:
                sa_ = strip(a)
                while sa_ is not None and ((sa_.k == 'un' and sa_.op == '&') or sa_.k == 'cast') and sa_.a:
                    sa_ = strip(sa_.a[0])
                f_ = sa_.op if sa_ is not None and sa_.k == 'mem' else None
                if f_ in HASH_OWNERS:
                    n += 1
                    ok = fn.name in HASH_OWNERS[f_]
                    ck.ob(clause, 'R7.hash-owner', fn.name, '%s(%s)' % (callee_name(c), f_), ok,
                          '%s(%s) in %s: %s' % (callee_name(c), f_, fn.name, HASH_OWNERS[f_].get(fn.name)) if ok else
                          '%s() calls %s() on the running digest %s: outside the functions that own its life cycle (%s) '
                          'this discards or double-counts what has been hashed of the chunk / data in progress' % (
                              fn.name, callee_name(c), f_, ', '.join(sorted(HASH_OWNERS[f_]))), c.file, c.line,
                          config=config)
    ck.min_instances('life-cycle calls on the running digests', n, 8)


# ------------------------------------------------------------------ R2.import-guard
def check_import_guard(ck, prog, config, clause, fn_name='zck_get_chunk_data', callee='import_dict'):
    """The dictionary is loaded on the first data request of a context whatever chunk is asked for: the load relies on
    the reader being in its initial position, so it must not be skipped for some requested chunk and done later.  The
    conditions that dominate the call may speak about the dictionary and the context, not about the requested chunk."""
    from ..cfg import must_pass_edges
    from .common import node_containing
    fn = prog.need_func(fn_name)
    g = prog.cfg(fn)
    chunk_params = [p for p in fn.params if 'zckChunk' in (p.t or '')]
    ck.require(bool(chunk_params), '%s: chunk parameter not found' % fn_name)
    cs = calls_of(fn, (callee,))
    ck.require(bool(cs), '%s no longer calls %s' % (fn_name, callee))
    # locals derived from the chunk parameter by a comparison (use_dict = (idx != dict))
    derived = set(p.decl for p in chunk_params)
    for s_ in walk_stmts(fn.body):
        if s_.k == 'decl' and s_.e is not None:
            se = strip(s_.e)
            while se is not None and se.k == 'cast' and se.a:
                se = strip(se.a[0])
            if se is not None and se.k == 'bin' and se.op in ('==', '!=') and any(
                    x.k == 'var' and x.decl in derived for x in walk(se)):
                derived.add(s_.var.decl)
    for c in cs:
        nd = node_containing(g, c.uid)
        bad = None
        for b, lab in (must_pass_edges(g, nd) if nd is not None else []):
            # a plain truthiness test of the parameter (NULL check) is fine; a comparison with another chunk is not
            for x in walk(b.e):
                if x.k == 'bin' and x.op in ('==', '!=') and const_value(x.a[1]) is None and strip(x.a[1]).k != 'null' and \
                        any(y.k == 'var' and y.decl in derived for y in walk(x)):
                    bad = b
            sb = strip(b.e)
            if sb is not None and sb.k == 'var' and sb.decl in derived and sb.decl not in set(p.decl for p in chunk_params):
                bad = b
        ck.ob(clause, 'R2.import-guard', fn.name, callee, bad is None,
              '%s() is reached for every requested chunk (its guards speak about the dictionary only)' % callee
              if bad is None else
              '%s() is skipped depending on which chunk is requested (%s): a request for that chunk leaves the reader '
              'positioned, and the load done by the next request starts from that stale position' % (callee, show(bad.e)[:60]),
              c.file, c.line, config=config)


# ------------------------------------------------------------------ R7.no-forward-seek
def check_no_forward_seek(ck, prog, config, clause, roots, what, tool_unit=None):
    """On an output path the file offset moves forward only by writing.  A relative seek with a non-zero distance
    (lseek / seek_data with SEEK_CUR) in a function below `roots` (or in the tool's main) steps over bytes that were
    produced but not stored: a "keep the output sparse" shortcut leaves a hole that is never materialised when it
    comes last, and leaves stale bytes in place when the target already holds data.  The wrappers seek_data() and
    tell_data() themselves are exempt (they forward their caller's arguments)."""
    from ..ir import calls_in, callee_name, const_value
    from ..program import all_exprs
    funcs = []
    if roots:
        rf = [prog.need_func(r) for r in roots]
        seen, _ = prog.reachable_calls(rf)
        funcs += [prog.funcs[q] for q in seen]
    if tool_unit:
        funcs += [f for f in prog.funcs.values() if f.unit.endswith(tool_unit)]
    bad = []
    n = 0
    for f in funcs:
        if f.name in ('seek_data', 'tell_data') or f.body is None:
            continue
        for ex in all_exprs(f):
            for c in calls_in(ex):
                nm = callee_name(c)
                if nm in ('lseek', 'lseek64', 'seek_data', 'fseek', 'fseeko') and len(c.a) >= 4:
                    n += 1
                    whence = const_value(c.a[3])
                    off = const_value(c.a[2])
                    if whence == 1 and off != 0:          # SEEK_CUR with a distance that is not the constant 0
                        bad.append((f, c, nm))
    ck.ob(clause, 'R7.no-forward-seek', what, 'relative-seek', not bad,
          '%d function(s) on the path, %d seek call(s): none moves the offset by a relative, non-zero distance (the '
          'offset advances only by writing)' % (len(funcs), n) if not bad else
          '%s() steps over bytes with %s(..., SEEK_CUR) instead of storing them: when the skipped bytes come last the '
          'output ends early, and where the target already holds other data it keeps it' % (bad[0][0].name, bad[0][2]),
          bad[0][1].file if bad else None, bad[0][1].line if bad else 0, config=config)
    return len(funcs)


# ------------------------------------------------------------------ R7.temp-unique
def check_temp_unique(ck, prog, config, clause):
    """The library creates files only through mkstemp()/mkostemp()/tmpfile(): the name is chosen by the C library to
    be unique per call.  A name built from the process id, a descriptor number, a counter or the time can be chosen
    twice by two contexts of one process (open(O_CREAT|O_EXCL) then fails for the second one), so creating the
    temporary file is no longer independent of what other contexts do."""
    from ..ir import calls_in, callee_name, const_value
    from ..program import all_exprs
    makers = []
    bad = []
    for f in prog.lib_funcs():
        if f.body is None:
            continue
        for ex in all_exprs(f):
            for c in calls_in(ex):
                nm = callee_name(c)
                if nm in ('mkstemp', 'mkostemp', 'mkstemps', 'tmpfile'):
                    makers.append((f, c))
                elif nm in ('open', 'open64', 'openat', 'creat'):
                    fl = const_value(c.a[2]) if len(c.a) > 2 else None
                    if nm == 'creat' or fl is None or (fl & 0o100):
                        bad.append((f, c, nm))
                elif nm in ('fopen', 'freopen', 'mktemp', 'tmpnam', 'tempnam'):
                    bad.append((f, c, nm))
    ck.require(len(makers) >= 1 or bad, 'no mkstemp()/tmpfile() call left in the library: how the temporary file is '
               'created is not recognised')
    ck.ob(clause, 'R7.temp-unique', 'library', 'file-creation', not bad,
          '%d file-creating call(s) in the library, all mkstemp()/tmpfile() (unique name per call)' % len(makers)
          if not bad else '%s() creates a file with %s() under a name the library builds itself: two contexts of one '
          'process can choose the same name, and the second creation fails (or, without O_EXCL, shares the file)'
          % (bad[0][0].name, bad[0][2]), bad[0][1].file if bad else makers[0][1].file,
          bad[0][1].line if bad else makers[0][1].line, config=config)
    return len(makers) + len(bad)


# ------------------------------------------------------------------ R7.header-name-case
def check_header_name_case(ck, prog, config, clause, roots=('zck_header_cb',)):
    """HTTP field names are case-insensitive (HTTP/2 and HTTP/3 deliver them in lower case).  Below the header callback
    the response text is matched only through the compiled patterns (REG_ICASE, checked by C17/C05-h) or through
    case-insensitive comparisons: a case-sensitive comparison of the callback data with a literal that contains letters
    (strncmp, strcmp, memcmp, strstr) makes a well-formed answer from such a server unparseable."""
    from ..ir import calls_in, callee_name, strip
    from ..program import all_exprs
    rf = [prog.need_func(r) for r in roots]
    seen, _ = prog.reachable_calls(rf)
    bad = []
    n = 0
    for q in seen:
        f = prog.funcs[q]
        if f.body is None or not ('/dl/' in f.unit or f.unit.endswith('dl.c')):
            continue
        for ex in all_exprs(f):
            for c in calls_in(ex):
                nm = callee_name(c)
                if nm in ('strncmp', 'strcmp', 'memcmp', 'strstr', 'bcmp', 'strchr', 'strncasecmp', 'strcasecmp',
                          'strcasestr'):
                    lits = [strip(a) for a in c.a[1:] if strip(a) is not None and strip(a).k == 'str']
                    # a local or file-scope array / pointer initialised from a literal
                    from ..ir import walk_stmts as _ws
                    for a in c.a[1:]:
                        sa = strip(a)
                        if sa is not None and sa.k == 'var':
                            for st in _ws(f.body):
                                if st.k == 'decl' and st.var is not None and st.var.decl == sa.decl and st.e is not None:
                                    ie = strip(st.e)
                                    while ie is not None and ie.k == 'init' and len(ie.a) == 1:
                                        ie = strip(ie.a[0])
                                    if ie is not None and ie.k == 'str':
                                        lits.append(ie)
                            for g in prog.globals:
                                if g.name == sa.op and g.unit == f.unit and getattr(g, 'init', None) is not None:
                                    ie = strip(g.init)
                                    while ie is not None and ie.k == 'init' and len(ie.a) == 1:
                                        ie = strip(ie.a[0])
                                    if ie is not None and ie.k == 'str':
                                        lits.append(ie)
                    if not lits:
                        continue
                    n += 1
                    if nm in ('strncmp', 'strcmp', 'memcmp', 'strstr', 'bcmp') and \
                            any(any(ch.isalpha() for ch in (l.val or '')) for l in lits):
                        bad.append((f, c, nm, [l.val for l in lits]))
    ck.ob(clause, 'R7.header-name-case', 'header callback', 'literal-compare', not bad,
          '%d function(s) below %s in the download unit: no case-sensitive comparison of response text with a literal '
          'that contains letters (%d literal comparison(s))' % (len(seen), ', '.join(roots), n) if not bad else
          '%s() compares the response header with %r through %s(): field names are case-insensitive, so an answer with '
          'another spelling (HTTP/2 delivers lower case) is not recognised and its body is taken for plain data'
          % (bad[0][0].name, bad[0][3][0], bad[0][2]), bad[0][1].file if bad else rf[0].file,
          bad[0][1].line if bad else rf[0].line, config=config)
    return len(seen)


# ------------------------------------------------------------------ R6.config-from-arguments
def check_tool_config_from_args(ck, prog, config, clause, unit='src/zck.c'):
    """The zck tool decides how the file is chunked from its command line alone.  Every zck_set_ioption() call of its
    main() - value and controlling conditions, closed over the definitions of the locals they read - depends only on
    the parsed arguments and constants, never on the input (its size from fstat()/lseek(), what read() returned):
    otherwise two inputs that share a prefix are chunked differently because of what follows the prefix."""
    from ..ir import S as _S, walk as _walk, strip as _strip, callee_name as _cn, calls_in as _ci, show as _show
    from ..program import is_assign_op as _ia
    mains = [f for f in prog.funcs.values() if f.unit.endswith(unit) and f.name == 'main']
    ck.require(len(mains) == 1, 'main() of %s not found' % unit)
    fn = mains[0]
    INPUT_CALLS = ('fstat', 'stat', 'lstat', 'lseek', 'read', 'pread', 'fread', 'ftell', 'fstat64', 'stat64')
    # locals tainted by the input: assigned from an input call, or a struct stat object
    defs = {}

    def kids(s):
        out = []
        for attr in ('init', 'body', 'then', 'els'):
            x = getattr(s, attr)
            if isinstance(x, _S):
                out.append(x)
            elif isinstance(x, list):
                out += [y for y in x if isinstance(y, _S)]
        return out
    sites = []

    def visit(s, conds):
        if isinstance(s, list):
            for x in s:
                visit(x, conds)
            return
        if s is None:
            return
        exprs = [e for e in (s.e, s.inc if not isinstance(s.inc, (_S, list)) else None) if e is not None]
        if s.k == 'decl' and s.var is not None:
            defs.setdefault(s.var.decl, []).append(s.e)
        for ex in exprs:
            for n in _walk(ex):
                if n.k == 'bin' and _ia(n.op):
                    l = _strip(n.a[0])
                    if l is not None and l.k == 'var':
                        defs.setdefault(l.decl, []).append(n.a[1])
                if n.k == 'call':
                    if _cn(n) in INPUT_CALLS:
                        for a in n.a[1:]:
                            sa = _strip(a)
                            if sa is not None and sa.k == 'un' and sa.op == '&' and _strip(sa.a[0]).k == 'var':
                                defs.setdefault(_strip(sa.a[0]).decl, []).append(n)
                    if _cn(n) == 'zck_set_ioption':
                        sites.append((n, list(conds)))
        if s.k == 'if':
            visit(s.then, conds + [s.e])
            visit(s.els, conds + [s.e])
        elif s.k in ('while', 'for', 'do'):
            for c in kids(s):
                visit(c, conds + ([s.e] if s.e is not None else []))
        else:
            for c in kids(s):
                visit(c, conds)
    visit(fn.body, [])
    ck.require(len(sites) >= 3, 'zck main: zck_set_ioption() calls not found')

    def tainted(e, seen, depth=0):
        if e is None or depth > 6:
            return None
        for n in _walk(e):
            if n.k == 'call' and _cn(n) in INPUT_CALLS:
                return '%s()' % _cn(n)
            if n.k == 'mem':
                b = _strip(n.a[0]) if n.a else None
                if b is not None and 'stat' in (b.t or '') and 'struct' in (b.t or ''):
                    return _show(n)
            if n.k == 'var' and n.dk == 'VarDecl' and n.decl not in seen:
                seen.add(n.decl)
                for d in defs.get(n.decl, []):
                    t = tainted(d, seen, depth + 1)
                    if t:
                        return '%s <- %s' % (n.op, t)
        return None
    bad = None
    for call, conds in sites:
        for e in list(call.a[2:]) + conds:
            t = tainted(e, set())
            if t and bad is None:
                bad = (call, t)
    ck.ob(clause, 'R6.config-from-arguments', 'zck main', 'ioptions', bad is None,
          '%d zck_set_ioption() call(s): value and controlling conditions depend on the command line only' % len(sites)
          if bad is None else 'zck_set_ioption(%s) depends on the input (%s): how a file is chunked then depends on its '
          'length or content beyond the chunk, not only on the bytes before a boundary' % (_show(bad[0].a[2])[:40], bad[1]),
          bad[0].file if bad else fn.file, bad[0].line if bad else fn.line, config=config)
    return len(sites)


# ------------------------------------------------------------------ R6.realloc-keep
def check_realloc_keep(ck, prog, config, clause):
    """zrealloc() frees the old block when it fails.  `tmp = zrealloc(obj->field, n)` followed by a return on the NULL
    edge leaves obj->field pointing at freed memory: whatever releases the object later frees it again, and a retry
    reads it.  Every exit behind the NULL edge must have reassigned the field (the form `field = zrealloc(field, n)`
    does so by itself).  Armed only while zrealloc() does free on failure."""
    from ..ir import calls_in as _ci, callee_name as _cn, strip as _st, const_value as _cv
    from ..program import all_exprs as _ae
    from .common import FactRule as _FR, run_rule as _rr, pstr as _ps, atom_cmp as _ac
    zr = [f for f in prog.lib_funcs() if f.name == 'zrealloc']
    ck.require(len(zr) == 1, 'zrealloc not found')
    frees = any(_cn(c) == 'free' for ex in _ae(zr[0]) for c in _ci(ex))
    if not frees:
        ck.ob(clause, 'R6.realloc-keep', 'zrealloc', 'keeps-on-failure', True,
              'zrealloc() does not free the old block on failure: the old pointer stays valid', zr[0].file, zr[0].line,
              config=config, trivial=True)
        return 0
    n = 0
    for fn in sorted(prog.lib_funcs(), key=lambda f: f.qname):
        if fn.body is None or fn is zr[0]:
            continue
        sites = [c for ex in _ae(fn) for c in _ci(ex) if _cn(c) == 'zrealloc' and len(c.a) > 2 and
                 _st(c.a[1]) is not None and _st(c.a[1]).k == 'mem']
        if not sites:
            continue

        class RK(_FR):
            name = 'R6.realloc-keep'

            def on_assign(s, c2, lhs, rhs, op, value, ts):
                if c2.fn is not s.fn:
                    return ts
                lp = _ps(lhs)
                # any store to a field clears what was dangling there
                ts = frozenset(x for x in ts if not (isinstance(x, tuple) and x[0] in ('dangling', 'ra') and x[-1] == lp))
                r = _st(rhs) if rhs is not None else None
                while r is not None and r.k == 'cast' and r.a:
                    r = _st(r.a[0])
                if r is not None and r.k == 'call' and _cn(r) == 'zrealloc' and len(r.a) > 2:
                    old = _st(r.a[1])
                    if old is not None and old.k == 'mem' and _ps(r.a[1]) != lp and _st(lhs).k == 'var':
                        ts = ts | frozenset([('ra', _st(lhs).decl, _ps(r.a[1]))])
                return ts

            def on_edge(s, c2, node, label, refined, ts):
                if c2.fn is not s.fn:
                    return ts
                op, l, r = _ac(node.e, label)
                sl = _st(l)
                if sl is not None and sl.k == 'var' and op == '==' and _cv(r) == 0:
                    for x in list(ts):
                        if isinstance(x, tuple) and x[0] == 'ra' and x[1] == sl.decl:
                            ts = ts | frozenset([('dangling', x[2])])
                return ts

            def on_return(s, c2, node, mask, ts):
                if c2.fn is not s.fn:
                    return ts
                for x in ts:
                    if isinstance(x, tuple) and x[0] == 'dangling':
                        s.violate(c2, 'dangling', 'exit behind the failure edge of zrealloc(%s, ...) with %s still holding the '
                                  'block that zrealloc() has freed: the object is released (or the call retried) with a '
                                  'dangling pointer - double free / use after free' % (x[1], x[1]), inst=x[1], node=node)
                return ts
        r = RK(prog, fn)
        _rr(prog, fn, r)
        n += len(sites)
        ck.ob(clause, 'R6.realloc-keep', fn.name, 'zrealloc(field)', not r.violations,
              '%d zrealloc() call(s) on a field through a temporary: every exit behind the failure edge has reassigned the '
              'field' % len(sites) if not r.violations else r.violations[0].msg, fn.file,
              r.violations[0].node.line if r.violations else fn.line, path=r.violations[0].path if r.violations else None,
              config=config)
    return n


# ------------------------------------------------------------------ R1.count-compare
def check_count_compare(ck, prog, config, clause, callee='multipart_extract'):
    """A function with the convention "0 is failure, anything else success" whose non-zero result is *not* the count it
    was asked to handle (it returns a size parameter after adding to it what it had carried over from earlier calls)
    may only be tested against zero by its callers.  Comparing the result with the caller's own count turns every
    call that had something carried over - a piece that ends inside a part header, one byte per call - into a failure:
    the outcome depends on how the transport cut the response."""
    from ..ir import calls_in as _ci, callee_name as _cn, strip as _st, walk as _wk, const_value as _cv, walk_stmts as _ws
    from ..program import all_exprs as _ae, is_assign_op as _ia
    fn = prog.need_func(callee)
    sizes = dict((p.decl, p.op) for p in fn.params if not (p.t or '').rstrip().endswith('*'))
    reassigned = set()
    for ex in _ae(fn):
        for n in _wk(ex):
            if n.k == 'bin' and _ia(n.op):
                l = _st(n.a[0])
                if l is not None and l.k == 'var' and l.decl in sizes:
                    reassigned.add(l.decl)
    returns_own = False
    for st in _ws(fn.body):
        if st.k == 'return' and st.e is not None:
            e = _st(st.e)
            while e is not None and e.k == 'cast' and e.a:
                e = _st(e.a[0])
            if e is not None and e.k == 'var' and e.decl in reassigned:
                returns_own = True
    if not returns_own:
        ck.ob(clause, 'R1.count-compare', callee, 'returns-request-count', True,
              '%s() does not return a reassigned size parameter: its result can be compared with the request' % callee,
              fn.file, fn.line, config=config, trivial=True)
        return 0
    bad = None
    n = 0
    for cf, c in prog.callers().get(fn.qname, []):
        n += 1
        # the variable holding the result (or the call itself inside a condition)
        holders = set()
        for st in _ws(cf.body):
            if st.k == 'decl' and st.e is not None and any(x is c or getattr(x, 'uid', None) == c.uid for x in _wk(st.e) if x.k == 'call'):
                holders.add(st.var.decl)
        for ex in _ae(cf):
            for x in _wk(ex):
                if x.k == 'bin' and x.op == '=' and any(y.k == 'call' and getattr(y, 'uid', None) == c.uid for y in _wk(x.a[1])):
                    l = _st(x.a[0])
                    if l is not None and l.k == 'var':
                        holders.add(l.decl)
        for ex in _ae(cf):
            for x in _wk(ex):
                if x.k == 'bin' and x.op in ('==', '!=', '<', '>', '<=', '>='):
                    sides = [_st(x.a[0]), _st(x.a[1])]
                    for i_, sd in enumerate(sides):
                        while sd is not None and sd.k == 'cast' and sd.a:
                            sd = _st(sd.a[0])
                        is_res = sd is not None and ((sd.k == 'var' and sd.decl in holders) or
                                                     (sd.k == 'call' and getattr(sd, 'uid', None) == c.uid))
                        if is_res and _cv(x.a[1 - i_]) is None:
                            bad = bad or (cf, x)
    ck.ob(clause, 'R1.count-compare', callee, 'callers-test-zero-only', bad is None,
          '%s() returns its own accounting (request plus what it had carried over); its %d caller(s) test the result against '
          'zero only' % (callee, n) if bad is None else
          '%s() compares the result of %s() with a count of its own: the result is the length of the stitched buffer '
          '(carried-over bytes plus the new piece), so every piece that follows a carried-over part header fails although '
          'it was handled - the outcome depends on where the transport cut the response'
          % (bad[0].name, callee), bad[1].file if bad else fn.file, bad[1].line if bad else fn.line, config=config)
    return n

"""R6.stale-cache: a local that caches a quantity derived from a context field must be recomputed (assigned)
after every call that can write that field, before it is used again."""
from ..ir import strip, strip_transparent, show, callee_name, callee_field, const_value, walk, walk_stmts
from ..program import all_exprs, is_assign_op
from .common import FactRule, run_rule, last_field, pstr


def field_writers(prog, fields):
    """qname -> set of the given member names the function may write, transitively (slots resolved)."""
    direct = {}
    for q, fn in prog.funcs.items():
        w = set()
        for ex in all_exprs(fn):
            for n in walk(ex):
                if n.k == 'bin' and is_assign_op(n.op):
                    f = last_field(n.a[0])
                    if f in fields and strip(n.a[0]).k == 'mem':
                        w.add(f)
                elif n.k == 'un' and n.op in ('++', '--'):
                    f = last_field(n.a[0])
                    if f in fields and strip(n.a[0]).k == 'mem':
                        w.add(f)
                elif n.k == 'call' and callee_name(n) == 'memset' and len(n.a) > 1:
                    t = strip(n.a[1]).t or ''
                    if 'zckComp' in t or 'zckCtx' in t:
                        w |= set(fields)
        direct[q] = w
    cg = prog.callgraph()
    changed = True
    while changed:
        changed = False
        for q in direct:
            for c, fs, exs in cg[q]:
                for t in fs:
                    add = direct.get(t.qname, set()) - direct[q]
                    if add:
                        direct[q] |= add
                        changed = True
    return direct


class StaleRule(FactRule):
    name = 'R6.stale-cache'

    def __init__(self, prog, fn, fields):
        FactRule.__init__(self, prog, fn)
        self.fields = set(fields)
        self.writers = field_writers(prog, self.fields)
        self.caches = {}     # decl -> (name, field)
        self.cache_defs = {}  # local name -> member names in its defining expressions
        self.uses = 0

    def derived_from(self, rhs, ts):
        out = set()
        if rhs is None:
            return out
        for n in walk(rhs):
            if n.k == 'mem' and n.op in self.fields:
                out.add(n.op)
            if n.k == 'var':
                for it in ts:
                    if isinstance(it, tuple) and it[0] == 'cache' and it[1] == n.decl:
                        out.add(it[2])
        return out

    def on_assign(self, ctx, lhs, rhs, op, value, ts):
        if ctx.fn is not self.fn:
            return ts
        l = strip(lhs)
        if l.k == 'var':
            was_cache = set(it[2] for it in ts if isinstance(it, tuple) and it[0] == 'cache' and it[1] == l.decl)
            if op == '=':
                src = self.derived_from(rhs, ts)
            else:
                # an update of an accumulator by a derived amount does not make it a cache; an update of a
                # cache keeps it one and refreshes it
                src = was_cache
            ts = frozenset(it for it in ts if not (isinstance(it, tuple) and it[0] in ('cache', 'stale', 'spent') and it[1] == l.decl))
            for f in src:
                ts = ts | frozenset([('cache', l.decl, f)])
                self.caches[l.decl] = l.op
                if op == '=' and rhs is not None:
                    self.cache_defs.setdefault(l.op, set()).update(n.op for n in walk(rhs) if n.k == 'mem')
        return ts

    def check_uses(self, ctx, e, ts, what, writer_call=False):
        if e is None:
            return
        for n in walk(e):
            if n.k == 'var':
                for it in ts:
                    if isinstance(it, tuple) and it[0] == 'stale' and it[1] == n.decl:
                        self.violate(ctx, 'stale', 'local %s caches a value derived from %s, which %s() may have changed '
                                     'since; it is used here (%s) without having been recomputed' % (
                                         n.op, it[2], it[3], what), inst='%s<-%s' % (n.op, it[2]))
                    if writer_call and isinstance(it, tuple) and it[0] == 'spent' and it[1] == n.decl:
                        self.violate(ctx, 'stale', 'local %s was derived from %s and already handed to %s(), which '
                                     'changed %s; it is handed over again (%s) without having been recomputed' % (
                                         n.op, it[2], it[3], it[2], what), inst='%s<-%s' % (n.op, it[2]))

    def writes_fields(self, ctx, call):
        fs, exs = self.prog.call_targets(ctx.fn, call)
        written = set()
        for t in fs:
            written |= self.writers.get(t.qname, set())
        return written

    def on_call(self, ctx, call, ts):
        if ctx.fn is not self.fn:
            return ts
        w = bool(self.writes_fields(ctx, call))
        for a in call.a[1:]:
            self.check_uses(ctx, a, ts, 'argument of %s()' % (callee_name(call) or callee_field(call)), writer_call=w)
        return ts

    def after_call(self, ctx, call, ts, mask):
        if ctx.fn is not self.fn:
            return ts
        written = self.writes_fields(ctx, call)
        if written:
            name = callee_name(call) or callee_field(call)
            argvars = set(n.decl for a in call.a[1:] for n in walk(a) if n.k == 'var')
            for it in list(ts):
                if isinstance(it, tuple) and it[0] == 'cache' and it[2] in written:
                    # the amount that was handed to this very call is "spent": it may still be compared with the
                    # call's result or used to advance cursors, but not handed to a writer again; any other cached
                    # value is stale
                    kind = 'spent' if it[1] in argvars else 'stale'
                    if kind == 'stale' and ('spent', it[1], it[2], name) in ts:
                        pass
                    ts = ts | frozenset([(kind, it[1], it[2], name)])
                    if kind == 'stale':
                        ts = frozenset(x for x in ts if not (isinstance(x, tuple) and x[0] == 'spent' and x[1] == it[1]))
        return ts

    def on_node(self, ctx, node, ts):
        if ctx.fn is self.fn and node.k in ('branch', 'switch') and node.e is not None:
            self.uses += 1
            self.check_uses(ctx, node.e, ts, 'condition `%s`' % show(node.e)[:50])
        return ts


def check_stale(ck, prog, config, clause, fn_name, fields):
    fn = prog.need_func(fn_name)
    r = StaleRule(prog, fn, fields)
    run_rule(prog, fn, r)
    by = {}
    for v in r.violations:
        by.setdefault(v.inst, v)
    if not by:
        ck.ob(clause, 'R6.stale-cache', fn_name, ','.join(sorted(fields)), True,
              'no local derived from %s is used after a call that can change it without being recomputed (%d cached '
              'local(s): %s)' % ('/'.join(sorted(fields)), len(r.caches), ', '.join(sorted(set(r.caches.values())))),
              fn.file, fn.line, config=config)
    for inst, v in sorted(by.items()):
        ck.ob(clause, 'R6.stale-cache', fn_name, inst, False, v.msg, v.node.file, v.node.line, path=v.path,
              config=config)
    return r

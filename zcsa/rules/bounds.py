"""R9.bounds   effective chunk bounds stay inside the configured ones (linear path constraints + Fourier-Motzkin).

comp_init derives the automatic bounds from the average size and clamps them by the configured minimum and maximum.
For every success exit that assigned chunk_auto_max the rule collects the path's comparison edges as linear
constraints over symbols (entry values of the configured fields, one fresh symbol per non-linear right-hand side)
and asks whether   chunk_auto_max > chunk_max_size   is satisfiable at the exit under
    (entry) chunk_min_size == 0  or  chunk_min_size <= chunk_max_size
which is what the two option setters establish (checked as the second obligation: every store to chunk_min_size /
chunk_max_size outside comp_init and the context life-cycle is dominated by the corresponding comparison).
Satisfiable = a configuration exists for which every automatic chunk may exceed the configured maximum.
"""
from ..flow import P1, POS
from ..ir import strip, show, const_value
from .common import SymRule, run_rule, Lin, lin, pstr, last_field, atom_cmp, ENTRY, assigned_fields
from .guardlen import fm_feasible

FIELDS = ('chunk_min_size', 'chunk_max_size', 'chunk_auto_min', 'chunk_auto_max')


def cons_of(op, lv, rv):
    """comparison that holds -> list of Lin meaning L >= 0 (integers)."""
    d = rv - lv
    if op == '<':
        return [d - Lin(None, 1)]
    if op == '<=':
        return [d]
    if op == '>':
        return [(-d) - Lin(None, 1)]
    if op == '>=':
        return [-d]
    if op == '==':
        return [d, -d]
    if op == '!=' and rv.is_const() and rv.c == 0:
        return [lv - Lin(None, 1)]     # unsigned and not zero
    return []


class Bounds(SymRule):
    name = 'R9.bounds'
    track_fields = FIELDS

    def __init__(self, prog, fn, mode):
        SymRule.__init__(self, prog, fn)
        self.mode = mode          # 'init' or 'setter'
        self.exits = 0
        self.stores = 0

    def relevant(self, e):
        from ..ir import walk
        return any((n.k == 'mem' and n.op in FIELDS) or (n.k == 'var' and n.op == 'value') for n in walk(e))

    def on_edge(self, ctx, node, label, refined, ts):
        if ctx.fn is not self.fn:
            return ts
        op, l, r = atom_cmp(node.e, label)
        lv, rv = self.value(l, ts), self.value(r, ts)
        if lv is None or rv is None:
            return ts
        if not (self.relevant(l) or self.relevant(r)):
            return ts
        for c in cons_of(op, lv, rv):
            ts = ts | frozenset([('c', c)])
        return ts

    def constraints(self, ts):
        return [x[1] for x in ts if isinstance(x, tuple) and len(x) == 2 and x[0] == 'c']

    def entry_name(self, ts, path):
        _, fields = self.env_of(ts)
        return path + ENTRY if path in fields else path

    def feasible(self, ts, extra, zck='zck'):
        """cases of the setter invariant on the entry values; all symbols are unsigned"""
        cons = self.constraints(ts) + extra
        m0 = self.entry_name(ts, '%s->chunk_min_size' % zck)
        M0 = self.entry_name(ts, '%s->chunk_max_size' % zck)
        syms = set(k for c in cons for k in c.t) | set([m0, M0])
        nonneg = [Lin({k: 1}) for k in syms]
        for case, pre in (('chunk_min_size unset', [Lin({m0: -1})]),
                          ('chunk_min_size <= chunk_max_size', [Lin({M0: 1, m0: -1})])):
            w = fm_feasible(cons + nonneg + pre)
            if w is not None:
                return case, w
        return None

    def sym_assign(self, ctx, lhs, rhs, op, ts):
        if self.mode != 'setter' or ctx.fn is not self.fn:
            return ts
        f = last_field(lhs)
        if f not in ('chunk_min_size', 'chunk_max_size') or strip(lhs).k != 'mem' or op != '=':
            return ts
        self.stores += 1
        base = pstr(lhs).rsplit('->', 1)[0]
        _, fields = self.env_of(ts)
        new = fields.get(pstr(lhs))
        other = '%s->%s' % (base, 'chunk_max_size' if f == 'chunk_min_size' else 'chunk_min_size')
        ov = self.value_of_path(other, ts)
        if new is None:
            return ts
        # violated if (min > max) is satisfiable together with the path constraints
        bad = (new - ov - Lin(None, 1)) if f == 'chunk_min_size' else (ov - new - Lin(None, 1))
        cons = self.constraints(ts) + [bad]
        syms = set(k for c in cons for k in c.t)
        # a store to the maximum while no minimum was configured (0) is always in order
        w = fm_feasible(cons + [Lin({k: 1}) for k in syms if not k.startswith('value')])
        if w is not None:
            self.violate(ctx, 'setter-order', '%s stores %s without a dominating test against %s: the configured '
                         'bounds can end up with chunk_min_size > chunk_max_size (e.g. %s)' % (
                             self.fn.name, show(lhs), other.split('->')[-1],
                             ', '.join('%s=%s' % (k, v) for k, v in sorted(w.items())) or 'any values'), inst=f)
        return ts

    def value_of_path(self, path, ts):
        _, fields = self.env_of(ts)
        return fields.get(path, Lin({path: 1}))

    def on_return(self, ctx, node, mask, ts):
        if self.mode != 'init' or ctx.fn is not self.fn or not (mask & (P1 | POS)):
            return ts
        _, fields = self.env_of(ts)
        am = [k for k in fields if k.endswith('->chunk_auto_max')]
        if not am:
            return ts
        self.exits += 1
        zck = am[0].rsplit('->', 1)[0]
        A = fields[am[0]]
        M = self.value_of_path('%s->chunk_max_size' % zck, ts)
        res = self.feasible(ts, [A - M - Lin(None, 1)], zck)
        if res is not None:
            case, w = res
            self.violate(ctx, 'auto-max-above-max', 'comp_init can return with chunk_auto_max > chunk_max_size (%s; e.g. %s): '
                         'every automatic chunk may then exceed the configured maximum chunk size' % (
                             case, ', '.join('%s=%s' % (k.split('->')[-1], v) for k, v in sorted(w.items()))[:200]),
                         inst='auto_max<=max_size', node=node)
        return ts


def check_bounds(ck, prog, config, clause):
    ci = prog.need_func('comp_init')
    r = Bounds(prog, ci, 'init')
    run_rule(prog, ci, r)
    ck.require(r.exits >= 1, 'comp_init: no success exit that assigned chunk_auto_max')
    ck.ob(clause, 'R9.bounds', ci.name, 'auto_max<=max_size', not r.violations,
          'at every automatic-mode success exit chunk_auto_max <= chunk_max_size is implied by the path\'s comparison '
          'edges and the setter invariant (%d exit states, Fourier-Motzkin)' % r.exits if not r.violations else
          r.violations[0].msg, ci.file, r.violations[0].node.line if r.violations else ci.line,
          path=r.violations[0].path if r.violations else None, config=config)
    # the setter invariant itself
    LIFE = ('comp_init', 'zck_create', 'zck_clear', 'zck_free', 'zck_init_write', 'zck_init_read', 'zck_init_adv_read')
    n = 0
    for fn in sorted(prog.lib_funcs(), key=lambda f: f.qname):
        if fn.name in LIFE:
            continue
        if not any(strip(l).op in ('chunk_min_size', 'chunk_max_size') for (l, r_, op, node) in assigned_fields(fn)):
            continue
        s = Bounds(prog, fn, 'setter')
        run_rule(prog, fn, s)
        n += s.stores
        ck.ob(clause, 'R9.bounds', fn.name, 'setter-order', not s.violations,
              '%d store(s) to the configured bounds, each dominated by the test that keeps chunk_min_size <= '
              'chunk_max_size' % s.stores if not s.violations else s.violations[0].msg, fn.file,
              s.violations[0].node.line if s.violations else fn.line,
              path=s.violations[0].path if s.violations else None, config=config)
    ck.min_instances('stores to the configured chunk bounds in setters', n, 2)

"""R4.buffer-extent   what is written into a block allocated in the same function fits the block.

For every library function that allocates a block into a local (zmalloc/malloc/calloc(1,n)/zrealloc) and later hands
the local (plus an offset) to a primitive that reads n bytes from a descriptor into it - read_data(), read() -
the rule decides, per path, whether  offset + n > allocated size  is satisfiable under the path's comparison edges
(linear values, Fourier-Motzkin; constraints that speak about loop-carried symbols restart at the loop head).
Unsigned symbols are non-negative.  A size or length that is not linear is skipped and counted.
"""
from ..ir import strip, show, callee_name, const_value, is_unsigned_type
from .common import SymRule, run_rule, Lin, pstr, atom_cmp
from .bounds import cons_of
from .guardlen import fm_feasible

ALLOCS = ('zmalloc', 'malloc', 'calloc', 'zrealloc', 'realloc')
# callee -> (index of the destination, index of the length) in call.a[1:]
# (copies between buffers are the business of R4.alloc-copy; this rule is about bytes that come from a file)
WRITERS = {'read_data': (1, 2), 'read': (1, 2)}


class Extent(SymRule):
    name = 'R4.buffer-extent'

    def __init__(self, prog, fn):
        SymRule.__init__(self, prog, fn)
        self.checked = 0
        self.skipped = 0
        # names that matter: everything that occurs in an allocation size or in the destination / length of a
        # writer, closed over the assignments that define them
        from ..program import all_exprs
        from ..ir import calls_in, walk
        rel = set()
        for ex in all_exprs(fn):
            for c in calls_in(ex):
                cn = callee_name(c)
                if cn in ALLOCS or cn in WRITERS:
                    for a in c.a[1:]:
                        rel |= set(n.op for n in walk(a) if n.k in ('var', 'mem'))
        changed = True
        while changed:
            changed = False
            for ex in all_exprs(fn):
                for n in walk(ex):
                    if n.k == 'bin' and n.op.endswith('=') and n.op not in ('==', '!=', '<=', '>='):
                        l = strip(n.a[0])
                        if l is not None and l.k in ('var', 'mem') and l.op in rel:
                            new = set(x.op for x in walk(n.a[1]) if x.k in ('var', 'mem')) - rel
                            if new:
                                rel |= new
                                changed = True
            from ..ir import walk_stmts
            for st in walk_stmts(fn.body):
                if st.k == 'decl' and st.e is not None and st.var.op in rel:
                    new = set(x.op for x in walk(st.e) if x.k in ('var', 'mem')) - rel
                    if new:
                        rel |= new
                        changed = True
        self.relevant = rel

    def cons(self, ts):
        return [x[1] for x in ts if isinstance(x, tuple) and len(x) == 2 and x[0] == 'c']

    def on_node(self, ctx, node, ts):
        ts = SymRule.on_node(self, ctx, node, ts)
        if ctx.fn is self.fn and node.loop is not None:
            tag = '@L%d' % node.line
            ts = frozenset(x for x in ts if not (isinstance(x, tuple) and len(x) == 2 and x[0] == 'c' and
                                                 any(tag in k for k in x[1].t)))
        return ts

    def on_edge(self, ctx, node, label, refined, ts):
        if ctx.fn is not self.fn:
            return ts
        op, l, r = atom_cmp(node.e, label)
        from ..ir import walk
        names = set(n.op for x in (l, r) for n in walk(x) if n.k in ('var', 'mem'))
        if not names or not names <= self.relevant:
            return ts
        lv, rv = self.value(l, ts), self.value(r, ts)
        if lv is not None and rv is not None and (lv.t or rv.t):
            for c in cons_of(op, lv, rv):
                ts = ts | frozenset([('c', c)])
        return ts

    def sym_assign(self, ctx, lhs, rhs, op, ts):
        l = strip(lhs)
        if l is not None and l.k == 'var' and op == '=' and rhs is not None:
            ts = frozenset(x for x in ts if not (isinstance(x, tuple) and len(x) == 4 and x[0] == 'blk' and x[1] == l.decl))
            r = strip(rhs)
            while r is not None and r.k == 'cast' and r.a:
                r = strip(r.a[0])
            if r is not None and r.k == 'call' and callee_name(r) in ALLOCS:
                n = callee_name(r)
                if n == 'calloc':
                    a, b = self.value(r.a[1], ts), self.value(r.a[2], ts)
                    size = b if (a is not None and a.is_const() and a.c == 1) else (a if (b is not None and b.is_const() and b.c == 1) else None)
                elif n in ('zrealloc', 'realloc'):
                    size = self.value(r.a[2], ts)
                else:
                    size = self.value(r.a[1], ts)
                if size is None:
                    # size chosen by a conditional expression: one alternative per arm, each under its condition
                    sz = strip(r.a[-1] if n not in ('calloc',) else r.a[2])
                    while sz is not None and sz.k == 'cast' and sz.a:
                        sz = strip(sz.a[0])
                    if sz is not None and sz.k == 'cond':
                        c0 = strip(sz.a[0])
                        while c0 is not None and c0.k == 'cast' and c0.a:
                            c0 = strip(c0.a[0])
                        if c0 is not None and c0.k == 'bin' and c0.op in ('<', '<=', '>', '>=', '==', '!='):
                            lv, rv = self.value(c0.a[0], ts), self.value(c0.a[1], ts)
                            va, vb = self.value(sz.a[1], ts), self.value(sz.a[2], ts)
                            neg = {'<': '>=', '<=': '>', '>': '<=', '>=': '<', '==': '!=', '!=': '=='}[c0.op]
                            if None not in (lv, rv, va, vb):
                                ts = ts | frozenset([('blk', l.decl, va, tuple(cons_of(c0.op, lv, rv))),
                                                     ('blk', l.decl, vb, tuple(cons_of(neg, lv, rv)))])
                                ts = self.set_key(ts, ('v', l.decl), Lin({'&' + l.op: 1}))
                                self.alts = getattr(self, 'alts', 0) + 1
                    if not any(isinstance(x, tuple) and x[0] == 'blk' and x[1] == l.decl for x in ts):
                        self.unknown_sizes = getattr(self, 'unknown_sizes', []) + [(l.op, ctx.node)]
                if size is not None:
                    ts = ts | frozenset([('blk', l.decl, size, ())])
                    ts = self.set_key(ts, ('v', l.decl), Lin({'&' + l.op: 1}))
        return ts

    def sym_call(self, ctx, call, ts):
        n = callee_name(call)
        if n not in WRITERS:
            return ts
        di, li = WRITERS[n]
        args = call.a[1:]
        if max(di, li) >= len(args):
            return ts
        dv = self.value(args[di], ts)
        if dv is None:
            return ts
        for x in ts:
            if isinstance(x, tuple) and len(x) == 4 and x[0] == 'blk':
                base = None
                for v in list(self.fn.locals.values()):
                    if v.decl == x[1]:
                        base = '&' + v.op
                if base is None or dv.t.get(base) != 1:
                    continue
                off = dv - Lin({base: 1})
                ln = self.value(args[li], ts)
                if ln is None:
                    self.skipped += 1
                    continue
                self.checked += 1
                size = x[2]
                over = off + ln - size - Lin(None, 1)          # off + n - size - 1 >= 0
                syms = set(k for c in self.cons(ts) for k in c.t) | set(over.t)
                syms |= set(k for c in x[3] for k in c.t)
                w = fm_feasible(self.cons(ts) + list(x[3]) + [over] + [Lin({k: 1}) for k in syms])
                if w is not None:
                    self.violate(ctx, 'overrun', '%s() writes %r bytes at offset %r into %s, allocated with %r bytes on this path: '
                                 'nothing bounds the length by the allocation (e.g. %s)' % (
                                     n, ln, off, base[1:], size,
                                     ', '.join('%s=%s' % kv for kv in sorted(w.items())[:5])), inst='%s->%s' % (n, base[1:]))
        return ts


def check_buffer_extents(ck, prog, config, clause, only=None):
    total = 0
    for fn in sorted(prog.lib_funcs(), key=lambda f: f.qname):
        if only is not None and fn.name not in only:
            continue
        from ..program import all_exprs
        from ..ir import calls_in
        names = set(callee_name(c) for ex in all_exprs(fn) for c in calls_in(ex))
        if not (names & set(ALLOCS)) or not (names & set(WRITERS)):
            continue
        r = Extent(prog, fn)
        run_rule(prog, fn, r)
        for nm, nd in getattr(r, 'unknown_sizes', []):
            # a block whose size the linear domain cannot express and that receives descriptor data: undecided
            for ex in all_exprs(fn):
                for c in calls_in(ex):
                    if callee_name(c) in WRITERS:
                        d = c.a[1:][WRITERS[callee_name(c)][0]]
                        from ..ir import walk as _w
                        if any(x.k == 'var' and x.op == nm for x in _w(d)):
                            ck.require(False, '%s: %s receives data from a descriptor but its allocation size at line %d '
                                       'is not a linear expression' % (fn.name, nm, getattr(nd, 'line', 0)))
        if not r.checked and not r.violations:
            continue
        total += r.checked
        by = {}
        for v in r.violations:
            by.setdefault(v.inst, v)
        if not by:
            ck.ob(clause, 'R4.buffer-extent', fn.name, 'writes', True,
                  '%d write state(s) into blocks allocated in the function, all within the allocated size (%d with a '
                  'non-linear length skipped)' % (r.checked, r.skipped), fn.file, fn.line, config=config)
        for inst, v in sorted(by.items()):
            ck.ob(clause, 'R4.buffer-extent', fn.name, inst, False, v.msg, v.node.file, v.node.line, path=v.path,
                  config=config)
    return total

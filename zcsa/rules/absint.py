"""R9: two small abstract interpreters.

1. Piecewise-affine partition domain for a pure, loop-free function of ONE
   bounded integer parameter (hex_to_int): the abstract state is a finite
   partition of the parameter's range into intervals; on each interval every
   variable is an affine function a*c + b of the parameter c.  Comparisons
   against constants split intervals at the threshold; division and remainder
   by a constant split at the multiples of the divisor (C truncating semantics).
   The result is exact for the fragment {+ - * const, / const, % const,
   comparisons, assignments, if/&&/||, return}; any other construct raises
   AnalysisBroken.  No value of the parameter is ever "run": intervals are
   transformed symbolically.
"""
from ..ir import strip, strip_transparent, const_value, show, type_width, is_unsigned_type
from ..cfg import build_cfg
from ..frontend import AnalysisBroken


def tdiv(a, b):
    q = abs(a) // abs(b)
    return q if (a >= 0) == (b > 0) else -q


class Aff(object):
    """a*c + b"""
    __slots__ = ('a', 'b')

    def __init__(self, a, b):
        self.a = a
        self.b = b

    def at(self, c):
        return self.a * c + self.b

    def rng(self, lo, hi):
        x, y = self.at(lo), self.at(hi)
        return (min(x, y), max(x, y))

    def __repr__(self):
        if self.a == 0:
            return str(self.b)
        s = 'c' if self.a == 1 else '%d*c' % self.a
        if self.b:
            s += ('+%d' % self.b) if self.b > 0 else str(self.b)
        return s


class Piece(object):
    def __init__(self, lo, hi, env):
        self.lo = lo
        self.hi = hi
        self.env = env


class AffineInterp(object):
    def __init__(self, fn, lo, hi):
        self.fn = fn
        if len(fn.params) != 1:
            raise AnalysisBroken('%s: affine interpreter needs exactly one parameter' % fn.name)
        self.param = fn.params[0]
        self.lo = lo
        self.hi = hi
        self.results = []   # (lo, hi, Aff)
        self.steps = 0

    # ---- expression evaluation over one interval; may request a split
    class Split(Exception):
        def __init__(self, points):
            self.points = points   # first values of new right-hand pieces

    def ev(self, e, p):
        e = strip_transparent(e)
        if e.k == 'cast':
            v = self.ev(e.a[0], p)
            if e.op == 'IntegralCast':
                w = type_width(e.t, e.dt)
                lo, hi = v.rng(p.lo, p.hi)
                if w is not None:
                    if is_unsigned_type(e.t, e.dt):
                        ok = lo >= 0 and hi < (1 << w)
                    else:
                        ok = lo >= -(1 << (w - 1)) and hi < (1 << (w - 1))
                    if not ok:
                        raise AnalysisBroken('%s: value range [%d,%d] does not fit the %s it is converted to at '
                                             'line %d (wrap-around outside the affine fragment)'
                                             % (self.fn.name, lo, hi, e.t, e.line))
                return v
            return v
        cv = const_value(e)
        if cv is not None:
            return Aff(0, cv)
        if e.k == 'var':
            if e.decl in p.env:
                return p.env[e.decl]
            raise AnalysisBroken('%s: read of uninitialised or non-local %s at line %d' % (self.fn.name, e.op, e.line))
        if e.k == 'un' and e.op == '-':
            v = self.ev(e.a[0], p)
            return Aff(-v.a, -v.b)
        if e.k == 'un' and e.op == '+':
            return self.ev(e.a[0], p)
        if e.k == 'bin':
            op = e.op
            if op in ('+', '-'):
                l, r = self.ev(e.a[0], p), self.ev(e.a[1], p)
                return Aff(l.a + r.a, l.b + r.b) if op == '+' else Aff(l.a - r.a, l.b - r.b)
            if op == '*':
                l, r = self.ev(e.a[0], p), self.ev(e.a[1], p)
                if l.a == 0:
                    return Aff(r.a * l.b, r.b * l.b)
                if r.a == 0:
                    return Aff(l.a * r.b, l.b * r.b)
                raise AnalysisBroken('%s: non-linear product at line %d' % (self.fn.name, e.line))
            if op in ('/', '%'):
                l, r = self.ev(e.a[0], p), self.ev(e.a[1], p)
                if r.a != 0 or r.b == 0:
                    raise AnalysisBroken('%s: divisor is not a non-zero constant at line %d' % (self.fn.name, e.line))
                k = r.b
                q_lo, q_hi = tdiv(l.at(p.lo), k), tdiv(l.at(p.hi), k)
                if l.a == 0:
                    q = q_lo
                elif q_lo != q_hi:
                    # split where the quotient changes
                    pts = []
                    prev = q_lo
                    for c in range(p.lo + 1, p.hi + 1):
                        q = tdiv(l.at(c), k)
                        if q != prev:
                            pts.append(c)
                            prev = q
                    raise AffineInterp.Split(pts)
                else:
                    q = q_lo
                if op == '/':
                    return Aff(0, q)
                return Aff(l.a, l.b - k * q)
        raise AnalysisBroken('%s: construct outside the affine fragment at line %d: %s' % (self.fn.name, e.line, show(e)))

    def truth(self, atom, p):
        """True/False when the atom has one truth value on the whole piece;
        otherwise raise Split at the threshold."""
        a = strip_transparent(atom)
        while a.k == 'cast':
            a = a.a[0]
        if a.k == 'bin' and a.op in ('<', '>', '<=', '>=', '==', '!='):
            l, r = self.ev(a.a[0], p), self.ev(a.a[1], p)
            d = Aff(l.a - r.a, l.b - r.b)   # l - r
            vals = None
            lo, hi = d.at(p.lo), d.at(p.hi)

            def holds(v):
                return {'<': v < 0, '>': v > 0, '<=': v <= 0, '>=': v >= 0, '==': v == 0, '!=': v != 0}[a.op]
            t_lo, t_hi = holds(lo), holds(hi)
            if d.a == 0:
                return t_lo
            # find change points
            pts = []
            prev = t_lo
            for c in range(p.lo + 1, p.hi + 1):
                t = holds(d.at(c))
                if t != prev:
                    pts.append(c)
                    prev = t
            if pts:
                raise AffineInterp.Split(pts)
            return t_lo
        # truthiness
        v = self.ev(a, p)
        fake_lo, fake_hi = v.at(p.lo), v.at(p.hi)
        if v.a == 0:
            return v.b != 0
        pts = []
        prev = fake_lo != 0
        for c in range(p.lo + 1, p.hi + 1):
            t = v.at(c) != 0
            if t != prev:
                pts.append(c)
                prev = t
        if pts:
            raise AffineInterp.Split(pts)
        return prev

    def assign(self, e, p):
        """Execute the assignments of expression statement e on piece p."""
        e2 = strip(e)
        if e2.k == 'bin' and e2.op in ('=', '+=', '-=', '*='):
            lhs = strip(e2.a[0])
            if lhs.k != 'var':
                raise AnalysisBroken('%s: store to non-local at line %d' % (self.fn.name, e2.line))
            rhs = self.ev(e2.a[1], p)
            if e2.op != '=':
                cur = self.ev(e2.a[0], p)
                if e2.op == '+=':
                    rhs = Aff(cur.a + rhs.a, cur.b + rhs.b)
                elif e2.op == '-=':
                    rhs = Aff(cur.a - rhs.a, cur.b - rhs.b)
                else:
                    if rhs.a != 0 and cur.a != 0:
                        raise AnalysisBroken('%s: non-linear product at line %d' % (self.fn.name, e2.line))
                    rhs = Aff(cur.a * rhs.b, cur.b * rhs.b) if rhs.a == 0 else Aff(rhs.a * cur.b, rhs.b * cur.b)
            self.narrow_check(lhs, rhs, p, e2.line)
            env = dict(p.env)
            env[lhs.decl] = rhs
            return Piece(p.lo, p.hi, env)
        if e2.k == 'un' and e2.op in ('++', '--'):
            lhs = strip(e2.a[0])
            cur = self.ev(e2.a[0], p)
            new = Aff(cur.a, cur.b + (1 if e2.op == '++' else -1))
            self.narrow_check(lhs, new, p, e2.line)
            env = dict(p.env)
            env[lhs.decl] = new
            return Piece(p.lo, p.hi, env)
        if e2.k == 'call':
            raise AnalysisBroken('%s: call inside a function analysed as pure (line %d)' % (self.fn.name, e2.line))
        # expression without effect
        return p

    def narrow_check(self, lhs, val, p, line):
        w = type_width(lhs.t, lhs.dt)
        if w is None:
            return
        lo, hi = val.rng(p.lo, p.hi)
        if is_unsigned_type(lhs.t, lhs.dt):
            ok = lo >= 0 and hi < (1 << w)
        else:
            ok = lo >= -(1 << (w - 1)) and hi < (1 << (w - 1))
        if not ok:
            raise AnalysisBroken('%s: value range [%d,%d] stored into %s %s at line %d does not fit (wrap-around '
                                 'outside the affine fragment)' % (self.fn.name, lo, hi, lhs.t, lhs.op, line))

    def run(self):
        g = build_cfg(self.fn)
        start = Piece(self.lo, self.hi, {self.param.decl: Aff(1, 0)})
        work = [(g.entry, start)]
        while work:
            self.steps += 1
            if self.steps > 200000:
                raise AnalysisBroken('%s: affine interpreter did not converge (loop?)' % self.fn.name)
            node, p = work.pop()
            try:
                if node.k in ('entry', 'join'):
                    for m, lab in node.succ:
                        work.append((m, p))
                elif node.k == 'exit':
                    raise AnalysisBroken('%s: control reaches the end without a return' % self.fn.name)
                elif node.k == 'stmt':
                    p2 = self.assign(node.e, p)
                    for m, lab in node.succ:
                        work.append((m, p2))
                elif node.k == 'decl':
                    p2 = p
                    if node.e is not None:
                        v = self.ev(node.e, p)
                        self.narrow_check(node.var, v, p, node.line)
                        env = dict(p.env)
                        env[node.var.decl] = v
                        p2 = Piece(p.lo, p.hi, env)
                    for m, lab in node.succ:
                        work.append((m, p2))
                elif node.k == 'branch':
                    t = self.truth(node.e, p)
                    for m, lab in node.succ:
                        if bool(lab) == t:
                            work.append((m, p))
                elif node.k == 'ret':
                    v = self.ev(node.e, p)
                    self.results.append((p.lo, p.hi, v, node.line))
                else:
                    raise AnalysisBroken('%s: unsupported control construct (%s) at line %d' % (
                        self.fn.name, node.k, node.line))
            except AffineInterp.Split as sp:
                cuts = [p.lo] + sorted(set(sp.points)) + [p.hi + 1]
                for i in range(len(cuts) - 1):
                    work.append((node, Piece(cuts[i], cuts[i + 1] - 1, p.env)))
        self.results.sort(key=lambda r: r[0])
        # coverage
        pos = self.lo
        for lo, hi, v, line in self.results:
            if lo != pos:
                raise AnalysisBroken('%s: partition does not cover the input range at %d' % (self.fn.name, pos))
            pos = hi + 1
        if pos != self.hi + 1:
            raise AnalysisBroken('%s: partition does not cover the input range' % self.fn.name)
        return self.results


def describe_set(points):
    """Compact rendering of a set of character codes."""
    pts = sorted(points)
    out = []
    i = 0
    while i < len(pts):
        j = i
        while j + 1 < len(pts) and pts[j + 1] == pts[j] + 1:
            j += 1

        def ch(v):
            return repr(chr(v)) if 32 <= v < 127 else str(v)
        out.append(ch(pts[i]) if i == j else '%s..%s' % (ch(pts[i]), ch(pts[j])))
        i = j + 1
    return ' '.join(out)

"""R9: two small abstract interpreters.

1. Piecewise-affine partition domain for a pure, loop-free function of ONE
   bounded integer parameter (hex_to_int): the abstract state is a finite
   partition of the parameter's range into intervals; on each interval every
   variable is an affine function a*c + b of the parameter c.  Comparisons
   against constants split intervals at the threshold; division and remainder
   by a constant split at the multiples of the divisor (C truncating semantics).
   The result is exact for the fragment {+ - * const, / const, % const,
   comparisons, assignments, if/&&/||, return}; any other construct raises
   AnalysisBroken.  No value of the parameter is ever "run": intervals are
   transformed symbolically.
"""
from ..ir import strip, strip_transparent, const_value, show, type_width, is_unsigned_type
from ..cfg import build_cfg
from ..frontend import AnalysisBroken


def tdiv(a, b):
    q = abs(a) // abs(b)
    return q if (a >= 0) == (b > 0) else -q


class Aff(object):
    """a*c + b"""
    __slots__ = ('a', 'b')

    def __init__(self, a, b):
        self.a = a
        self.b = b

    def at(self, c):
        return self.a * c + self.b

    def rng(self, lo, hi):
        x, y = self.at(lo), self.at(hi)
        return (min(x, y), max(x, y))

    def __repr__(self):
        if self.a == 0:
            return str(self.b)
        s = 'c' if self.a == 1 else '%d*c' % self.a
        if self.b:
            s += ('+%d' % self.b) if self.b > 0 else str(self.b)
        return s


class Piece(object):
    def __init__(self, lo, hi, env):
        self.lo = lo
        self.hi = hi
        self.env = env


class AffineInterp(object):
    def __init__(self, fn, lo, hi):
        self.fn = fn
        if len(fn.params) != 1:
            raise AnalysisBroken('%s: affine interpreter needs exactly one parameter' % fn.name)
        self.param = fn.params[0]
        self.lo = lo
        self.hi = hi
        self.results = []   # (lo, hi, Aff)
        self.steps = 0

    # ---- expression evaluation over one interval; may request a split
    class Split(Exception):
        def __init__(self, points):
            self.points = points   # first values of new right-hand pieces

    def ev(self, e, p):
        e = strip_transparent(e)
        if e.k == 'cast':
            v = self.ev(e.a[0], p)
            if e.op == 'IntegralCast':
                w = type_width(e.t, e.dt)
                lo, hi = v.rng(p.lo, p.hi)
                if w is not None:
                    if is_unsigned_type(e.t, e.dt):
                        ok = lo >= 0 and hi < (1 << w)
                    else:
                        ok = lo >= -(1 << (w - 1)) and hi < (1 << (w - 1))
                    if not ok:
                        raise AnalysisBroken('%s: value range [%d,%d] does not fit the %s it is converted to at '
                                             'line %d (wrap-around outside the affine fragment)'
                                             % (self.fn.name, lo, hi, e.t, e.line))
                return v
            return v
        cv = const_value(e)
        if cv is not None:
            return Aff(0, cv)
        if e.k == 'var':
            if e.decl in p.env:
                return p.env[e.decl]
            raise AnalysisBroken('%s: read of uninitialised or non-local %s at line %d' % (self.fn.name, e.op, e.line))
        if e.k == 'un' and e.op == '-':
            v = self.ev(e.a[0], p)
            return Aff(-v.a, -v.b)
        if e.k == 'un' and e.op == '+':
            return self.ev(e.a[0], p)
        if e.k == 'bin':
            op = e.op
            if op in ('+', '-'):
                l, r = self.ev(e.a[0], p), self.ev(e.a[1], p)
                return Aff(l.a + r.a, l.b + r.b) if op == '+' else Aff(l.a - r.a, l.b - r.b)
            if op == '*':
                l, r = self.ev(e.a[0], p), self.ev(e.a[1], p)
                if l.a == 0:
                    return Aff(r.a * l.b, r.b * l.b)
                if r.a == 0:
                    return Aff(l.a * r.b, l.b * r.b)
                raise AnalysisBroken('%s: non-linear product at line %d' % (self.fn.name, e.line))
            if op in ('/', '%'):
                l, r = self.ev(e.a[0], p), self.ev(e.a[1], p)
                if r.a != 0 or r.b == 0:
                    raise AnalysisBroken('%s: divisor is not a non-zero constant at line %d' % (self.fn.name, e.line))
                k = r.b
                q_lo, q_hi = tdiv(l.at(p.lo), k), tdiv(l.at(p.hi), k)
                if l.a == 0:
                    q = q_lo
                elif q_lo != q_hi:
                    # split where the quotient changes
                    pts = []
                    prev = q_lo
                    for c in range(p.lo + 1, p.hi + 1):
                        q = tdiv(l.at(c), k)
                        if q != prev:
                            pts.append(c)
                            prev = q
                    raise AffineInterp.Split(pts)
                else:
                    q = q_lo
                if op == '/':
                    return Aff(0, q)
                return Aff(l.a, l.b - k * q)
        raise AnalysisBroken('%s: construct outside the affine fragment at line %d: %s' % (self.fn.name, e.line, show(e)))

    def truth(self, atom, p):
        """True/False when the atom has one truth value on the whole piece;
        otherwise raise Split at the threshold."""
        a = strip_transparent(atom)
        while a.k == 'cast':
            a = a.a[0]
        if a.k == 'bin' and a.op in ('<', '>', '<=', '>=', '==', '!='):
            l, r = self.ev(a.a[0], p), self.ev(a.a[1], p)
            d = Aff(l.a - r.a, l.b - r.b)   # l - r
            vals = None
            lo, hi = d.at(p.lo), d.at(p.hi)

            def holds(v):
                return {'<': v < 0, '>': v > 0, '<=': v <= 0, '>=': v >= 0, '==': v == 0, '!=': v != 0}[a.op]
            t_lo, t_hi = holds(lo), holds(hi)
            if d.a == 0:
                return t_lo
            # find change points
            pts = []
            prev = t_lo
            for c in range(p.lo + 1, p.hi + 1):
                t = holds(d.at(c))
                if t != prev:
                    pts.append(c)
                    prev = t
            if pts:
                raise AffineInterp.Split(pts)
            return t_lo
        # truthiness
        v = self.ev(a, p)
        fake_lo, fake_hi = v.at(p.lo), v.at(p.hi)
        if v.a == 0:
            return v.b != 0
        pts = []
        prev = fake_lo != 0
        for c in range(p.lo + 1, p.hi + 1):
            t = v.at(c) != 0
            if t != prev:
                pts.append(c)
                prev = t
        if pts:
            raise AffineInterp.Split(pts)
        return prev

    def assign(self, e, p):
        """Execute the assignments of expression statement e on piece p."""
        e2 = strip(e)
        if e2.k == 'bin' and e2.op in ('=', '+=', '-=', '*='):
            lhs = strip(e2.a[0])
            if lhs.k != 'var':
                raise AnalysisBroken('%s: store to non-local at line %d' % (self.fn.name, e2.line))
            rhs = self.ev(e2.a[1], p)
            if e2.op != '=':
                cur = self.ev(e2.a[0], p)
                if e2.op == '+=':
                    rhs = Aff(cur.a + rhs.a, cur.b + rhs.b)
                elif e2.op == '-=':
                    rhs = Aff(cur.a - rhs.a, cur.b - rhs.b)
                else:
                    if rhs.a != 0 and cur.a != 0:
                        raise AnalysisBroken('%s: non-linear product at line %d' % (self.fn.name, e2.line))
                    rhs = Aff(cur.a * rhs.b, cur.b * rhs.b) if rhs.a == 0 else Aff(rhs.a * cur.b, rhs.b * cur.b)
            self.narrow_check(lhs, rhs, p, e2.line)
            env = dict(p.env)
            env[lhs.decl] = rhs
            return Piece(p.lo, p.hi, env)
        if e2.k == 'un' and e2.op in ('++', '--'):
            lhs = strip(e2.a[0])
            cur = self.ev(e2.a[0], p)
            new = Aff(cur.a, cur.b + (1 if e2.op == '++' else -1))
            self.narrow_check(lhs, new, p, e2.line)
            env = dict(p.env)
            env[lhs.decl] = new
            return Piece(p.lo, p.hi, env)
        if e2.k == 'call':
            raise AnalysisBroken('%s: call inside a function analysed as pure (line %d)' % (self.fn.name, e2.line))
        # expression without effect
        return p

    def narrow_check(self, lhs, val, p, line):
        w = type_width(lhs.t, lhs.dt)
        if w is None:
            return
        lo, hi = val.rng(p.lo, p.hi)
        if is_unsigned_type(lhs.t, lhs.dt):
            ok = lo >= 0 and hi < (1 << w)
        else:
            ok = lo >= -(1 << (w - 1)) and hi < (1 << (w - 1))
        if not ok:
            raise AnalysisBroken('%s: value range [%d,%d] stored into %s %s at line %d does not fit (wrap-around '
                                 'outside the affine fragment)' % (self.fn.name, lo, hi, lhs.t, lhs.op, line))

    def run(self):
        g = build_cfg(self.fn)
        start = Piece(self.lo, self.hi, {self.param.decl: Aff(1, 0)})
        work = [(g.entry, start)]
        while work:
            self.steps += 1
            if self.steps > 200000:
                raise AnalysisBroken('%s: affine interpreter did not converge (loop?)' % self.fn.name)
            node, p = work.pop()
            try:
                if node.k in ('entry', 'join'):
                    for m, lab in node.succ:
                        work.append((m, p))
                elif node.k == 'exit':
                    raise AnalysisBroken('%s: control reaches the end without a return' % self.fn.name)
                elif node.k == 'stmt':
                    p2 = self.assign(node.e, p)
                    for m, lab in node.succ:
                        work.append((m, p2))
                elif node.k == 'decl':
                    p2 = p
                    if node.e is not None:
                        v = self.ev(node.e, p)
                        self.narrow_check(node.var, v, p, node.line)
                        env = dict(p.env)
                        env[node.var.decl] = v
                        p2 = Piece(p.lo, p.hi, env)
                    for m, lab in node.succ:
                        work.append((m, p2))
                elif node.k == 'branch':
                    t = self.truth(node.e, p)
                    for m, lab in node.succ:
                        if bool(lab) == t:
                            work.append((m, p))
                elif node.k == 'ret':
                    v = self.ev(node.e, p)
                    self.results.append((p.lo, p.hi, v, node.line))
                else:
                    raise AnalysisBroken('%s: unsupported control construct (%s) at line %d' % (
                        self.fn.name, node.k, node.line))
            except AffineInterp.Split as sp:
                cuts = [p.lo] + sorted(set(sp.points)) + [p.hi + 1]
                for i in range(len(cuts) - 1):
                    work.append((node, Piece(cuts[i], cuts[i + 1] - 1, p.env)))
        self.results.sort(key=lambda r: r[0])
        # coverage
        pos = self.lo
        for lo, hi, v, line in self.results:
            if lo != pos:
                raise AnalysisBroken('%s: partition does not cover the input range at %d' % (self.fn.name, pos))
            pos = hi + 1
        if pos != self.hi + 1:
            raise AnalysisBroken('%s: partition does not cover the input range' % self.fn.name)
        return self.results


def describe_set(points):
    """Compact rendering of a set of character codes."""
    pts = sorted(points)
    out = []
    i = 0
    while i < len(pts):
        j = i
        while j + 1 < len(pts) and pts[j + 1] == pts[j] + 1:
            j += 1

        def ch(v):
            return repr(chr(v)) if 32 <= v < 127 else str(v)
        out.append(ch(pts[i]) if i == j else '%s..%s' % (ch(pts[i]), ch(pts[j])))
        i = j + 1
    return ' '.join(out)


# =====================================================================================
# 2. Interval interpreter with bounded unrolling (compint codec)
# =====================================================================================
"""
Abstract state: every integer variable is an interval [lo, hi] of mathematical
integers; loop counters that stay singletons make the unrolling finite (the
decode loop is bounded by MAX_COMP_SIZE, read from the source).  Every
arithmetic node is checked against the range of its C type as given by clang's
type-checked AST (after the usual arithmetic conversions): a signed result
outside its type is undefined behaviour, an unsigned one wraps; both are
recorded on the path and reported when the path reaches an *accepting* return.
Bytes read through the input pointer are [0,255] (unsigned char) / [-128,127];
reads are recorded with the pointer offset so that bound checks and the
bookkeeping of the caller's cursor can be decided.  Nothing is executed: a
state stands for all inputs whose bytes lie in the intervals.
"""

INT_RANGES = {8: (-128, 127), 16: (-32768, 32767), 32: (-2 ** 31, 2 ** 31 - 1), 64: (-2 ** 63, 2 ** 63 - 1)}


def type_range(t, dt=None):
    w = type_width(t, dt)
    x = (dt or t or '').replace('const ', '').strip()
    if x in ('_Bool', 'bool'):
        return (0, 1)
    if w is None:
        return None
    if x.endswith('*') or '(*)' in x:
        return None
    if is_unsigned_type(t, dt):
        return (0, (1 << w) - 1)
    return INT_RANGES[w]


class IState(object):
    __slots__ = ('env', 'ptr', 'reads', 'events', 'facts', 'visits', 'origin', 'stop', 'callvals')

    def __init__(self):
        self.env = {}      # key -> (lo, hi)
        self.ptr = {}      # pointer var decl -> (root name, offset int)
        self.reads = []    # list of (root, offset, line, bounded?)
        self.events = []   # overflow events
        self.facts = {}    # key -> set of ('<', other key) relational facts established by branches
        self.visits = {}   # loop head node id -> times this path passed it
        self.origin = {}   # key -> index in reads of the input byte the variable holds unchanged
        self.stop = None   # index in reads of the last input byte known to be >= 128 (stop bit seen)
        self.callvals = {}  # call node uid -> interval returned by an inlined static helper (current node only)

    def copy(self):
        s = IState()
        s.env = dict(self.env)
        s.ptr = dict(self.ptr)
        s.reads = list(self.reads)
        s.events = list(self.events)
        s.facts = dict((k, set(v)) for k, v in self.facts.items())
        s.visits = dict(self.visits)
        s.origin = dict(self.origin)
        s.stop = self.stop
        s.callvals = dict(self.callvals)
        return s


class IntervalInterp(object):
    MAX_STEPS = 400000

    def __init__(self, prog, fn, input_params, out_params, call_model=None):
        """input_params: names of pointer parameters that point to input bytes;
        out_params: names of pointer parameters treated as scalar out/in-out cells (*p)."""
        self.prog = prog
        self.fn = fn
        self.input_params = set(input_params)
        self.out_params = set(out_params)
        self.call_model = call_model
        self.exits = []    # (return interval, state, node)
        self.steps = 0
        self.alias = {}    # pointer parameter decl of an inlined helper -> key of the cell it points to
        self.inlined = set()

    # ---- keys
    def key_of(self, e):
        e = strip(e)
        if e.k == 'var':
            return ('v', e.decl, e.op)
        if e.k == 'mem':
            from ..program import access_path
            p = access_path(e)
            if p is not None:
                return ('f', p, p)
        # cell of a local (non-input) pointer with a constant subscript: i[0]
        if e.k == 'idx':
            b = strip(e.a[0])
            if b.k == 'var' and b.op not in self.input_params and b.op not in self.out_params and \
                    b.dk == 'VarDecl' and b.decl not in self.alias:
                sub = const_value(e.a[1])
                cur = getattr(self, '_cur_st', None)
                if sub is None and cur is not None and b.decl not in cur.ptr:
                    # a subscript that is a single value in the current state (unrolled loop counter)
                    iv = self.ev(e.a[1], cur)
                    if iv is not None and iv[0] == iv[1]:
                        sub = iv[0]
                if sub is not None:
                    return ('m', b.decl, '%s[%d]' % (b.op, sub))
        if e.k == 'un' and e.op == '*':
            b = strip(e.a[0])
            if b.k == 'var' and b.decl in self.alias:
                return self.alias[b.decl]
            if b.k == 'var' and b.op in self.out_params and b.dk == 'ParmVarDecl' and self.is_own_param(b):
                return ('d', b.decl, '*' + b.op)
        if e.k == 'idx':
            b = strip(e.a[0])
            if b.k == 'var' and b.decl in self.alias and const_value(e.a[1]) == 0:
                return self.alias[b.decl]
            if b.k == 'var' and b.op in self.out_params and const_value(e.a[1]) == 0 and self.is_own_param(b):
                return ('d', b.decl, '*' + b.op)
        return None

    def is_own_param(self, v):
        return any(p.decl == v.decl for p in self.fn.params)

    def fit(self, iv, e, st, what='result'):
        """Check interval against the C type of node e; returns the interval
        as seen after conversion to that type."""
        rng = type_range(e.t, e.dt)
        if rng is None or iv is None:
            return iv
        lo, hi = iv
        if lo < rng[0] or hi > rng[1]:
            unsigned = rng[0] == 0 and rng[1] > 1
            st.events.append({'line': e.line, 'expr': show(e)[:80], 'interval': (lo, hi), 'type': e.t,
                              'kind': 'unsigned wrap-around' if unsigned else 'signed overflow / narrowing'})
            return rng
        return iv

    def ev(self, e, st):
        """-> interval or None (unknown / non-integer)"""
        if e is None:
            return None
        if e.k == 'cast':
            v = self.ev(e.a[0], st)
            if e.op in ('IntegralCast',):
                return self.fit(v, e, st, 'conversion')
            if e.op in ('IntegralToBoolean', 'PointerToBoolean'):
                if v is None:
                    return (0, 1)
                if v[0] > 0 or v[1] < 0:
                    return (1, 1)
                if v == (0, 0):
                    return (0, 0)
                return (0, 1)
            return v
        cv = const_value(e)
        if cv is not None:
            return (cv, cv)
        k = e.k
        if k in ('var',) or (k == 'un' and e.op == '*') or k == 'idx':
            # input byte?
            rd = self.input_read(e, st)
            if rd is not None:
                return rd
            key = self.key_of(e)
            if key is not None and key in st.env:
                return st.env[key]
            return type_range(e.t, e.dt)
        if k == 'mem':
            key = self.key_of(e)
            if key is not None and key in st.env:
                return st.env[key]
            return type_range(e.t, e.dt)
        if k == 'un':
            v = self.ev(e.a[0], st)
            if e.op == '-':
                return self.fit(None if v is None else (-v[1], -v[0]), e, st)
            if e.op == '+':
                return v
            if e.op == '!':
                if v is None:
                    return (0, 1)
                if v == (0, 0):
                    return (1, 1)
                if v[0] > 0 or v[1] < 0:
                    return (0, 0)
                return (0, 1)
            if e.op == '~':
                return type_range(e.t, e.dt)
            return type_range(e.t, e.dt)
        if k == 'bin':
            op = e.op
            if op in ('&&', '||'):
                return (0, 1)
            if op in ('<', '>', '<=', '>=', '==', '!='):
                t = self.truth(e, st)
                return (1, 1) if t is True else (0, 0) if t is False else (0, 1)
            if op == ',':
                return self.ev(e.a[1], st)
            l, r = self.ev(e.a[0], st), self.ev(e.a[1], st)
            if l is None or r is None:
                return type_range(e.t, e.dt)
            if l[0] == l[1] and r[0] == r[1] and op in ('&', '|', '^'):
                a_, b_ = l[0], r[0]
                if a_ >= 0 and b_ >= 0:
                    v_ = a_ & b_ if op == '&' else a_ | b_ if op == '|' else a_ ^ b_
                    return self.fit((v_, v_), e, st)
            if op == '+':
                return self.fit((l[0] + r[0], l[1] + r[1]), e, st)
            if op == '-':
                # x - (x % k): the one relational fact the encoder needs (non-negative, same magnitude)
                kx = self.key_of(self.unwrap(e.a[0]))
                ky = self.key_of(self.unwrap(e.a[1]))
                d = st.facts.get(('def', ky)) if ky is not None else None
                if d is not None and kx is not None and d[0] == 'mod' and d[1] == kx and l[0] >= 0:
                    return self.fit((max(0, l[0] - (d[2] - 1)), l[1]), e, st)
                return self.fit((l[0] - r[1], l[1] - r[0]), e, st)
            if op == '*':
                c = [l[0] * r[0], l[0] * r[1], l[1] * r[0], l[1] * r[1]]
                return self.fit((min(c), max(c)), e, st)
            if op == '<<':
                if r[0] < 0 or r[1] > 200 or l[0] < 0:
                    return type_range(e.t, e.dt)
                w = type_width(e.t, e.dt)
                if w is not None and r[1] >= w:
                    st.events.append({'line': e.line, 'expr': show(e)[:80], 'interval': r, 'type': e.t,
                                      'kind': 'shift count >= width of the promoted type (%d)' % w})
                    return type_range(e.t, e.dt)
                return self.fit((l[0] << r[0], l[1] << r[1]), e, st)
            if op == '>>':
                if r[0] < 0 or r[1] > 200 or l[0] < 0:
                    return type_range(e.t, e.dt)
                w = type_width(e.t, e.dt)
                if w is not None and r[1] >= w:
                    st.events.append({'line': e.line, 'expr': show(e)[:80], 'interval': r, 'type': e.t,
                                      'kind': 'shift count >= width of the promoted type (%d)' % w})
                    return type_range(e.t, e.dt)
                return (l[0] >> r[1], l[1] >> r[0])
            if op == '/':
                # (x - x % k) / k  is exactly floor(x / k): the subtraction removes the remainder, so the quotient's
                # lower bound does not drift (needed to bound the encoder's byte count from below)
                num = self.unwrap(e.a[0])
                if num is not None and num.k == 'bin' and num.op == '-' and r[0] == r[1] and r[0] > 0:
                    kx = self.key_of(self.unwrap(num.a[0]))
                    ky = self.key_of(self.unwrap(num.a[1]))
                    d = st.facts.get(('def', ky)) if ky is not None else None
                    xv = self.ev(num.a[0], st)
                    if d is not None and kx is not None and d[0] == 'mod' and d[1] == kx and d[2] == r[0] and \
                            xv is not None and xv[0] >= 0:
                        return (xv[0] // r[0], xv[1] // r[0])
                if r[0] <= 0 <= r[1]:
                    return type_range(e.t, e.dt)
                c = [tdiv(a, b) for a in l for b in r]
                return (min(c), max(c))
            if op == '%':
                if r[0] <= 0:
                    return type_range(e.t, e.dt)
                if l[0] >= 0:
                    if l[1] < r[0]:
                        return l
                    return (0, r[1] - 1)
                return (-(r[1] - 1), r[1] - 1)
            if op == '|':
                if l[0] >= 0 and r[0] >= 0:
                    return (max(l[0], r[0]), (1 << max(l[1].bit_length(), r[1].bit_length())) - 1)
                return type_range(e.t, e.dt)
            if op == '&':
                if r[0] == r[1] and r[0] >= 0 and l[0] >= 0:
                    return (0, min(l[1], r[0]))
                if l[0] == l[1] and l[0] >= 0 and r[0] >= 0:
                    return (0, min(r[1], l[0]))
                return type_range(e.t, e.dt)
            return type_range(e.t, e.dt)
        if k == 'cond':
            a, b = self.ev(e.a[1], st), self.ev(e.a[2], st)
            if a is None or b is None:
                return None
            return (min(a[0], b[0]), max(a[1], b[1]))
        if k == 'sizeof' and e.val is not None:
            return (e.val, e.val)
        if k == 'call':
            if e.uid in st.callvals:
                return st.callvals[e.uid]
            return type_range(e.t, e.dt)
        return type_range(e.t, e.dt)

    def input_read(self, e, st):
        """If e dereferences an input pointer, record the read and return the byte interval."""
        se = strip(e)
        base = None
        off = None
        if se.k == 'idx':
            base = strip(se.a[0])
            iv = self.ev(se.a[1], st)
            if iv is None or iv[0] != iv[1]:
                off = None
            else:
                off = iv[0]
        elif se.k == 'un' and se.op == '*':
            base = strip(se.a[0])
            off = 0
            if base is not None and base.k == 'un' and base.op in ('++', '--') and strip(base.a[0]).k == 'var':
                # *p++ : the side effect has been executed before the value is looked at (exec_expr runs first), so
                # the byte read is the one before the pointer's current position; *++p reads at the current one
                if base.post:
                    off = -1 if base.op == '++' else 1
                base = strip(base.a[0])
        else:
            return None
        if base is None or base.k != 'var':
            return None
        if base.decl in st.ptr:
            root, o = st.ptr[base.decl]
        elif base.op in self.input_params:
            root, o = base.op, 0
        else:
            return None
        bounded = self.read_bounded(st)
        st.reads.append((root, None if off is None else o + off, se.line, bounded))
        return type_range(se.t, se.dt) or (0, 255)

    def read_bounded(self, st):
        return bool(st.facts.get('bound'))

    # ---- conditions
    def truth(self, atom, st):
        a = atom
        while a.k == 'cast':
            a = a.a[0]
        if a.k == 'bin' and a.op in ('<', '>', '<=', '>=', '==', '!='):
            l, r = self.ev(a.a[0], st), self.ev(a.a[1], st)
            if l is None or r is None:
                return None
            op = a.op
            if op == '<':
                return True if l[1] < r[0] else False if l[0] >= r[1] else None
            if op == '<=':
                return True if l[1] <= r[0] else False if l[0] > r[1] else None
            if op == '>':
                return True if l[0] > r[1] else False if l[1] <= r[0] else None
            if op == '>=':
                return True if l[0] >= r[1] else False if l[1] < r[0] else None
            if op == '==':
                return True if l[0] == l[1] == r[0] == r[1] else False if (l[1] < r[0] or l[0] > r[1]) else None
            if op == '!=':
                return False if l[0] == l[1] == r[0] == r[1] else True if (l[1] < r[0] or l[0] > r[1]) else None
        v = self.ev(a, st)
        if v is None:
            return None
        if v == (0, 0):
            return False
        if v[0] > 0 or v[1] < 0:
            return True
        return None

    def refine(self, atom, label, st):
        """Refine st (in place) with the atom having outcome label."""
        a = atom
        while a.k == 'cast':
            a = a.a[0]
        if a.k == 'bin' and a.op in ('==', '!=') and const_value(a.a[1]) == 0:
            # (x & 0x80) != 0 / == 0 : the stop-bit test spelled as a comparison
            m = self.unwrap(a.a[0])
            if m is not None and m.k == 'bin' and m.op == '&':
                for x, y in ((m.a[0], m.a[1]), (m.a[1], m.a[0])):
                    cy = const_value(y)
                    kx = self.key_of(self.unwrap(x))
                    if kx is None and cy == 128:
                        # the input byte is read in place (`(p[i] & 0x80) != 0`): the read event itself carries the stop bit
                        n_before = len(st.reads)
                        xv0 = self.ev(x, st)
                        if len(st.reads) > n_before and xv0 is not None and 0 <= xv0[0] and xv0[1] <= 255:
                            if (a.op == '!=') == bool(label):
                                st.stop = len(st.reads) - 1
                            return
                    xv = self.ev(x, st) if kx is not None else None
                    if cy == 128 and kx is not None and xv is not None and 0 <= xv[0] and xv[1] <= 255:
                        setbit = (a.op == '!=') == bool(label)
                        if setbit:
                            st.env[kx] = (max(xv[0], 128), xv[1])
                            if kx in st.origin:
                                st.stop = st.origin[kx]
                        else:
                            st.env[kx] = (xv[0], min(xv[1], 127))
                        return
        if a.k == 'bin' and a.op in ('<', '>', '<=', '>=', '==', '!='):
            op = a.op
            if not label:
                op = {'<': '>=', '<=': '>', '>': '<=', '>=': '<', '==': '!=', '!=': '=='}[op]
            for x, y, o in ((a.a[0], a.a[1], op), (a.a[1], a.a[0], {'<': '>', '>': '<', '<=': '>=', '>=': '<=', '==': '==', '!=': '!='}[op])):
                kx = self.key_of(self.unwrap(x))
                yv = self.ev(y, st)
                xv = self.ev(x, st)
                if kx is not None and yv is not None and xv is not None:
                    lo, hi = xv
                    if o == '<':
                        hi = min(hi, yv[1] - 1)
                    elif o == '<=':
                        hi = min(hi, yv[1])
                    elif o == '>':
                        lo = max(lo, yv[0] + 1)
                    elif o == '>=':
                        lo = max(lo, yv[0])
                    elif o == '==':
                        lo, hi = max(lo, yv[0]), min(hi, yv[1])
                    if lo <= hi:
                        st.env[kx] = (lo, hi)
                        if kx in st.origin and lo >= 128:
                            st.stop = st.origin[kx]
                # relational fact: cursor < limit
                ky = self.key_of(self.unwrap(y))
                if kx is not None and o == '<' and self.is_cursor(kx) and self.is_limit(y):
                    st.facts['bound'] = set(['cursor<limit'])
        else:
            ua = self.unwrap(a)
            if label and ua is not None and ua.k == 'bin' and ua.op == '&':
                # stop-bit test written as a mask: x & 0x80
                for x, y in ((ua.a[0], ua.a[1]), (ua.a[1], ua.a[0])):
                    cy = const_value(y)
                    kx = self.key_of(self.unwrap(x))
                    if cy == 128 and kx is not None and kx in st.origin:
                        st.stop = st.origin[kx]
            k = self.key_of(self.unwrap(a))
            v = self.ev(a, st)
            if k is not None and v is not None:
                if label and v[0] == 0 and v[1] > 0:
                    st.env[k] = (1, v[1])
                elif not label:
                    st.env[k] = (0, 0)

    def unwrap(self, e):
        while e is not None and e.k == 'cast':
            e = e.a[0]
        return e

    def is_cursor(self, key):
        return key[0] == 'd' and key[2] in getattr(self, 'cursor_names', ())

    def is_limit(self, e):
        e = self.unwrap(e)
        return e.k == 'var' and e.op in getattr(self, 'limit_names', ())

    # ---- effects
    def is_pure_read(self, e, st):
        e = self.unwrap(e)
        if e is None:
            return False
        base = None
        if e.k == 'idx':
            base = strip(e.a[0])
        elif e.k == 'un' and e.op == '*':
            base = strip(e.a[0])
            if base is not None and base.k == 'un' and base.op in ('++', '--'):
                base = strip(base.a[0])
        return base is not None and base.k == 'var' and (base.decl in st.ptr or base.op in self.input_params)

    def assign(self, lhs, val, st, line, node):
        l = self.unwrap(lhs)
        key = self.key_of(l)
        if key is None:
            return
        rhs = node.a[1] if (node is not None and getattr(node, 'k', None) == 'bin' and node.op == '=') else node
        if rhs is not None and getattr(rhs, 'k', None) is not None and self.is_pure_read(rhs, st) and st.reads:
            st.origin[key] = len(st.reads) - 1
        else:
            st.origin.pop(key, None)
        if val is not None:
            rng = type_range(l.t, l.dt)
            if rng is not None and (val[0] < rng[0] or val[1] > rng[1]):
                unsigned = rng[0] == 0 and rng[1] > 1
                st.events.append({'line': line, 'expr': show(node)[:80], 'interval': val, 'type': l.t,
                                  'kind': 'unsigned wrap-around' if unsigned else 'signed overflow / narrowing'})
                val = rng
            st.env[key] = val
        else:
            st.env.pop(key, None)
        if self.is_cursor(key):
            st.facts.pop('bound', None)
        # definitions x[k] = y % c are remembered until y changes
        for fk in [f for f in st.facts if isinstance(f, tuple) and f[0] == 'def']:
            if st.facts[fk][1] == key or fk[1] == key:
                del st.facts[fk]
        if key[0] == 'm' and node is not None and getattr(node, 'k', None) == 'bin' and node.op == '=':
            r = self.unwrap(node.a[1])
            if r is not None and r.k == 'bin' and r.op == '%' and const_value(r.a[1]) and const_value(r.a[1]) > 0:
                ky = self.key_of(self.unwrap(r.a[0]))
                if ky is not None:
                    st.facts[('def', key)] = ('mod', ky, const_value(r.a[1]))

    def exec_expr(self, e, st):
        """Execute side effects of e on st (single state; calls handled by model)."""
        for n in self.post(e):
            if n.k == 'bin' and n.op == '=':
                l = self.unwrap(n.a[0])
                if l.k == 'var' and (l.t or '').rstrip().endswith('*'):
                    # pointer assignment
                    r = self.unwrap(n.a[1])
                    self.ptr_assign(l, r, st)
                    continue
                self.assign(n.a[0], self.ev(n.a[1], st), st, n.line, n)
            elif n.k == 'bin' and n.op in ('+=', '-=', '*=', '/=', '<<=', '>>=', '|=', '&='):
                l = self.unwrap(n.a[0])
                if l.k == 'var' and l.decl in st.ptr and n.op in ('+=', '-='):
                    d = self.ev(n.a[1], st)
                    root, o = st.ptr[l.decl]
                    if d is not None and d[0] == d[1]:
                        st.ptr[l.decl] = (root, o + (d[0] if n.op == '+=' else -d[0]))
                    else:
                        st.ptr[l.decl] = (root, None)
                    continue
                from ..ir import E as _E
                fake = _E('bin', op=n.op[:-1], a=[n.a[0], n.a[1]], t=n.t, dt=n.dt, line=n.line)
                # compound assignment computes in the promoted type of the operands
                lt = self.unwrap(n.a[0])
                self.assign(n.a[0], self.ev(fake, st), st, n.line, n)
            elif n.k == 'un' and n.op in ('++', '--'):
                l = self.unwrap(n.a[0])
                d = 1 if n.op == '++' else -1
                if l.k == 'var' and (l.decl in st.ptr or l.op in self.input_params):
                    root, o = st.ptr.get(l.decl, (l.op, 0))
                    st.ptr[l.decl] = (root, None if o is None else o + d)
                    continue
                if l.k == 'var' and (l.t or '').rstrip().endswith('*'):
                    for kk in [x for x in st.env if x[0] == 'm' and x[1] == l.decl]:
                        del st.env[kk]
                    for fk in [f for f in st.facts if isinstance(f, tuple) and f[0] == 'def' and f[1][1] == l.decl]:
                        del st.facts[fk]
                    continue
                v = self.ev(n.a[0], st)
                self.assign(n.a[0], None if v is None else (v[0] + d, v[1] + d), st, n.line, n)
            elif n.k == 'call':
                if n.uid in st.callvals:
                    continue      # an inlined static helper: its effects are already in the state
                if self.call_model is not None:
                    self.call_model(self, n, st)

    def ptr_assign(self, l, r, st):
        r = self.unwrap(r)
        if r is None:
            return
        if r.k == 'var' and (r.op in self.input_params or r.decl in st.ptr):
            st.ptr[l.decl] = st.ptr.get(r.decl, (r.op, 0))
        elif r.k == 'bin' and r.op in ('+', '-'):
            b = self.unwrap(r.a[0])
            d = self.ev(r.a[1], st)
            if b.k == 'var' and (b.op in self.input_params or b.decl in st.ptr):
                root, o = st.ptr.get(b.decl, (b.op, 0))
                if d is not None and d[0] == d[1] and o is not None:
                    st.ptr[l.decl] = (root, o + (d[0] if r.op == '+' else -d[0]))
                else:
                    st.ptr[l.decl] = (root, None)

    def post(self, e):
        from ..ir import walk_eval_order
        return [n for n in walk_eval_order(e) if n.k in ('bin', 'un', 'call')]

    # ---- driver
    def run(self, init_env=None):
        st0 = IState()
        for k, v in (init_env or {}).items():
            st0.env[k] = v
        self.exits = self.explore(self.fn, st0, 0)
        return self.exits

    INLINE_DEPTH = 3

    def inline_target(self, fn, call):
        """A call to a static function of the same unit that has a body: interpreted in place."""
        from ..ir import callee_name
        n = callee_name(call)
        if n is None or self.prog is None:
            return None
        t = self.prog.resolve_direct(fn, n)
        if t is None or not getattr(t, 'static', False) or t.body is None or t.unit != fn.unit or t is fn:
            return None
        return t

    def pending_call(self, fn, node, st, depth):
        if node.e is None or depth >= self.INLINE_DEPTH:
            return None
        for n in self.post(node.e):
            if n.k == 'call' and n.uid not in st.callvals:
                t = self.inline_target(fn, n)
                if t is not None:
                    return n, t
        return None

    def bind(self, callee, call, st):
        args = call.a[1:]
        if len(args) != len(callee.params):
            raise AnalysisBroken('%s: call with %d arguments to %s/%d' % (self.fn.name, len(args), callee.name,
                                                                         len(callee.params)))
        for p, a in zip(callee.params, args):
            ua = self.unwrap(a)
            if (p.t or '').rstrip().endswith('*'):
                tgt = None
                if ua is not None and ua.k == 'var':
                    if ua.decl in self.alias:
                        tgt = self.alias[ua.decl]
                    elif ua.op in self.out_params and self.is_own_param(ua):
                        tgt = ('d', ua.decl, '*' + ua.op)
                    elif ua.op in self.input_params or ua.decl in st.ptr:
                        st.ptr[p.decl] = st.ptr.get(ua.decl, (ua.op, 0))
                        continue
                elif ua is not None and ua.k == 'un' and ua.op == '&':
                    tgt = self.key_of(ua.a[0])
                if tgt is not None:
                    self.alias[p.decl] = tgt
                # other pointers (the context, strings): not modelled
            else:
                v = self.ev(a, st)
                key = ('v', p.decl, p.op)
                if v is not None:
                    st.env[key] = v
                else:
                    st.env.pop(key, None)

    def explore(self, fn, st0, depth):
        g = build_cfg(fn)
        exits = []
        work = [(g.entry, st0)]
        while work:
            self.steps += 1
            if self.steps > self.MAX_STEPS:
                raise AnalysisBroken('%s: interval interpreter exceeded %d steps (unbounded loop?)' % (
                    self.fn.name, self.MAX_STEPS))
            node, st = work.pop()
            k = node.k
            self._cur_st = st
            if k in ('stmt', 'decl', 'branch', 'ret', 'switch') and not (k == 'decl' and node.static):
                pc = self.pending_call(fn, node, st, depth)
                if pc is not None:
                    call, callee = pc
                    self.inlined.add(callee.name)
                    self.bind(callee, call, st)
                    for rv, st2, nd in self.explore(callee, st, depth + 1):
                        st2.callvals[call.uid] = rv if rv is not None else type_range(call.t, call.dt)
                        work.append((node, st2))
                    continue
            if k in ('entry', 'join'):
                if node.loop is not None and getattr(self, 'max_loop_visits', None):
                    # a loop whose trip count the intervals cannot bound: follow it max_loop_visits times per path
                    # (callers that set this only collect which callees are reachable, not values after the loop)
                    st.visits[node.id] = st.visits.get(node.id, 0) + 1
                    if st.visits[node.id] > self.max_loop_visits:
                        self.loop_cuts = getattr(self, 'loop_cuts', 0) + 1
                        continue
                for m, lab in node.succ:
                    work.append((m, st))
            elif k == 'exit':
                exits.append((None, st, node))
            elif k == 'stmt':
                self.exec_expr(node.e, st)
                st.callvals = {}
                for m, lab in node.succ:
                    work.append((m, st))
            elif k == 'decl':
                if node.e is not None and not node.static:
                    v = node.var
                    if (v.t or '').rstrip().endswith('*'):
                        self.exec_expr(node.e, st)
                        self.ptr_assign(v, node.e, st)
                    else:
                        self.exec_expr(node.e, st)
                        self.assign(v, self.ev(node.e, st), st, node.line, node.e)
                st.callvals = {}
                for m, lab in node.succ:
                    work.append((m, st))
            elif k == 'branch':
                self.exec_expr(node.e, st)
                t = self.truth(node.e, st)
                for m, lab in node.succ:
                    if t is not None and bool(lab) != t:
                        continue
                    s2 = st.copy() if t is None else st
                    self.refine(node.e, bool(lab), s2)
                    s2.callvals = {}
                    work.append((m, s2))
            elif k == 'ret':
                if node.e is not None:
                    self.exec_expr(node.e, st)
                    v = self.ev(node.e, st)
                else:
                    v = None
                st.callvals = {}
                exits.append((v, st, node))
            elif k == 'switch':
                self.exec_expr(node.e, st)
                iv = self.ev(node.e, st)
                key = self.key_of(self.unwrap(node.e))
                cases = [lab[1] for m, lab in node.succ if isinstance(lab, tuple) and lab[0] == 'case']
                for m, lab in node.succ:
                    if isinstance(lab, tuple) and lab[0] == 'case':
                        v = lab[1]
                        if v is None:
                            raise AnalysisBroken('%s: case label that is not a constant' % self.fn.name)
                        if iv is not None and not (iv[0] <= v <= iv[1]):
                            continue
                        s2 = st.copy()
                        if key is not None:
                            s2.env[key] = (v, v)
                        s2.callvals = {}
                        work.append((m, s2))
                    else:
                        # default: reachable unless the selector's interval is covered by the case constants
                        if iv is not None and iv[1] - iv[0] < 4096 and all(x in cases for x in range(iv[0], iv[1] + 1)):
                            continue
                        s2 = st.copy()
                        s2.callvals = {}
                        work.append((m, s2))
        return exits

"""Path-sensitive forward abstract interpreter used by the typestate rules.

Abstract integer value = bit mask over five classes
    M1 (-1)   NEG (< -1)   Z (0)   P1 (1)   POS (> 1)
which is exact for the return conventions of this code base (bool, negative
error, tri-state 1/0/-1, count).  A state is (typestate, environment) where the
environment maps tracked locals to (mask, origins); `origins` is the set of
callee names whose result flowed into the variable.  States are kept as sets
per CFG node (no join), so correlated flags stay correlated; branch atoms that
compare a tracked value with a constant refine it, and an empty refinement
prunes the edge.

Rules subclass Rule and receive call / assign / edge / return events.  Calls to
functions defined in the repository are summarised on demand:
summary(callee, typestate_in) = set of (typestate_out, return mask).
"""
from .ir import (E, strip, strip_transparent, walk_eval_order, const_value, show,
                 is_unsigned_type, is_pointer_type, is_signed_int_type, callee_name, callee_field)
from .cfg import build_cfg
from .frontend import AnalysisBroken
from .program import is_assign_op, rel

M1, NEG, Z, P1, POS = 1, 2, 4, 8, 16
TOP = 31
NONNEG = Z | P1 | POS
NEGATIVE = M1 | NEG
POSITIVE = P1 | POS
NONZERO = TOP & ~Z
BOOL = Z | P1

_INTERVALS = {M1: (-1, -1), NEG: (None, -2), Z: (0, 0), P1: (1, 1), POS: (2, None)}


def cls_of(v):
    if v == -1:
        return M1
    if v < -1:
        return NEG
    if v == 0:
        return Z
    if v == 1:
        return P1
    return POS


def mask_str(m):
    names = []
    if m & M1:
        names.append('-1')
    if m & NEG:
        names.append('<-1')
    if m & Z:
        names.append('0')
    if m & P1:
        names.append('1')
    if m & POS:
        names.append('>1')
    return '{' + ','.join(names) + '}'


def _exists(cls, op, c):
    lo, hi = _INTERVALS[cls]
    if op == '<':
        return lo is None or lo < c
    if op == '<=':
        return lo is None or lo <= c
    if op == '>':
        return hi is None or hi > c
    if op == '>=':
        return hi is None or hi >= c
    if op == '==':
        return (lo is None or lo <= c) and (hi is None or hi >= c)
    if op == '!=':
        return not (lo == c and hi == c)
    return True


def refine(mask, op, c, truth):
    """Sub-mask of `mask` whose classes contain a value v with (v op c) == truth."""
    if not truth:
        op = {'<': '>=', '<=': '>', '>': '<=', '>=': '<', '==': '!=', '!=': '=='}[op]
    out = 0
    for cls in (M1, NEG, Z, P1, POS):
        if mask & cls and _exists(cls, op, c):
            out |= cls
    return out


def _bounds(mask):
    lo = None
    hi = None
    first = True
    for cls in (NEG, M1, Z, P1, POS):
        if mask & cls:
            l, h = _INTERVALS[cls]
            if first:
                lo, hi = l, h
                first = False
            else:
                if lo is not None and (l is None or l < lo):
                    lo = l
                if hi is not None and (h is None or h > hi):
                    hi = h
    return lo, hi, first


def rel_refine(ml, mr, op):
    """Classes of l and r compatible with (l op r)."""
    if op == '==':
        both = ml & mr
        return both, both
    if op == '!=':
        # only singletons can be excluded
        single = (M1, Z, P1)
        nl, nr = ml, mr
        if mr in single:
            nl = ml & ~mr
        if ml in single:
            nr = mr & ~ml
        return nl, nr
    if op in ('>', '>='):
        nr, nl = rel_refine(mr, ml, '<' if op == '>' else '<=')
        return nl, nr
    # l < r  or l <= r
    rlo, rhi, rempty = _bounds(mr)
    llo, lhi, lempty = _bounds(ml)
    if rempty or lempty:
        return 0, 0
    strict = op == '<'
    nl = 0
    for cls in (M1, NEG, Z, P1, POS):
        if ml & cls:
            lo, hi = _INTERVALS[cls]
            # exists v in cls, w in r: v < w  <=> min(cls) < max(r)
            if rhi is None or lo is None or (lo < rhi if strict else lo <= rhi):
                nl |= cls
    nr = 0
    for cls in (M1, NEG, Z, P1, POS):
        if mr & cls:
            lo, hi = _INTERVALS[cls]
            # exists w in cls, v in l: v < w <=> min(l) < max(cls)
            if hi is None or llo is None or (llo < hi if strict else llo <= hi):
                nr |= cls
    return nl, nr


def neg_mask(m):
    out = 0
    if m & M1:
        out |= P1
    if m & NEG:
        out |= POS
    if m & Z:
        out |= Z
    if m & P1:
        out |= M1
    if m & POS:
        out |= NEG
    return out


EXTERN_MASKS = {
    'read': M1 | Z | P1 | POS, 'write': M1 | Z | P1 | POS, 'lseek': M1 | Z | P1 | POS,
    'pread': M1 | Z | P1 | POS, 'pwrite': M1 | Z | P1 | POS,
    'ftruncate': M1 | Z, 'close': M1 | Z, 'unlink': M1 | Z, 'open': M1 | Z | P1 | POS,
    'mkstemp': M1 | Z | P1 | POS, 'fstat': M1 | Z, 'stat': M1 | Z,
    'malloc': Z | POS, 'calloc': Z | POS, 'realloc': Z | POS,
    'regcomp': Z | P1 | POS, 'regexec': Z | P1 | POS,
    'ZSTD_isError': Z | P1, 'strlen': NONNEG,
    'EVP_DigestInit_ex': Z | P1, 'EVP_DigestUpdate': Z | P1, 'EVP_DigestFinal_ex': Z | P1,
}


def default_mask(e):
    if e is None:
        return TOP
    t, dt = e.t, e.dt
    if is_pointer_type(t, dt):
        return Z | POS
    if (dt or t or '') in ('_Bool', 'bool'):
        return BOOL
    if is_unsigned_type(t, dt):
        return NONNEG
    return TOP


class Rule(object):
    """Base class: a rule with no typestate (used for return-class inference)."""
    name = 'plain'
    interprocedural = True

    def initial(self, fn):
        return 0

    def on_call(self, ctx, call, ts):
        """Called before the callee's summary is applied.  Return a typestate, or
        a list of typestates (non-deterministic split)."""
        return ts

    def after_call(self, ctx, call, ts, mask):
        return ts

    def on_assign(self, ctx, lhs, rhs, op, value, ts):
        return ts

    def on_edge(self, ctx, node, label, refined, ts):
        """refined: list of (expr, origins, mask_before, mask_after).  Return the
        new typestate or None to drop the edge."""
        return ts

    def on_return(self, ctx, node, mask, ts):
        return ts

    def on_node(self, ctx, node, ts):
        return ts

    def summarise(self, ctx, call, target, ts):
        """Return None to let the engine compute the callee summary, or a set of
        (ts_out, mask) to override it."""
        return None

    def enter_callee(self, ctx, call, target, ts):
        return ts

    def leave_callee(self, ctx, call, target, ts_in, ts_out, mask):
        return ts_out

    def track_field(self, path):
        return False

    def adjust_tracked(self, fn, default, eligible):
        return default

    def filter_call_results(self, ctx, call, ts_in, results):
        """results: list of (ts_out, mask, origins, env).  Return a replacement
        list or None."""
        return None

    def call_clobbers(self, call, path):
        return True


class Ctx(object):
    def __init__(self, engine, fn):
        self.engine = engine
        self.fn = fn
        self.node = None
        self.env = None
        self.callvals = None
        self.prog = engine.prog

    def value(self, e):
        return self.engine.eval(e, self.env, self.callvals, self)[0]

    def origins(self, e):
        return self.engine.eval(e, self.env, self.callvals, self)[1]


class Engine(object):
    MAX_STATES = 4000

    def __init__(self, prog, rule=None, depth_limit=12):
        self.prog = prog
        self.rule = rule or Rule()
        self.memo = {}
        self.stack = []
        self.depth_limit = depth_limit
        self.results = {}   # (qname, ts_in) -> analysis record (states per node etc.)
        self._addr_taken = {}

    # ------------------------------------------------------------ summaries
    def summary(self, fn, ts_in):
        key = (fn.qname, ts_in)
        if key in self.memo:
            return self.memo[key]
        if key in self.stack or len(self.stack) > self.depth_limit:
            return {(ts_in, self.type_mask(fn))}
        self.stack.append(key)
        try:
            res = self.analyse(fn, ts_in)
        finally:
            self.stack.pop()
        self.memo[key] = res
        return res

    def type_mask(self, fn):
        rt = fn.rtype or ''
        if rt == 'void':
            return TOP
        if rt.endswith('*'):
            return Z | POS
        if rt in ('bool', '_Bool'):
            return BOOL
        if is_unsigned_type(rt):
            return NONNEG
        return TOP

    def addr_taken(self, fn):
        if fn.qname not in self._addr_taken:
            s = set()
            from .program import all_exprs
            from .ir import walk
            for ex in all_exprs(fn):
                for n in walk(ex):
                    if n.k == 'un' and n.op == '&':
                        l = strip(n.a[0])
                        if l.k == 'var':
                            s.add(l.decl)
            self._addr_taken[fn.qname] = s
        return self._addr_taken[fn.qname]

    # ------------------------------------------------------------ evaluation
    def eval(self, e, env, callvals, ctx):
        """-> (mask, origins frozenset)"""
        if e is None:
            return TOP, frozenset()
        k = e.k
        if k == 'int':
            return cls_of(e.val), frozenset()
        if k == 'null':
            return Z, frozenset()
        if k == 'str':
            return POS, frozenset()
        if k == 'var':
            if e.dk == 'EnumConstantDecl' and e.val is not None:
                return cls_of(e.val), frozenset()
            if e.dk == 'FunctionDecl':
                return POS, frozenset()
            v = env.get(e.decl)
            if v is not None:
                return v
            return default_mask(e), frozenset()
        if k == 'cast':
            m, o = self.eval(e.a[0], env, callvals, ctx)
            if e.op == 'IntegralCast' or (e.op in ('IntegralToBoolean', 'PointerToBoolean')):
                src = strip_transparent(e.a[0])
                if e.op != 'IntegralCast':
                    out = 0
                    if m & Z:
                        out |= Z
                    if m & NONZERO:
                        out |= P1
                    return out, o
                if is_unsigned_type(e.t, e.dt) and (e.dt or e.t) not in ('_Bool', 'bool'):
                    # negative values wrap to large positive
                    out = m & NONNEG
                    if m & NEGATIVE:
                        out |= POS
                    return out, o
                if (e.dt or e.t) in ('_Bool', 'bool'):
                    out = 0
                    if m & Z:
                        out |= Z
                    if m & NONZERO:
                        out |= P1
                    return out, o
                return m, o
            if e.op in ('IntegralToPointer', 'PointerToIntegral'):
                return m, o
            return m, o
        if k == 'call':
            if callvals is not None and e.uid in callvals:
                return callvals[e.uid]
            return default_mask(e), frozenset()
        if k == 'un':
            if e.op == '!':
                m, o = self.eval(e.a[0], env, callvals, ctx)
                out = 0
                if m & Z:
                    out |= P1
                if m & NONZERO:
                    out |= Z
                return out, o
            if e.op == '-':
                m, o = self.eval(e.a[0], env, callvals, ctx)
                return neg_mask(m), o
            if e.op in ('++', '--'):
                return default_mask(e), frozenset()
            if e.op == '&':
                return POS, frozenset()
            return default_mask(e), frozenset()
        if k == 'bin':
            op = e.op
            if op == '=':
                return self.eval(e.a[1], env, callvals, ctx)
            if op == ',':
                return self.eval(e.a[1], env, callvals, ctx)
            if op in ('==', '!=', '<', '>', '<=', '>='):
                r = self.compare(e, env, callvals, ctx)
                return r, frozenset()
            if op in ('&&', '||'):
                return BOOL, frozenset()
            cv = const_value(e)
            if cv is not None:
                return cls_of(cv), frozenset()
            return default_mask(e), frozenset()
        if k == 'cond':
            m1, o1 = self.eval(e.a[1], env, callvals, ctx)
            m2, o2 = self.eval(e.a[2], env, callvals, ctx)
            # a condition whose class on this path is known selects one arm (exit(ok ? 0 : 1) with ok known)
            mc, oc = self.eval(e.a[0], env, callvals, ctx)
            if mc and not (mc & Z):
                return m1, o1 | oc
            if mc == Z:
                return m2, o2 | oc
            return m1 | m2, o1 | o2
        if k == 'mem' or (k == 'un' and e.op == '*') or k == 'idx':
            return default_mask(e), frozenset()
        if k == 'sizeof':
            return POS, frozenset()
        return default_mask(e), frozenset()

    def compare(self, e, env, callvals, ctx):
        l, _ = self.eval(e.a[0], env, callvals, ctx)
        r, _ = self.eval(e.a[1], env, callvals, ctx)
        cr = const_value(e.a[1])
        cl = const_value(e.a[0])
        out = 0
        if cr is not None:
            if refine(l, e.op, cr, True):
                out |= P1
            if refine(l, e.op, cr, False):
                out |= Z
            return out
        if cl is not None:
            flip = {'<': '>', '>': '<', '<=': '>=', '>=': '<=', '==': '==', '!=': '!='}[e.op]
            if refine(r, flip, cl, True):
                out |= P1
            if refine(r, flip, cl, False):
                out |= Z
            return out
        return BOOL

    def tracked_locals(self, fn):
        """Locals worth tracking: assigned at least once from a literal or an
        expression containing a call, read in a branch / switch / return
        expression, never address-taken, not declared by a uthash macro; the
        rule may add or remove candidates."""
        key = fn.qname
        cache = self.__dict__.setdefault('_tracked', {})
        if key in cache:
            return cache[key]
        from .program import all_exprs
        from .ir import walk, walk_stmts
        cand = set()
        uthash = set()
        for s in walk_stmts(fn.body):
            if s.k == 'decl' and s.var is not None:
                if s.macro and s.macro[0] and s.macro[0].endswith('uthash.h'):
                    uthash.add(s.var.decl)
                if s.e is not None and (const_value(s.e) is not None or strip(s.e).k == 'null' or
                                        any(n.k == 'call' for n in walk(s.e))):
                    cand.add(s.var.decl)
        for ex in all_exprs(fn):
            for n in walk(ex):
                if n.k == 'bin' and n.op == '=':
                    l = strip(n.a[0])
                    if l.k == 'var' and (const_value(n.a[1]) is not None or strip(n.a[1]).k == 'null' or
                                         any(x.k == 'call' for x in walk(n.a[1]))):
                        cand.add(l.decl)
        used = set()
        g = build_cfg(fn)
        for nd in g.nodes:
            if nd.k in ('branch', 'switch', 'ret') and nd.e is not None:
                for n in walk(nd.e):
                    if n.k == 'var':
                        used.add(n.decl)
        # a local copied into a used local is used as well (result variables
        # of split-out helpers: `r = 10; ... exit_val = r; if(exit_val > 0)`)
        copies = []
        for s in walk_stmts(fn.body):
            if s.k == 'decl' and s.var is not None and s.e is not None and strip(s.e).k == 'var':
                copies.append((s.var.decl, strip(s.e).decl))
        for ex in all_exprs(fn):
            for n in walk(ex):
                if n.k == 'bin' and n.op == '=' and strip(n.a[0]).k == 'var' and strip(n.a[1]).k == 'var':
                    copies.append((strip(n.a[0]).decl, strip(n.a[1]).decl))
        changed = True
        while changed:
            changed = False
            for dst, src in copies:
                if dst in used and src not in used:
                    used.add(src)
                    changed = True
                if src in cand and dst not in cand:
                    cand.add(dst)
                    changed = True
        locs = set(fn.locals.keys()) | set(p.decl for p in fn.params)
        res = (cand & used & locs) - uthash - self.addr_taken(fn)
        res = self.rule.adjust_tracked(fn, res, locs - uthash - self.addr_taken(fn))
        cache[key] = res
        return res

    def liveness(self, fn, g):
        """node id -> set of tracked-candidate decl ids read at or after the
        node (no kill sets: conservative)."""
        cache = self.__dict__.setdefault('_live', {})
        if fn.qname in cache:
            return cache[fn.qname]
        from .ir import walk
        use = {}
        for nd in g.nodes:
            u = set()
            if nd.e is not None:
                for n in walk(nd.e):
                    if n.k == 'var' and n.dk in ('VarDecl', 'ParmVarDecl'):
                        u.add(n.decl)
            use[nd.id] = u
        changed = True
        order = list(reversed(g.nodes))
        while changed:
            changed = False
            for nd in order:
                cur = use[nd.id]
                before = len(cur)
                for m, _ in nd.succ:
                    cur |= use[m.id]
                if len(cur) != before:
                    changed = True
        cache[fn.qname] = use
        return use

    def keep(self, rhs, val, env):
        """Track a local only when its value is a literal, a call result (it
        then carries origins) or a copy of a tracked local."""
        if val[1]:
            return True
        r = strip(rhs)
        if r is None:
            return False
        if const_value(r) is not None or r.k == 'null':
            return True
        if r.k == 'var' and (r.decl in env or (r.dk == 'EnumConstantDecl')):
            return True
        return False

    # ------------------------------------------------------------ refinement
    def refine_atom(self, atom, label, env, callvals, ctx):
        """Returns (feasible, new_env, refined list).  refined: list of
        (expr, origins, before, after)."""
        refined = []
        a = strip_transparent(atom)
        op = None
        target = None
        c = None
        if a.k == 'bin' and a.op in ('==', '!=', '<', '>', '<=', '>='):
            cr = const_value(a.a[1])
            cl = const_value(a.a[0])
            if cr is not None:
                target, op, c = a.a[0], a.op, cr
            elif cl is not None:
                target = a.a[1]
                op = {'<': '>', '>': '<', '<=': '>=', '>=': '<=', '==': '==', '!=': '!='}[a.op]
                c = cl
            else:
                # comparison with a singleton-valued expression
                mr, _ = self.eval(a.a[1], env, callvals, ctx)
                ml, _ = self.eval(a.a[0], env, callvals, ctx)
                single = {M1: -1, Z: 0, P1: 1}
                if mr in single:
                    target, op, c = a.a[0], a.op, single[mr]
                elif ml in single:
                    target = a.a[1]
                    op = {'<': '>', '>': '<', '<=': '>=', '>=': '<=', '==': '==', '!=': '!='}[a.op]
                    c = single[ml]
                else:
                    return self.refine_relational(a, label, env, callvals, ctx, ml, mr)
        else:
            target, op, c = a, '!=', 0
        if target is None:
            # undecidable comparison: evaluate for feasibility only
            m, _ = self.eval(a, env, callvals, ctx)
            want = NONZERO if label else Z
            return bool(m & want), env, refined
        # the value being tested, through value-preserving wrappers
        before, origins = self.eval(target, env, callvals, ctx)
        after = refine(before, op, c, bool(label))
        if after == 0:
            return False, env, refined
        new_env = env
        t = target
        # find the underlying variable / call; an unsigned cast of a possibly
        # negative value breaks the correspondence
        exact = True
        while True:
            if t.k == 'cast':
                if t.op == 'IntegralCast' and is_unsigned_type(t.t, t.dt):
                    inner_m, _ = self.eval(t.a[0], env, callvals, ctx)
                    if inner_m & NEGATIVE:
                        exact = False
                elif t.op in ('IntegralToBoolean', 'PointerToBoolean'):
                    exact = exact and (op in ('==', '!=') and c == 0)
                t = t.a[0]
                continue
            if t.k == 'bin' and t.op == '=':
                # (v = f()) > 0 : refine v
                t = t.a[0]
                continue
            break
        if exact:
            if t.k == 'var' and t.decl in env:
                new_env = dict(env)
                new_env[t.decl] = (after, origins)
                refined.append((t, origins, before, after))
            elif t.k == 'var':
                refined.append((t, origins, before, after))
            elif t.k == 'call':
                refined.append((t, origins, before, after))
                if callvals is not None:
                    callvals[t.uid] = (after, origins)
            elif t.k == 'un' and t.op == '!':
                # !x tested: refine x the other way
                inner = t.a[0]
                ib, io = self.eval(inner, env, callvals, ctx)
                # (!x) op c with c in {0,1}
                if (op, c) in (('!=', 0), ('==', 1), ('>', 0), ('>=', 1)):
                    truth = bool(label)
                elif (op, c) in (('==', 0), ('!=', 1), ('<', 1), ('<=', 0)):
                    truth = not bool(label)
                else:
                    truth = None
                if truth is not None:
                    # !x is true  <=> x == 0
                    ok, new_env, r2 = self.refine_atom(inner, not truth, env, callvals, ctx)
                    if not ok:
                        return False, env, refined
                    refined.extend(r2)
            else:
                refined.append((t, origins, before, after))
        return True, new_env, refined

    def refine_relational(self, a, label, env, callvals, ctx, ml, mr):
        """x OP y with neither side constant: refine both sides on the class
        level using the other side's bounds."""
        op = a.op if label else {'<': '>=', '<=': '>', '>': '<=', '>=': '<', '==': '!=', '!=': '=='}[a.op]
        new_l, new_r = rel_refine(ml, mr, op)
        if new_l == 0 or new_r == 0:
            return False, env, []
        refined = []
        new_env = env
        for side, before, after in ((a.a[0], ml, new_l), (a.a[1], mr, new_r)):
            t = side
            exact = True
            while True:
                if t.k == 'cast':
                    if t.op == 'IntegralCast' and is_unsigned_type(t.t, t.dt):
                        inner_m, _ = self.eval(t.a[0], env, callvals, ctx)
                        if inner_m & NEGATIVE:
                            exact = False
                    t = t.a[0]
                    continue
                if t.k == 'bin' and t.op == '=':
                    t = t.a[0]
                    continue
                break
            if not exact or after == before:
                continue
            _, origins = self.eval(side, env, callvals, ctx)
            if t.k == 'var' and t.decl in new_env:
                new_env = dict(new_env)
                new_env[t.decl] = (after, origins)
                refined.append((t, origins, before, after))
            elif t.k == 'call':
                refined.append((t, origins, before, after))
                if callvals is not None:
                    callvals[t.uid] = (after, origins)
        return True, new_env, refined

    # ------------------------------------------------------------ node transfer
    def exec_expr(self, e, ts, env, ctx):
        """Execute the effects of expression e (calls, assignments) in
        evaluation order.  Returns list of (ts, env, callvals).  The arms of
        ?: and the right operands of && / || are conditional: their effects
        happen on some paths only (both outcomes are kept, unrefined).
        Statement expressions are sequenced by the CFG and skipped here."""
        states = [(ts, env, {})]
        if e is None:
            return states
        return self.exec_tree(e, states, ctx)

    def exec_tree(self, n, states, ctx):
        if n is None or not states:
            return states
        k = n.k
        if k == 'stmtexpr':
            return states
        if k == 'cond' and len(n.a) == 3:
            st = self.exec_tree(n.a[0], states, ctx)
            sa = self.exec_tree(n.a[1], st, ctx)
            sb = self.exec_tree(n.a[2], st, ctx)
            return dedup(sa + sb)
        if k == 'bin' and n.op in ('&&', '||'):
            left = self.exec_tree(n.a[0], states, ctx)
            if not any(x.k in ('call', 'stmtexpr') or (x.k == 'bin' and is_assign_op(x.op)) or
                       (x.k == 'un' and x.op in ('++', '--')) for x in self.walk_no_se(n.a[1])):
                return left
            right = self.exec_tree(n.a[1], left, ctx)
            return dedup(left + right)
        for c in n.a:
            if c is not None:
                states = self.exec_tree(c, states, ctx)
        return self.exec_node(n, states, ctx)

    def walk_no_se(self, e):
        stack = [e]
        while stack:
            x = stack.pop()
            if x is None:
                continue
            yield x
            if x.k == 'stmtexpr':
                continue
            stack.extend(c for c in x.a if c is not None)

    def exec_node(self, n, states, ctx):
        rule = self.rule
        if True:
            if n.k == 'call':
                nxt = []
                for ts1, env1, cv in states:
                    ctx.env, ctx.callvals = env1, cv
                    r = rule.on_call(ctx, n, ts1)
                    tss = r if isinstance(r, list) else [r]
                    for ts2 in tss:
                        if ts2 is None:
                            continue
                        for ts3, mask, origins, env3 in self.apply_call(n, ts2, env1, cv, ctx):
                            cv2 = dict(cv)
                            cv2[n.uid] = (mask, origins)
                            ctx.env, ctx.callvals = env3, cv2
                            ts4 = rule.after_call(ctx, n, ts3, mask)
                            if ts4 is None:
                                continue
                            nxt.append((ts4, env3, cv2))
                states = dedup(nxt)
            elif n.k == 'bin' and is_assign_op(n.op):
                nxt = []
                for ts1, env1, cv in states:
                    ctx.env, ctx.callvals = env1, cv
                    lhs = strip(n.a[0])
                    if n.op == '=':
                        val = self.eval(n.a[1], env1, cv, ctx)
                    else:
                        val = (default_mask(n.a[0]), frozenset())
                    env2 = env1
                    if lhs.k == 'var' and lhs.decl in ctx.fn_locals and lhs.decl not in self.addr_taken(ctx.fn):
                        env2 = dict(env1)
                        if n.op == '=' and self.keep(n.a[1], val, env1):
                            env2[lhs.decl] = val
                        else:
                            env2.pop(lhs.decl, None)
                    ts2 = rule.on_assign(ctx, n.a[0], n.a[1], n.op, val, ts1)
                    if ts2 is None:
                        continue
                    nxt.append((ts2, env2, cv))
                states = dedup(nxt)
            elif n.k == 'un' and n.op in ('++', '--'):
                nxt = []
                for ts1, env1, cv in states:
                    ctx.env, ctx.callvals = env1, cv
                    lhs = strip(n.a[0])
                    env2 = env1
                    if lhs.k == 'var' and lhs.decl in env1:
                        env2 = dict(env1)
                        del env2[lhs.decl]
                    ts2 = rule.on_assign(ctx, n.a[0], None, n.op, (default_mask(n.a[0]), frozenset()), ts1)
                    if ts2 is None:
                        continue
                    nxt.append((ts2, env2, cv))
                states = dedup(nxt)
        return states

    def apply_call(self, call, ts, env, cv, ctx):
        """-> list of (ts_out, mask, origins, env_out)"""
        rule = self.rule
        fs, exs = self.prog.call_targets(ctx.fn, call)
        name = callee_name(call) or callee_field(call) or '?'
        out = []
        # locals whose address is passed are havocked
        env2 = env
        for a in call.a[1:]:
            sa = strip(a)
            if sa is not None and sa.k == 'un' and sa.op == '&':
                v = strip(sa.a[0])
                if v.k == 'var' and v.decl in env2:
                    env2 = dict(env2)
                    del env2[v.decl]
        for f in fs:
            over = rule.summarise(ctx, call, f, ts)
            if over is None and rule.interprocedural:
                ts_in = rule.enter_callee(ctx, call, f, ts)
                res = self.summary(f, ts_in)
                for ts_out, mask in res:
                    ts_o = rule.leave_callee(ctx, call, f, ts, ts_out, mask)
                    if ts_o is None:
                        continue
                    out.append((ts_o, mask, frozenset([f.name]), env2))
            elif over is None:
                res = self.plain_masks(f)
                out.append((ts, res, frozenset([f.name]), env2))
            else:
                for ts_out, mask in over:
                    out.append((ts_out, mask, frozenset([f.name]), env2))
        for x in exs:
            m = EXTERN_MASKS.get(x)
            if m is None:
                m = default_mask(call)
            out.append((ts, m, frozenset([x]), env2))
        if not fs and not exs:
            out.append((ts, default_mask(call), frozenset([name]), env2))
        org_tag = frozenset(['%s@%s' % (name, call.uid)])
        out = [(ts_o, mask, org | org_tag, e2) for ts_o, mask, org, e2 in out]
        out2 = rule.filter_call_results(ctx, call, ts, out)
        return out2 if out2 is not None else out

    _plain = None

    def plain_masks(self, fn):
        if Engine._plain is None or Engine._plain.prog is not self.prog:
            Engine._plain = Engine(self.prog, Rule())
        res = Engine._plain.summary(fn, 0)
        m = 0
        for _, mask in res:
            m |= mask
        return m

    # ------------------------------------------------------------ function analysis
    def analyse(self, fn, ts_in):
        g = build_cfg(fn)
        rule = self.rule
        ctx = Ctx(self, fn)
        ctx.fn_locals = self.tracked_locals(fn)
        ctx.ts_in = ts_in
        addr = self.addr_taken(fn)
        states = {}   # node id -> set of (ts, envkey)
        parent = {}   # (node id, state) -> (pred node id, pred state, label)
        work = []
        results = set()
        rec = {'fn': fn, 'states': states, 'parent': parent, 'returns': [], 'cfg': g}
        self.results[(fn.qname, ts_in)] = rec

        live = self.liveness(fn, g)

        def push(node, ts, env, frm):
            lv = live[node.id]
            if env and any(k not in lv for k in env):
                env = {k: v for k, v in env.items() if k in lv}
            st = (ts, freeze(env))
            s = states.setdefault(node.id, set())
            if st in s:
                return
            if len(s) > self.MAX_STATES:
                raise AnalysisBroken('state explosion in %s at line %d (rule %s)' % (fn.qname, node.line, rule.name))
            s.add(st)
            parent[(node.id, st)] = frm
            work.append((node, ts, env, st))

        push(g.entry, ts_in, {}, None)
        while work:
            node, ts, env, st = work.pop()
            ctx.node = node
            ctx.here = (node.id, st)
            ctx.env = env
            ctx.callvals = {}
            ts = rule.on_node(ctx, node, ts)
            if ts is None:
                continue
            k = node.k
            here = (node.id, st)
            if k in ('entry', 'join', 'exit'):
                if k == 'exit':
                    continue
                for m, lab in node.succ:
                    push(m, ts, env, (node.id, st, lab))
            elif k == 'stmt':
                for ts2, env2, cv in self.exec_expr(node.e, ts, env, ctx):
                    for m, lab in node.succ:
                        push(m, ts2, env2, (node.id, st, lab))
            elif k == 'decl':
                if node.static or node.e is None:
                    outs = [(ts, env, {})]
                else:
                    outs = self.exec_expr(node.e, ts, env, ctx)
                for ts2, env2, cv in outs:
                    env3 = env2
                    if node.e is not None and not node.static:
                        ctx.env, ctx.callvals = env2, cv
                        val = self.eval(node.e, env2, cv, ctx)
                        if node.var.decl not in addr:
                            env3 = dict(env2)
                            if self.keep(node.e, val, env2):
                                env3[node.var.decl] = val
                            else:
                                env3.pop(node.var.decl, None)
                        ts3 = rule.on_assign(ctx, node.var, node.e, '=', val, ts2)
                    else:
                        ts3 = ts2
                    if ts3 is None:
                        continue
                    for m, lab in node.succ:
                        push(m, ts3, env3, (node.id, st, lab))
            elif k == 'branch':
                for ts2, env2, cv in self.exec_expr(node.e, ts, env, ctx):
                    for m, lab in node.succ:
                        cv2 = dict(cv)
                        ctx.env, ctx.callvals = env2, cv2
                        ok, env3, refined = self.refine_atom(node.e, lab, env2, cv2, ctx)
                        if not ok:
                            continue
                        ctx.env = env3
                        ts3 = rule.on_edge(ctx, node, lab, refined, ts2)
                        if ts3 is None:
                            continue
                        push(m, ts3, env3, (node.id, st, lab))
            elif k == 'switch':
                for ts2, env2, cv in self.exec_expr(node.e, ts, env, ctx):
                    cases = [lab[1] for m, lab in node.succ if lab and lab[0] == 'case']
                    for m, lab in node.succ:
                        ctx.env, ctx.callvals = env2, dict(cv)
                        env3 = env2
                        refined = []
                        if lab and lab[0] == 'case' and lab[1] is not None:
                            atom = E('bin', op='==', a=[node.e, E('int', val=lab[1])], t='int')
                            ok, env3, refined = self.refine_atom(atom, True, env2, ctx.callvals, ctx)
                            if not ok:
                                continue
                        elif lab and lab[0] == 'default':
                            ok = True
                            for cval in cases:
                                if cval is None:
                                    continue
                                atom = E('bin', op='==', a=[node.e, E('int', val=cval)], t='int')
                                ok, env3, r2 = self.refine_atom(atom, False, env3, ctx.callvals, ctx)
                                if not ok:
                                    break
                                refined = r2
                            if not ok:
                                continue
                        ctx.env = env3
                        ts3 = rule.on_edge(ctx, node, lab, refined, ts2)
                        if ts3 is None:
                            continue
                        push(m, ts3, env3, (node.id, st, lab))
            elif k == 'ret':
                for ts2, env2, cv in self.exec_expr(node.e, ts, env, ctx):
                    ctx.env, ctx.callvals = env2, cv
                    if node.e is not None:
                        mask, org = self.eval(node.e, env2, cv, ctx)
                        # returned through the declared type
                        mask = self.coerce_return(fn, node.e, mask)
                    else:
                        mask = TOP
                    ts3 = rule.on_return(ctx, node, mask, ts2)
                    if ts3 is None:
                        continue
                    results.add((ts3, mask))
                    rec['returns'].append((node, mask, ts3, here))
        # states that reach the exit node did so by falling off the end
        # (return nodes record their result above and are not propagated)
        fall = Z if fn.name == 'main' else TOP
        for ts, envk in list(states.get(g.exit.id, ())):
            ctx.node = g.exit
            ctx.env = dict(envk)
            ctx.callvals = {}
            ts2 = rule.on_return(ctx, g.exit, fall, ts)
            if ts2 is None:
                continue
            results.add((ts2, fall))
            rec['returns'].append((g.exit, fall, ts2, (g.exit.id, (ts, envk))))
        return results

    def coerce_return(self, fn, e, mask):
        rt = fn.rtype or ''
        if rt in ('bool', '_Bool'):
            out = 0
            if mask & Z:
                out |= Z
            if mask & NONZERO:
                out |= P1
            return out
        return mask

    # ------------------------------------------------------------ witnesses
    def witness(self, fn, ts_in, node_id, state, limit=60):
        """Path (list of 'file:line [label]') from entry to (node, state)."""
        rec = self.results.get((fn.qname, ts_in))
        if rec is None:
            return []
        g = rec['cfg']
        parent = rec['parent']
        path = []
        cur = (node_id, state)
        seen = set()
        while cur is not None and cur not in seen and len(path) < 400:
            seen.add(cur)
            frm = parent.get(cur)
            n = g.nodes[cur[0]]
            lab = frm[2] if frm else None
            path.append((n, lab))
            cur = (frm[0], frm[1]) if frm else None
        path.reverse()
        out = []
        last = None
        for idx, (n, lab) in enumerate(path):
            if n.k in ('join', 'entry', 'exit'):
                continue
            nxt_lab = path[idx + 1][1] if idx + 1 < len(path) else None
            desc = '%s:%d' % (rel(n.file), n.line)
            if n.k == 'branch':
                desc += ' [%s is %s]' % (show(n.e)[:70], 'true' if nxt_lab else 'false')
            elif n.k == 'ret':
                desc += ' return %s' % show(n.e)[:50]
            elif n.e is not None:
                desc += ' ' + show(n.e)[:70]
            if desc != last:
                out.append(desc)
            last = desc
        if len(out) > limit:
            out = out[:limit // 2] + ['...'] + out[-limit // 2:]
        return out


def freeze(env):
    return tuple(sorted(env.items()))


def dedup(states):
    seen = set()
    out = []
    for ts, env, cv in states:
        key = (ts, freeze(env), tuple(sorted(cv.items())))
        if key not in seen:
            seen.add(key)
            out.append((ts, env, cv))
    return out


def return_masks(prog, fn):
    """Per return statement masks of a function under the plain rule."""
    eng = Engine(prog, Rule())
    eng.summary(fn, 0)
    rec = eng.results[(fn.qname, 0)]
    return rec['returns']

"""Control-flow graph over the IR, with short-circuit decomposition.

Node kinds:
  entry, exit
  stmt    evaluate expression n.e for its effects (expression statement, for-inc)
  decl    local declaration n.var with optional initialiser n.e
  branch  atomic condition n.e; successors labelled True / False
  switch  n.e; successors labelled ('case', value) / ('default',)
  ret     return n.e
  join    no-op
"""
from .ir import E, S, strip, strip_transparent, walk


class Node(object):
    __slots__ = ('id', 'k', 'e', 'var', 'succ', 'pred', 'file', 'line', 'stmt', 'loop', 'static')

    def __init__(self, id, k, e=None, var=None, file=None, line=0, stmt=None):
        self.id = id
        self.k = k
        self.e = e
        self.var = var
        self.succ = []   # list of (Node, label)
        self.pred = []   # list of (Node, label)
        self.file = file
        self.line = line
        self.stmt = stmt
        self.loop = None
        self.static = False

    def __repr__(self):
        return 'N%d<%s@%d>' % (self.id, self.k, self.line)


class CFG(object):
    def __init__(self, fn):
        self.fn = fn
        self.nodes = []
        self.entry = self.new('entry', line=fn.line, file=fn.file)
        self.exit = self.new('exit', line=fn.endline, file=fn.file)
        self.labels = {}
        self.pending_gotos = []
        self.loops = []   # (head node, stmt)

    def new(self, k, **kw):
        n = Node(len(self.nodes), k, **kw)
        self.nodes.append(n)
        return n

    def edge(self, a, b, label=None):
        a.succ.append((b, label))
        b.pred.append((a, label))


class Builder(object):
    def __init__(self, fn):
        self.fn = fn
        self.g = CFG(fn)

    # Every builder returns the entry node of the construct, given the node
    # control continues to afterwards (`nxt`), and the current break/continue
    # targets.
    def seq(self, s, nxt, brk, cont):
        if s is None:
            return nxt
        if isinstance(s, list):
            cur = nxt
            for x in reversed(s):
                cur = self.seq(x, cur, brk, cont)
            return cur
        return self.stmt(s, nxt, brk, cont)

    def stmt(self, s, nxt, brk, cont):
        g = self.g
        k = s.k
        if k == 'compound':
            return self.seq(s.body, nxt, brk, cont)
        if k == 'null':
            return nxt
        if k == 'expr':
            return self.expr_stmt(s.e, nxt, s)
        if k == 'decl':
            se = strip_bool(s.e) if s.e is not None else None
            if se is not None and not s.static and is_logical(se):
                # T x = a && b;  ==  if(a && b) T x = 1; else T x = 0;   (the atoms become edges, so a failure
                # folded into a flag is still related to the flag's value on each path)
                one = g.new('decl', e=E('int', val=1, t='int', file=s.file, line=s.line), var=s.var, file=s.file,
                            line=s.line, stmt=s)
                zero = g.new('decl', e=E('int', val=0, t='int', file=s.file, line=s.line), var=s.var, file=s.file,
                             line=s.line, stmt=s)
                one.static = zero.static = False
                g.edge(one, nxt)
                g.edge(zero, nxt)
                return self.cond(s.e, one, zero, s)
            if se is not None and not s.static and se.k == 'cond' and not (s.var.t or '').rstrip().endswith(']'):
                # T x = c ? a : b;  ==  if(c) T x = a; else T x = b;
                ta = g.new('decl', e=se.a[1], var=s.var, file=s.file, line=s.line, stmt=s)
                tb = g.new('decl', e=se.a[2], var=s.var, file=s.file, line=s.line, stmt=s)
                ta.static = tb.static = False
                g.edge(ta, nxt)
                g.edge(tb, nxt)
                return self.cond(se.a[0], self.prefix_stmtexprs(se.a[1], ta), self.prefix_stmtexprs(se.a[2], tb), s)
            n = g.new('decl', e=s.e, var=s.var, file=s.file, line=s.line, stmt=s)
            n.static = s.static
            g.edge(n, nxt)
            if s.e is not None and not s.static:
                return self.prefix_stmtexprs(s.e, n)
            return n
        if k == 'return':
            se = strip_bool(s.e) if s.e is not None else None
            if se is not None and ((se.k == 'bin' and se.op in ('&&', '||', '==', '!=', '<', '>', '<=', '>=')) or
                                   (se.k == 'un' and se.op == '!')):
                # return a && b;  ==  if(a && b) return 1; else return 0;   (exposes the atoms as edges)
                one = g.new('ret', e=E('int', val=1, t='int', file=s.file, line=s.line), file=s.file, line=s.line, stmt=s)
                zero = g.new('ret', e=E('int', val=0, t='int', file=s.file, line=s.line), file=s.file, line=s.line, stmt=s)
                g.edge(one, g.exit)
                g.edge(zero, g.exit)
                return self.cond(s.e, one, zero, s)
            n = g.new('ret', e=s.e, file=s.file, line=s.line, stmt=s)
            g.edge(n, g.exit)
            if s.e is not None:
                return self.prefix_stmtexprs(s.e, n)
            return n
        if k == 'if':
            t = self.seq(s.then, nxt, brk, cont)
            f = self.seq(s.els, nxt, brk, cont) if s.els is not None else nxt
            return self.cond(s.e, t, f, s)
        if k == 'while':
            head = g.new('join', file=s.file, line=s.line, stmt=s)
            body = self.seq(s.body, head, nxt, head)
            c = self.cond(s.e, body, nxt, s)
            g.edge(head, c)
            head.loop = s
            g.loops.append((head, s))
            return head
        if k == 'do':
            head = g.new('join', file=s.file, line=s.line, stmt=s)
            condjoin = g.new('join', file=s.file, line=s.line, stmt=s)
            c = self.cond(s.e, head, nxt, s) if s.e is not None else nxt
            g.edge(condjoin, c)
            body = self.seq(s.body, condjoin, nxt, condjoin)
            g.edge(head, body)
            head.loop = s
            g.loops.append((head, s))
            return head
        if k == 'for':
            head = g.new('join', file=s.file, line=s.line, stmt=s)
            incn = g.new('join', file=s.file, line=s.line, stmt=s)
            if s.inc is not None:
                i = self.expr_stmt(s.inc, head, s)
                g.edge(incn, i)
            else:
                g.edge(incn, head)
            body = self.seq(s.body, incn, nxt, incn)
            if s.e is not None:
                c = self.cond(s.e, body, nxt, s)
            else:
                c = body
            g.edge(head, c)
            head.loop = s
            g.loops.append((head, s))
            if s.init is not None:
                return self.seq(s.init, head, brk, cont)
            return head
        if k == 'switch':
            sw = g.new('switch', e=s.e, file=s.file, line=s.line, stmt=s)
            self._switch_stack = getattr(self, '_switch_stack', [])
            self._switch_stack.append({'node': sw, 'default': False})
            body = self.seq(s.body, nxt, nxt, cont)
            info = self._switch_stack.pop()
            if not info['default']:
                g.edge(sw, nxt, ('default',))
            return sw
        if k == 'case':
            target = self.seq(s.body, nxt, brk, cont) if s.body is not None else nxt
            j = g.new('join', file=s.file, line=s.line, stmt=s)
            g.edge(j, target)
            sw = self._switch_stack[-1]['node']
            from .ir import const_value
            g.edge(sw, j, ('case', const_value(s.e)))
            return j
        if k == 'default':
            target = self.seq(s.body, nxt, brk, cont) if s.body is not None else nxt
            j = g.new('join', file=s.file, line=s.line, stmt=s)
            g.edge(j, target)
            self._switch_stack[-1]['default'] = True
            g.edge(self._switch_stack[-1]['node'], j, ('default',))
            return j
        if k == 'break':
            j = g.new('join', file=s.file, line=s.line, stmt=s)
            g.edge(j, brk if brk is not None else nxt)
            return j
        if k == 'continue':
            j = g.new('join', file=s.file, line=s.line, stmt=s)
            g.edge(j, cont if cont is not None else nxt)
            return j
        if k == 'goto':
            j = g.new('join', file=s.file, line=s.line, stmt=s)
            g.pending_gotos.append((j, s.label))
            return j
        if k == 'label':
            j = g.new('join', file=s.file, line=s.line, stmt=s)
            target = self.seq(s.body, nxt, brk, cont) if s.body is not None else nxt
            g.edge(j, target)
            g.labels[s.label] = j
            return j
        # unknown: treat as no-op
        return nxt

    def prefix_stmtexprs(self, e, n):
        """GNU statement expressions nested in e are executed before n."""
        cur = n
        ses = [x for x in walk(e) if x.k == 'stmtexpr' and x.body is not None]
        for se in reversed(ses):
            cur = self.seq(se.body, cur, None, None)
        return cur

    def expr_stmt(self, e, nxt, s):
        g = self.g
        if e is None:
            return nxt
        se = strip(e)
        # comma: sequence
        if se.k == 'bin' and se.op == ',':
            second = self.expr_stmt(se.a[1], nxt, s)
            return self.expr_stmt(se.a[0], second, s)
        if se.k == 'stmtexpr' and se.body is not None:
            return self.seq(se.body, nxt, None, None)
        # top-level conditional used as a statement: a ? b : c
        if se.k == 'cond':
            t = self.expr_stmt(se.a[1], nxt, s)
            f = self.expr_stmt(se.a[2], nxt, s)
            return self.cond(se.a[0], t, f, s)
        if se.k == 'bin' and se.op in ('&&', '||'):
            # used for effect: evaluate as a condition with both outcomes joining
            return self.cond(se, nxt, nxt, s)
        if se.k == 'bin' and se.op == '=' and strip_bool(se.a[1]).k == 'cond' and strip(se.a[0]).k in ('var', 'mem'):
            # x = c ? a : b;  ==  if(c) x = a; else x = b;
            cnd = strip_bool(se.a[1])

            def asg2(v):
                a = E('bin', op='=', a=[se.a[0], v], t=se.t, dt=se.dt, file=se.file, line=se.line, uid=None)
                n_ = g.new('stmt', e=a, file=e.file or s.file, line=e.line or s.line, stmt=s)
                g.edge(n_, nxt)
                return self.prefix_stmtexprs(v, n_)
            return self.cond(cnd.a[0], asg2(cnd.a[1]), asg2(cnd.a[2]), s)
        if se.k == 'bin' and se.op == '=' and is_logical(strip_bool(se.a[1])) and strip(se.a[0]).k in ('var', 'mem'):
            # x = a && b;  ==  if(a && b) x = 1; else x = 0;
            def asg(v):
                c = E('int', val=v, t='int', file=se.file, line=se.line)
                a = E('bin', op='=', a=[se.a[0], c], t=se.t, dt=se.dt, file=se.file, line=se.line)
                n_ = g.new('stmt', e=a, file=e.file or s.file, line=e.line or s.line, stmt=s)
                g.edge(n_, nxt)
                return n_
            return self.cond(se.a[1], asg(1), asg(0), s)
        n = g.new('stmt', e=e, file=e.file or s.file, line=e.line or s.line, stmt=s)
        g.edge(n, nxt)
        return self.prefix_stmtexprs(e, n)

    def cond(self, e, t, f, s):
        """Entry node of the evaluation of condition e that continues to t when
        true and f when false."""
        g = self.g
        se = strip_bool(e)
        if se.k == 'un' and se.op == '!':
            return self.cond(se.a[0], f, t, s)
        if se.k == 'bin' and se.op == '&&':
            right = self.cond(se.a[1], t, f, s)
            return self.cond(se.a[0], right, f, s)
        if se.k == 'bin' and se.op == '||':
            right = self.cond(se.a[1], t, f, s)
            return self.cond(se.a[0], t, right, s)
        if se.k == 'bin' and se.op == ',':
            right = self.cond(se.a[1], t, f, s)
            return self.expr_stmt(se.a[0], right, s)
        if se.k == 'cond':
            a = self.cond(se.a[1], t, f, s)
            b = self.cond(se.a[2], t, f, s)
            return self.cond(se.a[0], a, b, s)
        if se.k == 'int':
            # constant condition: while(true), do{}while(0)
            j = g.new('join', file=se.file or s.file, line=se.line or s.line, stmt=s)
            g.edge(j, t if se.val != 0 else f)
            return j
        n = g.new('branch', e=se, file=se.file or s.file, line=se.line or s.line, stmt=s)
        g.edge(n, t, True)
        g.edge(n, f, False)
        return self.prefix_stmtexprs(se, n)


def is_logical(se):
    return (se.k == 'bin' and se.op in ('&&', '||', '==', '!=', '<', '>', '<=', '>=')) or \
        (se.k == 'un' and se.op == '!' and is_logical_or_call(strip_bool(se.a[0])))


def is_logical_or_call(se):
    return is_logical(se) or se.k == 'call'


def strip_bool(e):
    """Strip parens/casts that do not alter truthiness."""
    while e.k == 'cast':
        e = e.a[0]
    return e


def prune(g):
    """Drop nodes unreachable from entry (dead code after return/goto)."""
    seen = set()
    stack = [g.entry]
    while stack:
        n = stack.pop()
        if n.id in seen:
            continue
        seen.add(n.id)
        for m, _ in n.succ:
            stack.append(m)
    for n in g.nodes:
        if n.id not in seen:
            for m, lab in n.succ:
                m.pred = [(p, l) for (p, l) in m.pred if p is not n]
            n.succ = []
    g.reachable = seen


def build_cfg(fn):
    if fn.cfg is None:
        b = Builder(fn)
        g = b.g
        first = b.seq(fn.body, g.exit, None, None)
        g.edge(g.entry, first)
        for node, label in g.pending_gotos:
            tgt = g.labels.get(label)
            if tgt is None:
                tgt = g.exit
            g.edge(node, tgt)
        prune(g)
        fn.cfg = g
    return fn.cfg


# ------------------------------------------------------------- graph algorithms

def rpo(g):
    order = []
    seen = set()
    stack = [(g.entry, iter([m for m, _ in g.entry.succ]))]
    seen.add(g.entry.id)
    while stack:
        n, it = stack[-1]
        adv = False
        for m in it:
            if m.id not in seen:
                seen.add(m.id)
                stack.append((m, iter([x for x, _ in m.succ])))
                adv = True
                break
        if not adv:
            order.append(n)
            stack.pop()
    order.reverse()
    return order


def dominators(g):
    """dom[n.id] = set of node ids dominating n (including n)."""
    order = rpo(g)
    allids = set(n.id for n in order)
    dom = {n.id: set(allids) for n in order}
    dom[g.entry.id] = {g.entry.id}
    changed = True
    while changed:
        changed = False
        for n in order:
            if n is g.entry:
                continue
            preds = [p for p, _ in n.pred if p.id in allids]
            if not preds:
                new = {n.id}
            else:
                new = set.intersection(*[dom[p.id] for p in preds]) | {n.id}
            if new != dom[n.id]:
                dom[n.id] = new
                changed = True
    return dom


def postdominators(g):
    nodes = [n for n in g.nodes if n.id in g.reachable]
    allids = set(n.id for n in nodes)
    pdom = {n.id: set(allids) for n in nodes}
    pdom[g.exit.id] = {g.exit.id}
    changed = True
    while changed:
        changed = False
        for n in reversed(nodes):
            if n is g.exit:
                continue
            succs = [m for m, _ in n.succ if m.id in allids]
            if not succs:
                new = {n.id}
            else:
                new = set.intersection(*[pdom[m.id] for m in succs]) | {n.id}
            if new != pdom[n.id]:
                pdom[n.id] = new
                changed = True
    return pdom


def reachable_from(start_nodes, stop=None, forward=True):
    """Set of node ids reachable from start_nodes (inclusive) without passing
    through nodes in `stop` (stop nodes themselves are included, not expanded)."""
    seen = set()
    stack = list(start_nodes)
    stop = stop or set()
    while stack:
        n = stack.pop()
        if n.id in seen:
            continue
        seen.add(n.id)
        if n.id in stop:
            continue
        for m, _ in (n.succ if forward else n.pred):
            stack.append(m)
    return seen


def edge_region(branch, label):
    """Nodes reachable from the `label` successor of a branch node."""
    starts = [m for m, l in branch.succ if l == label]
    return reachable_from(starts)


def control_conditions(g, node, pdom=None):
    """Set of (branch node id, label) on which `node` is control dependent
    (transitively): branch B with outcome L controls node N when N is reachable
    from B's L-successor and N does not post-dominate B.  Returned as the list
    of (branch node, label) pairs such that every path from entry to `node`
    ... (may analysis: a pair is returned when taking the *other* label at B can
    avoid `node`)."""
    if pdom is None:
        pdom = postdominators(g)
    res = []
    for b in g.nodes:
        if b.k not in ('branch', 'switch') or b.id not in g.reachable:
            continue
        if node.id in pdom[b.id]:
            continue
        for m, lab in b.succ:
            reach = reachable_from([m])
            if node.id in reach:
                # does every other label avoid node? not required; record reachability
                res.append((b, lab))
    return res


def must_pass_edges(g, node):
    """Edges (branch node, label) that every path from entry to `node` must
    take: removing the edge makes `node` unreachable from entry."""
    res = []
    for b in g.nodes:
        if b.k != 'branch' or b.id not in g.reachable:
            continue
        for m, lab in b.succ:
            # reachability of node from entry without using edge (b, lab)
            seen = set()
            stack = [g.entry]
            found = False
            while stack:
                n = stack.pop()
                if n.id in seen:
                    continue
                seen.add(n.id)
                if n is node:
                    found = True
                    break
                for mm, ll in n.succ:
                    if n is b and ll == lab and mm is m:
                        continue
                    stack.append(mm)
            if not found:
                res.append((b, lab))
    return res


def dominates(g, a, b):
    """Every path from entry to node b passes node a."""
    if a is b:
        return True
    seen = set()
    stack = [g.entry]
    while stack:
        n = stack.pop()
        if n.id in seen or n is a:
            continue
        seen.add(n.id)
        if n is b:
            return False
        for m, lab in n.succ:
            stack.append(m)
    return True

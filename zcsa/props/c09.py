"""C09  Validity scan: exact classification mechanics, side-effect freedom, restore.

C09-a  no call path from the validators reaches a writer (write/pwrite/ftruncate/write_data/zero_chunk).
C09-b  restore: every non-error exit of validate_checksums / zck_validate_data_checksum has, as last
       positioning event, seek_data(zck, data_offset, SEEK_SET) and, as last event on the running data
       hash, hash_init(check_full_hash, hash_type).
C09-c  a short or failed read in the scan loops changes the verdict (R1).
C09-d  the per-chunk verdict is stored into idx->valid for every non-empty chunk; the chunk loop is left
       early only under header_only; the whole-data mismatch arm invalidates every chunk.
C09-e  the scan positions itself: every read in a scan is preceded, inside the function, by
       seek_data(zck, data_offset, SEEK_SET), and every update of the running hash by its hash_init.
C09-f  the read loops cover exactly comp_length bytes per chunk and hash what was read.
"""
from ..flow import M1, NEG, Z, P1, POS, POSITIVE, TOP, mask_str
from ..ir import strip, strip_transparent, show, callee_name, const_value, walk, walk_stmts, calls_in
from ..program import rel, all_exprs, unique_defs
from ..rules import errdisc, dlrules
from ..rules.common import (FactRule, run_rule, call_name, calls_of, pstr, last_field, Lin, lin, atom_cmp,
                            origin_names, node_containing)
from ..cfg import must_pass_edges

VALIDATORS = ('zck_validate_checksums', 'zck_find_valid_chunks', 'zck_validate_data_checksum')
WRITERS = ('write', 'pwrite', 'ftruncate', 'fwrite', 'truncate', 'unlink', 'rename')
REPO_WRITERS = ('write_data', 'zero_chunk', 'chunks_from_temp', 'write_header')
SCANS = ('validate_checksums', 'zck_validate_data_checksum')


class RestoreRule(FactRule):
    name = 'R6.restore'

    def __init__(self, prog, fn):
        FactRule.__init__(self, prog, fn)
        self.exits = 0
        self.reads = 0

    def is_data_start(self, call):
        return pstr(call.a[2], self.subst).endswith('data_offset') and const_value(call.a[3]) == 0

    def on_call(self, ctx, call, ts):
        if ctx.fn is not self.fn:
            return ts
        n = callee_name(call)
        if n == 'read_data':
            self.reads += 1
            if 'positioned' not in ts:
                self.violate(ctx, 'unpositioned-read', 'read_data() in the scan without a preceding '
                             'seek_data(zck, data_offset, SEEK_SET) in this function: the scan starts wherever the '
                             'previous operation left the descriptor', inst='read')
        if n == 'hash_update' and 'check_full_hash' in pstr(call.a[2], self.subst) and 'hash-started' not in ts:
            self.violate(ctx, 'stale-hash', 'running data hash updated without hash_init(check_full_hash) in this '
                         'function', inst='hash')
        return ts

    def after_call(self, ctx, call, ts, mask):
        if ctx.fn is not self.fn:
            return ts
        n = callee_name(call)
        if n == 'seek_data':
            if self.is_data_start(call):
                ts = ts | frozenset(['positioned', 'pos-clean'])
            else:
                ts = ts - frozenset(['positioned', 'pos-clean'])
        elif n in ('read_data', 'read', 'lseek', 'comp_read'):
            ts = ts - frozenset(['pos-clean'])
        elif n == 'hash_init' and 'check_full_hash' in pstr(call.a[2], self.subst):
            ok = pstr(call.a[3], self.subst).endswith('zck->hash_type')
            ts = (ts | frozenset(['hash-clean', 'hash-started'])) if ok else ts - frozenset(['hash-clean'])
        elif n == 'hash_update' and 'check_full_hash' in pstr(call.a[2], self.subst):
            ts = ts - frozenset(['hash-clean'])
        elif n in ('validate_file', 'validate_header'):
            ts = ts - frozenset(['hash-clean'])
        elif n == 'hash_finalize' and 'check_full_hash' in pstr(call.a[2], self.subst):
            ts = ts - frozenset(['hash-clean'])
        elif n == 'validate_checksums':
            # delegated: the callee is checked on its own
            ts = ts | frozenset(['pos-clean', 'hash-clean', 'delegated'])
        return ts

    def on_return(self, ctx, node, mask, ts):
        if ctx.fn is not self.fn:
            return ts
        if mask & ~Z:
            self.exits += 1
            if 'pos-clean' not in ts:
                self.violate(ctx, 'offset-not-restored', 'non-error exit (return %s) without the descriptor back at '
                             'the start of the data section' % show(node.e), inst='offset', node=node)
            if 'hash-clean' not in ts:
                self.violate(ctx, 'hash-not-reinitialised', 'non-error exit (return %s) with the running data hash '
                             'not re-initialised' % show(node.e), inst='hash-reinit', node=node)
        return ts


def count_up_loop(ck, prog, config, clause, fn):
    """validate_checksums: while(rlen < comp_length) { rsize = min(BUF, comp_length - rlen); read(buf, rsize);
    hash(buf, rb); rlen += rsize }"""
    # semantic form (any loop spelling, counting up or down, step by if / ternary / helper): linear values per path,
    # Fourier-Motzkin for  step <= what is left
    from ..rules.consume import check_consume_loop
    return check_consume_loop(ck, prog, config, clause, fn, 'idx->comp_length', [('read_data', 2)],
                              rule_name='R4.chunk-loop', mode='either', instance='scan-loop')
    subst = unique_defs(fn)
    ok = False
    detail = 'no count-up loop over comp_length'
    for lp in [s for s in walk_stmts(fn.body) if s.k == 'while']:
        c = strip_transparent(lp.e)
        if not (c.k == 'bin' and c.op == '<' and pstr(c.a[1], subst).endswith('->comp_length')):
            continue
        cnt = pstr(c.a[0], subst)
        total = pstr(c.a[1], subst)
        step = None
        for s in walk_stmts(lp.body):
            if s.e is None:
                continue
            for n in walk(s.e):
                if n.k == 'bin' and n.op == '+=' and pstr(n.a[0], subst) == cnt:
                    step = pstr(n.a[1], subst)
        rd = [x for s in walk_stmts(lp.body) if s.e is not None for x in calls_in(s.e) if callee_name(x) == 'read_data']
        bounded = False
        for s in walk_stmts(lp.body):
            if s.k == 'if':
                cc = strip_transparent(s.e)
                if cc.k == 'bin' and cc.op in ('>', '>='):
                    r = lin(cc.a[1], subst)
                    if r == Lin({total: 1, cnt: -1}):
                        for t in walk_stmts(s.then):
                            if t.k == 'expr' and strip(t.e).k == 'bin' and strip(t.e).op == '=' and \
                                    pstr(strip(t.e).a[0], subst) == step and lin(strip(t.e).a[1], subst) == r:
                                bounded = True
        rd_ok = len(rd) == 1 and step is not None and pstr(rd[0].a[3], subst) == step
        ok = bounded and rd_ok
        detail = 'counter=%s total=%s step=%s bounded=%s read-length=%s' % (
            cnt, total, step, bounded, pstr(rd[0].a[3], subst) if rd else None)
        if ok:
            break
    ck.ob(clause, 'R4.chunk-loop', fn.name, 'scan-loop', ok,
          ('scan reads exactly comp_length bytes per chunk in steps bounded by the remainder (%s)' % detail) if ok
          else 'scan loop broken: ' + detail, fn.file, fn.line, config=config)


def scan_reads(ck, prog, config, clause_c, clause_f):
    """Read-failure discipline (R1) and loop extents / hash-what-you-read pairing of the two scan functions."""
    # ---- c
    sites, convs = errdisc.analyse_sites(prog, want_site=lambda fn, c, label: fn.name in SCANS and
                                         label in ('read_data', 'seek_data', 'hash_update', 'hash_init',
                                                   'validate_chunk', 'validate_file'))
    k = 0
    for s in sorted(sites, key=lambda r: (r['caller'].qname, r['call'].line)):
        k += 1
        for v in s['violations'] or [None]:
            ck.ob(clause_c, 'R1.errdisc', s['caller'].name, '%s#%d%s' % (s['callee'], k, (':' + v['kind']) if v else ''),
                  v is None, 'failure of %s changes the verdict' % s['callee'] if v is None else
                  '%s: %s' % (v['kind'], v['what']), s['call'].file, s['call'].line, config=config,
                  trivial=bool(s.get('trivial')))
    ck.min_instances('checked calls in the scan functions', k, 6)
    vc = prog.need_func('validate_checksums')
    # ---- f
    count_up_loop(ck, prog, config, clause_f, vc)
    dlrules.chunk_loop(ck, prog, config, clause_f, 'zck_validate_data_checksum', 'idx->comp_length',
                       [('read_data', 2), ('hash_update', 3)])
    from .c02 import pairing
    ck2 = ck
    # the bytes hashed are the bytes read (count variable of read_data)
    fnv = vc
    subst = unique_defs(fnv)
    rds = calls_of(fnv, ('read_data',))
    hus = [c for c in calls_of(fnv, ('hash_update',))]
    cnt = None
    for s in walk_stmts(fnv.body):
        if s.k == 'decl' and s.e is not None and any(x is rds[0] for x in walk(s.e)):
            cnt = s.var.op
    for c in hus:
        okh = pstr(c.a[3], subst) == pstr(rds[0].a[2], subst) and pstr(c.a[4], subst) == cnt
        ck.ob(clause_f, 'R4.pairing', fnv.name, 'hash_update(%s)' % pstr(c.a[2], subst).split('->')[-1], okh,
              'hash_update consumes (%s, %s); read_data filled %s and returned %s' % (
                  pstr(c.a[3], subst), pstr(c.a[4], subst), pstr(rds[0].a[2], subst), cnt), c.file, c.line,
              config=config)


def scan_loop_exits(ck, prog, config, clause):
    """the chunk loop of the validity scan classifies every chunk: early exits only for a detached header,
    returns inside the loop are error returns, a chunk is skipped only when it is the empty dictionary"""
    vc = prog.need_func('validate_checksums')
    g = prog.cfg(vc)
    loops = [s for s in walk_stmts(vc.body) if s.k == 'for']
    ck.require(len(loops) >= 1, 'validate_checksums: chunk loop not found')
    main_loop = loops[0]
    # early exits of the chunk loop
    n_exits = 0

    def direct_stmts(body):
        """statements of the loop body excluding nested loops' bodies"""
        out = []
        stack = [body]
        while stack:
            s = stack.pop()
            if s is None:
                continue
            if isinstance(s, list):
                stack.extend(s)
                continue
            out.append(s)
            if s.k in ('while', 'do', 'for'):
                continue
            for attr in ('body', 'then', 'els'):
                x = getattr(s, attr)
                if x is not None:
                    stack.append(x)
        return out
    for s in direct_stmts(main_loop.body):
        if s.k == 'break':
            n_exits += 1
            nd = [n for n in g.nodes if n.stmt is s]
            okb = False
            if nd:
                for b, lab in must_pass_edges(g, nd[0]):
                    op, l, r = atom_cmp(b.e, lab)
                    if last_field(l) == 'header_only' and op == '!=' and const_value(r) == 0:
                        okb = True
            ck.ob(clause, 'R2.loop-exit', vc.name, 'break@%d' % n_exits, okb,
                  'early exit of the chunk loop only for a detached header (header_only)' if okb else
                  'the chunk loop is left early without the header_only condition: later chunks are never classified',
                  s.file, s.line, config=config)
    for s in walk_stmts(main_loop.body):
        if s.k == 'return':
            n_exits += 1
            v = const_value(s.e) if s.e is not None else None
            ck.ob(clause, 'R2.loop-exit', vc.name, 'return@%d' % n_exits, v == 0,
                  'return inside the chunk loop is an error return (0)' if v == 0 else
                  'non-error return inside the chunk loop (%s): later chunks are never classified' % show(s.e),
                  s.file, s.line, config=config)
        if s.k in ('continue', 'goto') and s in direct_stmts(main_loop.body):
            nd = [n for n in g.nodes if n.stmt is s]
            okc = False
            if nd:
                for b, lab in must_pass_edges(g, nd[0]):
                    op, l, r = atom_cmp(b.e, lab)
                    if last_field(l) == 'comp_length' and op == '==' and const_value(r) == 0:
                        okc = True
            ck.ob(clause, 'R2.loop-exit', vc.name, 'continue', okc,
                  'a chunk is skipped only when it is the empty dictionary entry (nothing stored: comp_length == 0)' if okc else
                  'a chunk can be skipped by the scan without being classified', s.file, s.line, config=config)
    ck.min_instances('exits of the chunk loop', n_exits, 3)


def verdict_store(ck, prog, config, clause):
    """every verdict of validate_chunk() is stored into idx->valid; a whole-data mismatch marks every chunk failed"""
    vc = prog.need_func('validate_checksums')
    main_loop = [s for s in walk_stmts(vc.body) if s.k == 'for'][0]
    class Store(FactRule):
        name = 'R3.verdict-store'

        def __init__(s, prog, fn):
            FactRule.__init__(s, prog, fn)
            s.n = 0
            # boolean locals that are only ever cleared after their initialisation (the "all good so far" flag)
            s.flags = set()
            s.verdict_vars = set()
            for st_ in walk_stmts(fn.body):
                if st_.k == 'decl' and st_.e is not None and any(
                        callee_name(c_) == 'validate_chunk' for c_ in calls_in(st_.e)):
                    s.verdict_vars.add(st_.var.decl)
            for st_ in walk_stmts(fn.body):
                if st_.k == 'decl' and st_.e is not None and const_value(st_.e) == 1 and 'ool' in (st_.var.t or ''):
                    s.flags.add(st_.var.decl)

        def after_call(s, c2, call, ts, mask):
            if callee_name(call) == 'validate_chunk' and c2.fn is s.fn:
                if 'unacc' in ts:
                    s.violate(c2, 'verdict-unexamined', 'the next chunk is classified while the previous verdict was never '
                              'looked at for the overall result', inst='accumulate')
                ts = (ts - frozenset(['stored'])) | frozenset(['pending', 'unacc'])
            if callee_name(call) == 'validate_file' and c2.fn is s.fn:
                ts = ts | frozenset(['file-verdict'])
            return ts

        def on_edge(s, c2, node, label, refined, ts):
            for expr, origins, before, after in refined:
                if 'validate_file' in origin_names(origins) and after == M1:
                    ts = ts | frozenset(['file-mismatch'])
                if 'validate_chunk' in origin_names(origins) and after == P1:
                    ts = ts - frozenset(['unacc'])          # the verdict is known to be "valid" on this path
            # "already not all good": nothing left to record
            op, l, r = atom_cmp(node.e, label)
            sl = strip(l)
            if sl is not None and sl.k == 'var' and sl.decl in s.flags and op == '==' and const_value(r) == 0:
                ts = ts - frozenset(['unacc'])
            return ts

        def on_assign(s, c2, lhs, rhs, op, value, ts):
            sl_ = strip(lhs)
            if c2.fn is s.fn and sl_ is not None and sl_.k == 'var' and sl_.decl in s.flags and const_value(rhs) == 0:
                ts = ts - frozenset(['unacc'])              # recorded in the overall result
            elif c2.fn is s.fn and sl_ is not None and sl_.k == 'var' and sl_.decl in s.verdict_vars and \
                    const_value(rhs) is not None and const_value(rhs) != 1 and 'pending' in ts | frozenset(['pending']):
                ts = ts | frozenset(['unacc'])              # downgraded verdict: to be recorded again
            if strip(lhs).k == 'mem' and strip(lhs).op == 'valid' and rhs is not None:
                # any classification stored for the chunk (R3 restricts what can be stored as 1)
                ts = (ts - frozenset(['pending'])) | frozenset(['stored'])
            if strip(lhs).k == 'var' and rhs is not None and pstr(rhs).endswith('index.first') and \
                    'file-mismatch' in ts:
                # entering the invalidate-all walk (its shape is checked by R8.loop-shape)
                ts = ts | frozenset(['all-invalidated'])
            return ts

        def on_node(s, c2, node, ts):
            # next iteration / loop exit with a verdict not stored
            return ts

        def on_return(s, c2, node, mask, ts):
            if c2.fn is s.fn and mask & (P1 | POS) and 'unacc' in ts:
                s.violate(c2, 'verdict-unexamined', 'overall success can be returned on a path where the last chunk '
                          'verdict was stored but never examined: the loop is left (detached header: after the '
                          'dictionary) before a failed chunk is recorded in the overall result', inst='accumulate',
                          node=node)
            if c2.fn is s.fn and mask & ~Z:
                s.n += 1
                if 'pending' in ts:
                    s.violate(c2, 'verdict-dropped', 'a chunk verdict from validate_chunk() is never stored into '
                              'idx->valid on this path', inst='store', node=node)
                if 'file-mismatch' in ts and 'all-invalidated' not in ts:
                    s.violate(c2, 'no-invalidate-all', 'whole-data checksum mismatch with every chunk matching, '
                              'but the chunks are not marked failed', inst='invalidate-all', node=node)
            return ts
    st = Store(prog, vc)
    run_rule(prog, vc, st)
    by = {}
    for v in st.violations:
        by.setdefault(v.inst, v)
    ck.ob(clause, 'R3.verdict-store', vc.name, 'store', 'store' not in by,
          'the verdict of validate_chunk() is stored into idx->valid before the next chunk / exit'
          if 'store' not in by else by['store'].msg, vc.file, by['store'].node.line if 'store' in by else vc.line,
          path=by['store'].path if 'store' in by else None, config=config)
    ck.ob(clause, 'R3.verdict-store', vc.name, 'accumulate', 'accumulate' not in by,
          'every chunk verdict is examined for the overall result before the next chunk or a success return'
          if 'accumulate' not in by else by['accumulate'].msg, vc.file,
          by['accumulate'].node.line if 'accumulate' in by else vc.line,
          path=by['accumulate'].path if 'accumulate' in by else None, config=config)
    ck.ob(clause, 'R3.verdict-store', vc.name, 'invalidate-all', 'invalidate-all' not in by,
          'on a whole-data mismatch every chunk is marked failed' if 'invalidate-all' not in by else
          by['invalidate-all'].msg, vc.file, by['invalidate-all'].node.line if 'invalidate-all' in by else vc.line,
          path=by['invalidate-all'].path if 'invalidate-all' in by else None, config=config)
    # invalidate-all loop covers the whole list
    inv = [s for s in walk_stmts(vc.body) if s.k == 'for' and s is not main_loop]
    okinv = False
    for lp in inv:
        init_ok = lp.init is not None and any(s.k == 'decl' and s.e is not None and
                                              pstr(s.e).endswith('index.first') for s in walk_stmts(lp.init))
        inc_ok = lp.inc is not None and strip(lp.inc).k == 'bin' and pstr(strip(lp.inc).a[1]).endswith('->next')
        body_ok = any(s.k == 'expr' and strip(s.e).k == 'bin' and last_field(strip(s.e).a[0]) == 'valid' and
                      const_value(strip(s.e).a[1]) == -1 for s in walk_stmts(lp.body))
        no_skip = not any(s.k in ('break', 'continue', 'if') for s in walk_stmts(lp.body))
        okinv = okinv or (init_ok and inc_ok and body_ok and no_skip)
    ck.ob(clause, 'R8.loop-shape', vc.name, 'invalidate-all-loop', okinv,
          'the invalidate-all loop walks index.first .. NULL unconditionally' if okinv else
          'no unconditional loop over the whole chunk list storing valid = -1', vc.file, vc.line, config=config)



def run(ctx):
    ck = ctx.check
    ck.explanation = (
        'Call-graph reachability (function-pointer slots resolved) shows no writer below the three validators; a '
        'typestate over all paths of the two scan functions decides positioning before every read, re-initialised '
        'running hash and restored offset on every non-error exit; R1 follows read failures and short counts to the '
        'verdict; structural checks on the chunk loop (exits, verdict store, invalidate-all arm, loop extents).  The '
        'classification as a function of file content is not executed.')
    ck.declined += ['exactness of the classification as a function of the bytes on disk (runtime fact)']
    for config in ctx.configs():
        prog = ctx.prog(config)
        # ---- a
        roots = [prog.need_func(v) for v in VALIDATORS]
        seen, ext = prog.reachable_calls(roots)
        bad = []
        for w in WRITERS:
            for f, c in ext.get(w, []):
                bad.append(('%s() in %s' % (w, f.name), f, c))
        for q in seen:
            f = prog.funcs[q]
            if f.name in REPO_WRITERS:
                bad.append(('%s via %s' % (f.name, prog.call_path(seen, q)), f, None))
        ck.ob('C09-a', 'R7.effects', 'validators', 'no-writer-reachable', not bad,
              '%d functions reachable from %s; none of %s' % (len(seen), ', '.join(VALIDATORS),
                                                             ', '.join(WRITERS + REPO_WRITERS)) if not bad else
              'a writer is reachable from a validator: ' + '; '.join(b[0] for b in bad)[:400],
              bad[0][2].file if bad and bad[0][2] is not None else roots[0].file,
              bad[0][2].line if bad and bad[0][2] is not None else roots[0].line, config=config,
              sample={'roots': list(VALIDATORS), 'reachable_functions': len(seen)})
        ck.min_instances('functions reachable from the validators', len(seen), 15)
        # ---- h  what the scan reads of a chunk is hashed before the chunk's verdict
        from ..rules import dlrules as _dl9
        _dl9.read_reaches_hash(ck, prog, config, 'C09-h')
        from . import c19 as _c19
        _c19.shared_scratch(ck, prog, config, 'C09-i', tuple(VALIDATORS), 'validity scan')
        # ---- j  overall success only when the whole-data checksum matched too: every positive exit of the scan lies on
        #         the >= 1 edge of validate_file() (or returns its verdict), except for a detached header or an
        #         uncompressed source, where the scan of the chunks is the whole verdict
        from ..rules.common import GateRule as _GR
        from ..flow import POSITIVE as _POSV

        def _exc(rule, c2, node, label, refined, ts):
            op, l, r = atom_cmp(node.e, label)
            if last_field(l) in ('has_uncompressed_source', 'header_only') and op == '!=' and const_value(r) == 0:
                ts = ts | frozenset(['gate:validate_file'])
            return ts
        vcs = prog.need_func('validate_checksums')
        gr9 = _GR(prog, vcs, {'validate_file': _POSV}, P1 | POS, extra_edge=_exc)
        run_rule(prog, vcs, gr9)
        ck.require(gr9.success_exits >= 1, 'validate_checksums has no positive exit')
        ck.ob('C09-j', 'R2.gate', vcs.name, 'validate_file', not gr9.violations,
              'every positive exit of the scan (%d state(s)) lies on the >= 1 edge of validate_file(), returns its verdict, '
              'or is the detached-header / uncompressed-source case' % gr9.success_exits if not gr9.violations else
              gr9.violations[0].msg + ': the scan reports overall success although the whole-data checksum was not '
              'found equal', vcs.file, gr9.violations[0].node.line if gr9.violations else vcs.line,
              path=gr9.violations[0].path if gr9.violations else None, config=config)
        # ---- b, e
        for name in SCANS:
            fn = prog.need_func(name)
            r = RestoreRule(prog, fn)
            run_rule(prog, fn, r)
            ck.require(r.exits >= 1, '%s has no non-error exit' % name)
            ck.require(r.reads >= 1, '%s no longer reads the data section' % name)
            by = {}
            for v in r.violations:
                by.setdefault(v.inst, v)
            for inst, clause, text in (('offset', 'C09-b', 'descriptor restored to data_offset on every non-error exit'),
                                       ('hash-reinit', 'C09-b', 'running data hash re-initialised on every non-error exit'),
                                       ('read', 'C09-e', 'every read of the scan is positioned by seek_data(zck, data_offset, SEEK_SET) in this function'),
                                       ('hash', 'C09-e', 'the running hash is initialised in this function before it is updated')):
                v = by.get(inst)
                ck.ob(clause, 'R6.restore', name, inst, v is None, text if v is None else v.msg, fn.file,
                      v.node.line if v else fn.line, path=v.path if v else None, config=config)
        scan_reads(ck, prog, config, 'C09-c', 'C09-f')
        # ---- d
        scan_loop_exits(ck, prog, config, 'C09-d')
        vc = prog.need_func('validate_checksums')
        g = prog.cfg(vc)
        main_loop = [s for s in walk_stmts(vc.body) if s.k == 'for'][0]

        verdict_store(ck, prog, config, 'C09-d')
        from ..rules import extra as _x
        _x.check_reader_data_offset(ck, prog, config, 'C09-e')
        # ---- g  a chunk is marked valid only under a digest comparison (or, for an entry with nothing stored, at all)
        nvs = dlrules.valid_inventory(ck, prog, config, 'C09-g')
        ck.min_instances('stores to zckChunk.valid', nvs, 10)


CLAIM = {
    'technique': 'call-graph reachability (who-may-write), restore/positioning typestate over all paths of the scan '
                 'functions, call-site error discipline, loop-exit control dependence, loop extent checks',
    'text': 'static analysis: decides C09-a..f (mechanism) - no writer is reachable from the validators; every scan '
            'positions itself at the data start and initialises the running hash before reading, and restores both on '
            'every non-error exit; read failures and short counts change the verdict; no chunk is skipped except the '
            'empty dictionary / detached-header cases; the verdict is stored per chunk and a whole-data mismatch '
            'invalidates all chunks; the loops read exactly comp_length bytes and hash what was read. The '
            'classification per file content is not executed.',
    'note': 'trusted: clang 14 front end; call graph over-approximates function-pointer slots; seek_data/read_data '
            'summaries',
}

MUTANTS = [
    {'id': 'm14', 'desc': 'final seek_data removed', 'file': 'src/lib/hash/hash.c',
     'old': """    /* Go back to beginning of data section */
    if(!seek_data(zck, zck->data_offset, SEEK_SET))
        return 0;

    /* Reinitialize data checksum */""", 'new': """    /* Reinitialize data checksum */""",
     'expect': 'R6.restore validate_checksums [offset]'},
    {'id': 'm15', 'desc': 'final hash_init removed', 'file': 'src/lib/hash/hash.c',
     'old': """    /* Reinitialize data checksum */
    if(!hash_init(zck, &(zck->check_full_hash), &(zck->hash_type)))
        return 0;

    return valid_file;""", 'new': """    return valid_file;""",
     'expect': 'R6.restore validate_checksums [hash-reinit]'},
    {'id': 'm16', 'desc': 'scan zero-fills a failed chunk', 'file': 'src/lib/hash/hash.c',
     'old': """        if(short_read && valid_chunk == 1) {""",
     'new': """        if(valid_chunk == -1 && !write_data(zck, zck->fd, buf, 0))
            return 0;
        if(short_read && valid_chunk == 1) {""", 'expect': 'R7.effects validators'},
    {'id': 'm17', 'desc': 'scan stops at the first failed chunk', 'file': 'src/lib/hash/hash.c',
     'old': """        if(all_good && valid_chunk != 1)
            all_good = false;""", 'new': """        if(all_good && valid_chunk != 1) {
            all_good = false;
            break;
        }""", 'expect': 'R2.loop-exit validate_checksums'},
    {'id': 'm18', 'desc': 'invalidate-all loop removed', 'file': 'src/lib/hash/hash.c',
     'old': """            if(valid_file == -1)
                for(zckChunk *idx = zck->index.first; idx; idx = idx->next)
                    idx->valid = -1;""", 'new': '', 'expect': 'validate_checksums'},
    {'id': 'm09e', 'desc': 'initial rewind removed (seeded c09)', 'file': 'src/lib/hash/hash.c',
     'old': """    if(!hash_init(zck, &(zck->check_full_hash), &(zck->hash_type)))
        return 0;

    if(!seek_data(zck, zck->data_offset, SEEK_SET))
        return 0;

    /* Check each chunk checksum */""", 'new': """    /* Check each chunk checksum */""",
     'expect': 'R6.restore validate_checksums [read]'},
    {'id': 'm09f', 'desc': 'verdict not stored', 'file': 'src/lib/hash/hash.c',
     'old': """        idx->valid = valid_chunk;
        if(all_good""", 'new': """        if(all_good""", 'expect': 'R3.verdict-store validate_checksums'},
    {'id': 'm09g', 'desc': 'scan reads a full block for the last piece', 'file': 'src/lib/hash/hash.c',
     'old': """            ssize_t rb = read_data(zck, buf, rsize);
            if(rb < 0)
                return 0;
            /* Only hash""", 'new': """            ssize_t rb = read_data(zck, buf, BUF_SIZE);
            if(rb < 0)
                return 0;
            /* Only hash""", 'expect': 'validate_checksums'},
    {'id': 'n09a', 'desc': 'restore order swapped', 'file': 'src/lib/hash/hash.c',
     'old': """    /* Go back to beginning of data section */
    if(!seek_data(zck, zck->data_offset, SEEK_SET))
        return 0;

    /* Reinitialize data checksum */
    if(!hash_init(zck, &(zck->check_full_hash), &(zck->hash_type)))
        return 0;

    return valid_file;""", 'new': """    if(!hash_init(zck, &(zck->check_full_hash), &(zck->hash_type)))
        return 0;
    if(!seek_data(zck, zck->data_offset, SEEK_SET))
        return 0;

    return valid_file;""", 'expect': None},
]


# SESSION7 additions to the claim (clauses added in DESIGN section 12)
CLAIM['technique'] += '; read-hashed typestate (every count read from a chunk reaches the chunk hash before the verdict); semantic count-up/count-down chunk loop (linear values, Fourier-Motzkin); static inventory restricted to the scan'
CLAIM['text'] += ' C09-h: no path of the scan classifies a chunk whose bytes were read but not hashed. C09-i: the scan keeps nothing in static storage.'

MUTANTS += [
    {'id': 'm09h', 'desc': 'blocks that start with a zero byte are not hashed (after seeded c09r7)', 'file': 'src/lib/hash/hash.c',
     'old': """            if(rb > 0) {
                if(!hash_update(zck, &(zck->check_chunk_hash), buf, rb))
                    return 0;""", 'new': """            if(rb > 0 && buf[0] != 0) {
                if(!hash_update(zck, &(zck->check_chunk_hash), buf, rb))
                    return 0;""", 'expect': 'R6.read-hashed validate_checksums'},
]


# SESSION7b additions to the claim (round 8, DESIGN 12.6)
CLAIM['technique'] += '; whole-data gate on the scan verdict'
CLAIM['text'] += ' C09-j: every positive exit of the scan lies on the >= 1 edge of validate_file() or is the detached-header / uncompressed-source case.'

"""C15  A unit-decoded chunk is verified before any of its bytes are released.

C15-a (R1)  every call site of a function that reports the chunk verdict on the
            read path (comp_end_dchunk, validate_current_chunk, validate_chunk)
            separates the mismatch (-1) and error (0) classes from success.
C15-b (R6)  in every function that calls the backend's end_dchunk slot (which
            appends the decoded chunk to the release buffer dc_data), every exit
            after that call is on the >=1 edge of the chunk verdict, or has passed
            a purge (dc_data = NULL) or a poison (fatal error) event.
C15-c (R7)  a backend whose end_dchunk slot fills the release buffer (unit
            decoding) must not fill it from its streaming `decompress` slot, and
            the end_dchunk slot is only reached under the whole-chunk condition
            data_loc == comp_length.
"""
from ..flow import M1, NEG, Z, P1, POS, NONNEG, POSITIVE, mask_str
from ..ir import strip, show, callee_name, callee_field, const_value, walk
from ..program import rel, all_exprs
from ..rules import errdisc
from ..rules.common import (FactRule, run_rule, call_name, calls_of, atom_cmp, pstr, last_field, origin_names,
                            node_containing)
from ..cfg import must_pass_edges

VERDICT_FUNCS = ('comp_end_dchunk', 'validate_current_chunk', 'validate_chunk')


class ReleaseRule(FactRule):
    name = 'R6.release'

    def __init__(self, prog, fn, slot, verdicts):
        FactRule.__init__(self, prog, fn)
        self.slot = slot
        self.verdicts = verdicts
        self.exits = 0

    def after_call(self, ctx, call, ts, mask):
        if callee_field(call) == self.slot:
            return ts | frozenset(['decoded'])
        if callee_name(call) == 'set_error_wf' and len(call.a) > 2:
            v = const_value(call.a[2])
            if v is not None and v >= 1:
                return ts | frozenset(['poisoned'])
        return ts

    def on_assign(self, ctx, lhs, rhs, op, value, ts):
        if last_field(lhs) == 'dc_data' and op == '=' and rhs is not None and strip(rhs).k == 'null':
            return ts | frozenset(['purged'])
        return ts

    def on_edge(self, ctx, node, label, refined, ts):
        for expr, origins, before, after in refined:
            if origin_names(origins) & set(self.verdicts) and after & ~POSITIVE == 0:
                ts = ts | frozenset(['verified'])
        return ts

    def on_return(self, ctx, node, mask, ts):
        if ctx.fn is not self.fn:
            return ts
        if 'decoded' in ts:
            self.exits += 1
            if not (ts & frozenset(['verified', 'purged', 'poisoned'])):
                self.violate(ctx, 'unverified-exit',
                             'exit (return %s) after the end_dchunk slot filled the release buffer without a '
                             'successful chunk verdict and without purge (dc_data = NULL) or poison (fatal error): '
                             'a later read drains unverified bytes' % (show(node.e) if node.e is not None else ''),
                             inst='exit', node=node)
        return ts


def reaches(prog, fn, names):
    seen, ext = prog.reachable_calls([fn])
    hit = [q for q in seen if prog.funcs[q].name in names]
    return hit


def run(ctx):
    ck = ctx.check
    ck.explanation = (
        'C15 is decided through its mechanism: (a) the verdict of the chunk checksum comparison is followed from '
        'validate_chunk up to comp_read with the path-sensitive class engine and must not reach a success exit in '
        'its mismatch (-1) or error (0) class; (b) in every function that calls the backend end_dchunk slot, every '
        'exit after the call lies on the >=1 edge of the verdict or passes a purge/poison event; (c) unit-decoding '
        'backends do not fill the release buffer from their streaming slot, and the end_dchunk slot is only reached '
        'when the whole stored chunk has been read.  Nothing is executed.')
    ck.declined += ['correctness of zstd itself']
    for config in ctx.configs():
        prog = ctx.prog(config)
        _cv = errdisc.Conventions(prog)
        _rtb = [b for b in errdisc.return_type_breaches(prog, _cv) if 'valid' in b[0].name or b[0].name.startswith('comp_')]
        for _fn, _where, _msg in _rtb:
            ck.ob('C15-a', 'R1.return-type', _fn.name, 'signed-result', False, '%s: %s' % (_fn.name, _msg), _fn.file,
                  getattr(_where, 'line', _fn.line), config=config)
        if not _rtb:
            ck.ob('C15-a', 'R1.return-type', '*', 'signed-verdicts', True,
                  'every verdict function returns a signed type (a -1 mismatch is not converted to true)', config=config)
        # ---- C15-a
        n = 0
        for which in ('verify', 'io'):
            sites, convs = errdisc.analyse_sites(
                prog, want_site=lambda fn, c, label: label in VERDICT_FUNCS and prog.is_lib_unit(fn.unit) and
                fn.name in ('comp_read', 'comp_end_dchunk', 'validate_current_chunk'), which=which)
            counts = {}
            for s in sorted(sites, key=lambda r: (r['caller'].qname, r['call'].line, str(r['call'].uid))):
                key = (s['caller'].qname, s['callee'])
                counts[key] = counts.get(key, 0) + 1
                inst = '%s#%d:%s' % (s['callee'], counts[key], 'mismatch' if which == 'verify' else 'error')
                fn, c = s['caller'], s['call']
                n += 1
                if s.get('trivial') or not s['violations']:
                    ck.ob('C15-a', 'R1.errdisc', fn.name, inst, True,
                          'classes %s of %s never reach a success exit of %s' % (
                              mask_str(s['mask'] & s['fail']), s['callee'], fn.name), c.file, c.line, config=config,
                          trivial=bool(s.get('trivial')))
                else:
                    v = s['violations'][0]
                    ck.ob('C15-a', 'R1.errdisc', fn.name, inst, False,
                          'verdict of %s (convention %s, classes %s): its %s class can reach a success exit of %s: %s'
                          % (show(c)[:60], s['conv'], mask_str(s['mask']),
                             'mismatch (-1)' if which == 'verify' else 'error (0)', fn.name, v['what']),
                          c.file, c.line, config=config)
        ck.min_instances('verdict call sites on the read path', n, 4)
        # ---- C15-b
        callers = []
        for fn in prog.lib_funcs():
            cs = [c for c in calls_of(fn, ('end_dchunk',)) if callee_field(c) == 'end_dchunk']
            if cs:
                callers.append((fn, cs))
        ck.min_instances('callers of the end_dchunk slot', len(callers), 1)
        for fn, cs in callers:
            rule = ReleaseRule(prog, fn, 'end_dchunk', VERDICT_FUNCS)
            run_rule(prog, fn, rule)
            if rule.exits == 0:
                ck.require(False, 'no exit after the end_dchunk slot call found in %s' % fn.name)
            if not rule.violations:
                ck.ob('C15-b', 'R6.release', fn.name, 'exits-after-decode', True,
                      '%d exit state(s) after the end_dchunk slot: each verified, purged or poisoned' % rule.exits,
                      fn.file, cs[0].line, config=config)
            for v in rule.violations:
                ck.ob('C15-b', 'R6.release', fn.name, 'exits-after-decode', False, v.msg, v.node.file, v.node.line,
                      path=v.path, config=config)
            # ---- C15-c whole-chunk condition: the (transitive) call of the slot in comp_read
        cr = prog.need_func('comp_read')
        g = prog.cfg(cr)
        found = 0
        for c in calls_of(cr, [f.name for f, _ in callers]):
            found += 1
            nd = node_containing(g, c.uid)
            ck.require(nd is not None, 'call node of %s not in CFG of comp_read' % call_name(c))
            ok = False
            for b, lab in must_pass_edges(g, nd):
                op, l, r = atom_cmp(b.e, lab)
                names = set([last_field(l), last_field(r)])
                if op == '==' and names == set(['data_loc', 'comp_length']):
                    ok = True
            ck.ob('C15-c', 'R2.guard', 'comp_read', '%s:whole-chunk' % call_name(c), ok,
                  'chunk end is %s on data_loc == comp_length (whole stored chunk read before decoding)' % (
                      'control dependent' if ok else 'NOT control dependent'), c.file, c.line, config=config)
        ck.min_instances('chunk-end calls in comp_read', found, 1)
        # ---- C15-c backend slots
        fp = prog.fp_targets()
        ends = [prog.funcs[q] for q in fp.get('end_dchunk', ()) if q in prog.funcs]
        decs = dict((prog.funcs[q].unit, prog.funcs[q]) for q in fp.get('decompress', ()) if q in prog.funcs)
        ck.min_instances('end_dchunk slot targets', len(ends), 1)
        # ---- d  the chunk verdict itself: positive only on the equal edge of a byte-wise digest comparison
        from ..rules import dlrules
        nv = dlrules.verdict_gates(ck, prog, config, 'C15-d', (('validate_chunk', None, None),))
        ck.min_instances('positive-verdict exits of validate_chunk', nv, 1)
        dlrules.digest_intact(ck, prog, config, 'C15-d', ('validate_chunk',))
        from . import c19 as _c19
        _c19.shared_scratch(ck, prog, config, 'C15-e', ('comp_read',), 'unit decoding')
        # the comparison length is the digest size: a digest size kept in too few bits compares nothing
        from ..rules import fielddom as _fd15
        _fd15.check_bitfields(ck, prog, config, 'C15-f')
        for e in ends:
            unit_decoding = bool(reaches(prog, e, ('comp_add_to_dc',)))
            d = decs.get(e.unit)
            if not unit_decoding:
                ck.ob('C15-c', 'R8.backend', e.unit, 'streaming', True,
                      'end_dchunk slot of %s does not fill the release buffer: streaming backend, outside C15'
                      % rel(e.unit), e.file, e.line, trivial=True, config=config)
                continue
            ck.require(d is not None, 'unit-decoding backend %s has no decompress slot target' % e.unit)
            early = reaches(prog, d, ('comp_add_to_dc',))
            writes = [show(n)[:50] for ex in all_exprs(d) for n in walk(ex)
                      if n.k == 'bin' and n.op.endswith('=') and n.op not in ('==', '!=', '<=', '>=') and
                      last_field(n.a[0]) in ('dc_data', 'dc_data_size')]
            ok = not early and not writes
            ck.ob('C15-c', 'R8.backend', rel(e.unit), 'unit-decoding:decompress-slot', ok,
                  'unit-decoding backend: streaming slot %s the release buffer before the chunk end%s' % (
                      'does not fill' if ok else 'FILLS', '' if ok else ' (%s)' % (early or writes)),
                  d.file, d.line, config=config)


MUTANTS = [
    {'id': 'm15x', 'desc': 'chunk digests compared with an XOR-fold helper (seeded c15r3)', 'file': 'src/lib/hash/hash.c',
     'old': '', 'new': '',
     'edits': [('src/lib/hash/hash.c', """int validate_chunk(zckChunk *idx, zck_log_type bad_checksum) {""",
                """static int digest_cmp(const char *a, const char *b, size_t n) {
    unsigned char diff = 0;
    for(size_t i = 0; i < n; i++)
        diff ^= (unsigned char)(a[i] ^ b[i]);
    return diff;
}

int validate_chunk(zckChunk *idx, zck_log_type bad_checksum) {"""),
               ('src/lib/hash/hash.c', """    if(memcmp(digest, idx->digest, idx->digest_size) != 0) {""",
                """    if(digest_cmp(digest, idx->digest, idx->digest_size) != 0) {""")],
     'expect': 'R2.gate validate_chunk'},
    {'id': 'n15x', 'desc': 'chunk digests compared with a constant-time OR-fold helper', 'file': 'src/lib/hash/hash.c',
     'old': '', 'new': '',
     'edits': [('src/lib/hash/hash.c', """int validate_chunk(zckChunk *idx, zck_log_type bad_checksum) {""",
                """static int digest_cmp(const char *a, const char *b, size_t n) {
    unsigned char diff = 0;
    for(size_t i = 0; i < n; i++)
        diff |= (unsigned char)(a[i] ^ b[i]);
    return diff;
}

int validate_chunk(zckChunk *idx, zck_log_type bad_checksum) {"""),
               ('src/lib/hash/hash.c', """    if(memcmp(digest, idx->digest, idx->digest_size) != 0) {""",
                """    if(digest_cmp(digest, idx->digest, idx->digest_size) != 0) {""")],
     'expect': None},
    {'id': 'm29', 'desc': 'comp_read tests comp_end_dchunk with !', 'file': 'src/lib/comp/comp.c',
     'old': 'if(comp_end_dchunk(zck, use_dict, zck->comp.data_idx->length) < 1) {',
     'new': 'if(!comp_end_dchunk(zck, use_dict, zck->comp.data_idx->length)) {',
     'expect': 'R1.errdisc comp_read'},
    {'id': 'm29b', 'desc': 'comp_read tests comp_end_dchunk with < 0 (0 = decode error passes)',
     'file': 'src/lib/comp/comp.c',
     'old': 'if(comp_end_dchunk(zck, use_dict, zck->comp.data_idx->length) < 1) {',
     'new': 'if(comp_end_dchunk(zck, use_dict, zck->comp.data_idx->length) < 0) {',
     'expect': 'R1.errdisc comp_read'},
    {'id': 'm30', 'desc': 'comp_end_dchunk: purge and poison removed', 'file': 'src/lib/comp/comp.c',
     'old': """        free(zck->comp.dc_data);
        zck->comp.dc_data = NULL;
        zck->comp.dc_data_loc = 0;
        zck->comp.dc_data_size = 0;
        set_fatal_error(zck, "Chunk failed checksum verification");
        return -1;""",
     'new': """        return -1;""", 'expect': 'R6.release comp_end_dchunk'},
    {'id': 'm30b', 'desc': 'comp_end_dchunk: verdict tested with < 0', 'file': 'src/lib/comp/comp.c',
     'old': 'if(validate_current_chunk(zck) < 1) {', 'new': 'if(validate_current_chunk(zck) < 0) {',
     'expect': 'comp_end_dchunk'},
    {'id': 'm15c', 'desc': 'chunk end no longer conditioned on whole chunk', 'file': 'src/lib/comp/comp.c',
     'old': 'if(zck->comp.data_loc == zck->comp.data_idx->comp_length) {',
     'new': 'if(zck->comp.data_loc <= zck->comp.data_idx->comp_length && zck->comp.data_size > 0) {',
     'expect': 'R2.guard comp_read'},
    {'id': 'm15d', 'desc': 'zstd streaming slot releases data early', 'file': 'src/lib/comp/zstd/zstd.c',
     'old': """static bool decompress(zckCtx *zck, zckComp *comp, const bool use_dict) {
    VALIDATE_BOOL(zck);
    ALLOCD_BOOL(zck, comp);

    return true;""",
     'new': """static bool decompress(zckCtx *zck, zckComp *comp, const bool use_dict) {
    VALIDATE_BOOL(zck);
    ALLOCD_BOOL(zck, comp);

    if(comp->data_size > 0 && !use_dict)
        return comp_add_to_dc(zck, comp, comp->data, comp->data_size);
    return true;""", 'expect': 'R8.backend'},
    {'id': 'n15a', 'desc': 'purge only (no fatal error) is accepted', 'file': 'src/lib/comp/comp.c',
     'old': """        set_fatal_error(zck, "Chunk failed checksum verification");
        return -1;""",
     'new': """        set_error(zck, "Chunk failed checksum verification");
        return -1;""", 'expect': None},
    {'id': 'n15b', 'desc': 'verdict assigned then tested with != 1', 'file': 'src/lib/comp/comp.c',
     'old': 'if(validate_current_chunk(zck) < 1) {',
     'new': 'int verdict = validate_current_chunk(zck);\n    if(verdict != 1) {', 'expect': None},
]


CLAIM = {
    'technique': 'verdict-discipline analysis (path-sensitive class engine over the callers of the chunk verdict), '
                 'release typestate on every caller of the end_dchunk slot, backend slot cross-check, verdict-function gate on a byte-wise comparison primitive (OR-fold helpers recognised, XOR-fold rejected)',
    'text': 'static analysis: decides the mechanism C15 rests on - the chunk verdict (-1 mismatch / 0 error) can '
            'never reach a success exit of comp_end_dchunk/comp_read; every exit after the decode slot is verified, '
            'purged or poisoned; a unit-decoding backend does not release from its streaming slot; the decode slot is '
            'reached only when the whole stored chunk was read. zstd itself is not analysed. C15-d: validate_chunk is positive only on the equal edge of a byte-wise digest comparison.',
    'note': 'trusted: clang 14 front end; return-convention table; function-pointer slot resolution from the setup '
            'functions; purge = dc_data assigned NULL, poison = set_error_wf(fatal>=1)',
}


# SESSION7 additions to the claim (clauses added in DESIGN section 12)
CLAIM['technique'] += '; digest-intact typestate on the chunk verdict; static inventory restricted to unit decoding'
CLAIM['text'] += ' C15-d (extended): the computed chunk digest is compared as computed. C15-e: unit decoding keeps nothing in static storage.'

MUTANTS += [
    {'id': 'm15z', 'desc': 'computed digest zeroed whenever the index digest starts with a zero byte (after seeded c15r7)',
     'file': 'src/lib/hash/hash.c', 'old': """    if(idx->comp_length == 0)
        memset(digest, 0, idx->digest_size);""", 'new': """    if(idx->digest[0] == 0)
        memset(digest, 0, idx->digest_size);""", 'expect': 'R2.digest-intact validate_chunk'},
    {'id': 'n15z', 'desc': 'nothing-stored test with the constant on the left', 'file': 'src/lib/hash/hash.c',
     'old': """    if(idx->comp_length == 0)
        memset(digest, 0, idx->digest_size);""", 'new': """    if(0 == idx->comp_length)
        memset(digest, 0, idx->digest_size);""", 'expect': None},
]


# SESSION7b additions to the claim (round 8, DESIGN 12.6)
CLAIM['technique'] += '; bit-field widths of the digest size'
CLAIM['text'] += ' C15-f: the comparison length is never a digest size truncated by a bit-field.'

"""C01  Round trip (necessary conditions of "a successful close never loses bytes; the write path terminates").

C01-a  flush-on-close: in zck_close (write mode) header_create is reached only with the pending chunk
       finished (index_finish_chunk reached inside the chunk-end function) or known empty; a refused
       ("too small") chunk end must not be accepted.
C01-b  descriptor sentinel consistency: temp_fd is tested/reset with 0 as "absent", so every producer
       assignment must exclude 0 on its success paths.
C01-c  writer/reader layout agreement (shared with C13-c).
C01-d  conservation in zck_write: per loop iteration what is added to the source cursor is subtracted from
       the remaining size and is exactly what was handed to comp_write; the tail call hands over the rest;
       the function returns src_size only after it.
C01-e  hash-what-you-write pairing: every write_data(zck, temp_fd, buf, n) is paired on the same path with
       index_add_to_chunk(zck, buf, n, _); chunks_from_temp writes exactly what it read; the header is
       written before the body.
C01-f  no stuck state: chunk_auto_min <= chunk_auto_max at the exits of comp_init (shared with C16-e) and no
       stale cached fill level in zck_write (R6.stale-cache: a zero-length step loops forever).
Declined: byte equality, zstd behaviour, termination in general, the split-string scanner of the zck tool.
"""
from ..flow import M1, NEG, Z, P1, POS, NONNEG
from ..ir import strip, strip_transparent, show, callee_name, callee_field, const_value, walk, walk_stmts, calls_in
from ..program import rel, all_exprs, unique_defs
from ..rules.common import (FactRule, SymRule, GuardRule, run_rule, calls_of, pstr, last_field, Lin, lin, atom_cmp,
                            origin_names, assigned_fields)
from ..rules.stale import check_stale
from . import c16, c13


class FlushRule(FactRule):
    name = 'R6.flush'
    interprocedural = True

    def __init__(self, prog, fn, enders):
        FactRule.__init__(self, prog, fn)
        self.enders = enders
        self.fin = c16.finishers(prog)
        self.checked = 0

    def summarise(self, ctx, call, target, ts):
        if target.name in self.enders and len(ctx.engine.stack) <= 3:
            return None
        return set([(ts, ctx.engine.plain_masks(target))])

    def enter_callee(self, ctx, call, target, ts):
        # constant actuals are visible to the callee's branches
        out = frozenset(x for x in ts if not (isinstance(x, tuple) and x[0] == 'arg'))
        for p, a in zip(target.params, call.a[1:]):
            v = const_value(a)
            if v is not None:
                out = out | frozenset([('arg', p.op, v)])
        return out

    def leave_callee(self, ctx, call, target, ts_in, ts_out, mask):
        return frozenset(x for x in ts_out if not (isinstance(x, tuple) and x[0] == 'arg'))

    def on_edge(self, ctx, node, label, refined, ts):
        op, l, r = atom_cmp(node.e, label)
        sl = strip(l)
        # a constant argument decides the branch
        if sl.k == 'var':
            for x in ts:
                if isinstance(x, tuple) and x[0] == 'arg' and x[1] == sl.op:
                    cv = const_value(r)
                    if cv is not None:
                        holds = {'==': x[2] == cv, '!=': x[2] != cv, '<': x[2] < cv, '>': x[2] > cv,
                                 '<=': x[2] <= cv, '>=': x[2] >= cv}[op]
                        if not holds:
                            return None
        if ctx.fn.name in self.enders:
            if last_field(l) == 'dc_data_size' and last_field(r) == 'chunk_min_size' and op == '<':
                ts = ts | frozenset(['refused'])
            if last_field(l) == 'dc_data_size' and op == '==' and const_value(r) == 0:
                ts = ts | frozenset(['empty'])
        if ctx.fn is self.fn and last_field(l) == 'dc_data_size' and op == '==' and const_value(r) == 0:
            ts = ts | frozenset(['empty'])
        return ts

    def after_call(self, ctx, call, ts, mask):
        if callee_name(call) in self.fin and ctx.fn.name in self.enders:
            ts = (ts | frozenset(['finished'])) - frozenset(['refused'])
        return ts

    def on_call(self, ctx, call, ts):
        if ctx.fn is self.fn and callee_name(call) == 'header_create':
            self.checked += 1
            if 'refused' in ts and 'finished' not in ts and 'empty' not in ts:
                self.violate(ctx, 'unflushed', 'header_create() reachable after the chunk end was refused (chunk '
                             'smaller than the minimum size): the bytes still buffered are never written and '
                             'zck_close() returns true', inst='flush')
        return ts


class ConserveRule(SymRule):
    """Per path between two visits of a loop head (or function entry / exit): delta(loc) + delta(loc_size) = 0 and
    the sum handed to comp_write equals delta(loc)."""
    name = 'R4.conservation'

    def __init__(self, prog, fn, cur, rem, total_name, src_name):
        SymRule.__init__(self, prog, fn)
        self.cur, self.rem = cur, rem
        self.total, self.src = total_name, src_name
        self.var = {}
        for d, v in list(fn.locals.items()) + [(p.decl, p) for p in fn.params]:
            self.var[v.op] = v
        self.segments = 0
        self.tails = 0

    def written(self, ts):
        for x in ts:
            if isinstance(x, tuple) and len(x) == 2 and x[0] == 'written':
                return x[1]
        return Lin()

    def base(self, ts):
        for x in ts:
            if isinstance(x, tuple) and len(x) == 3 and x[0] == 'base':
                return x[1], x[2]
        return None

    def set_base(self, ts, c, r):
        ts = frozenset(x for x in ts if not (isinstance(x, tuple) and x and x[0] in ('base', 'written')))
        return ts | frozenset([('base', c, r), ('written', Lin())])

    def check_segment(self, ctx, ts, what):
        b = self.base(ts)
        if b is None:
            return
        c, r = self.value(self.var[self.cur], ts), self.value(self.var[self.rem], ts)
        if c is None or r is None:
            return
        self.segments += 1
        dc, dr = c - b[0], r - b[1]
        w = self.written(ts)
        if dc + dr != Lin():
            self.violate(ctx, 'unbalanced', '%s: the source cursor moved by %r but the remaining size by %r' % (
                what, dc, dr), inst='cursor+remaining')
        elif w != dc:
            self.violate(ctx, 'skipped-or-doubled', '%s: the cursor moved by %r but %r bytes were handed to '
                         'comp_write()' % (what, dc, w), inst='handed-over')

    def sym_node(self, ctx, node, ts):
        if ctx.fn is self.fn and node.loop is not None and self.cur in self.var and \
                self.var[self.cur].decl in self.per_loop.get(id(node.loop), ()):
            # arriving at a loop head that advances the cursor: close the previous segment (SymRule.on_node has
            # already replaced the loop variables by the head symbols, so close it in on_node below instead)
            pass
        return ts

    def on_node(self, ctx, node, ts):
        if ctx.fn is self.fn and node.loop is not None and self.cur in self.var and \
                self.var[self.cur].decl in self.per_loop.get(id(node.loop), ()):
            self.check_segment(ctx, ts, 'loop iteration ending at line %d' % node.line)
            ts = SymRule.on_node(self, ctx, node, ts)
            c, r = self.value(self.var[self.cur], ts), self.value(self.var[self.rem], ts)
            return self.set_base(ts, c, r)
        return SymRule.on_node(self, ctx, node, ts)

    def sym_assign(self, ctx, lhs, rhs, op, ts):
        l = strip(lhs)
        if l.k == 'var' and l.op in (self.cur, self.rem) and self.base(ts) is None:
            c = self.value(self.var[self.cur], ts) if self.cur in self.var else None
            r = self.value(self.var[self.rem], ts) if self.rem in self.var else None
            env, _ = self.env_of(ts)
            if self.var[self.cur].decl in env and self.var[self.rem].decl in env:
                ts = self.set_base(ts, c, r)
        return ts

    def sym_call(self, ctx, call, ts):
        if callee_name(call) == 'comp_write':
            n = self.value(call.a[3], ts)
            p = self.value(call.a[2], ts)
            c = self.value(self.var[self.cur], ts)
            if p is None or c is None or p != c:
                self.violate(ctx, 'wrong-source', 'comp_write() is handed %s, not the source cursor %s' % (
                    show(call.a[2]), self.cur), inst='source')
            if n is not None:
                w = self.written(ts) + n
                ts = frozenset(x for x in ts if not (isinstance(x, tuple) and x and x[0] == 'written')) | \
                    frozenset([('written', w)])
                # tail call: hands over everything that is left
                r = self.value(self.var[self.rem], ts)
                if r is not None and n == r:
                    ts = ts | frozenset(['tail'])
        return ts

    def on_return(self, ctx, node, mask, ts):
        if ctx.fn is not self.fn or node.e is None:
            return ts
        if pstr(node.e) == self.total:
            self.tails += 1
            # everything handed over: either the tail call consumed the rest, or nothing is left
            r = self.value(self.var[self.rem], ts)
            b = self.base(ts)
            w = self.written(ts)
            ok = 'tail' in ts
            if not ok and r is not None and b is not None:
                # loop consumed everything: remaining - written since base == 0 on this exit
                ok = (b[1] - w) == Lin() or r == Lin()
            if not ok and 'rem==0' in ts:
                ok = True
            if not ok:
                self.violate(ctx, 'tail-lost', 'return %s (all bytes accepted) although %r bytes of the buffer were '
                             'not handed to comp_write()' % (self.total, r), inst='tail', node=node)
        return ts

    def on_edge(self, ctx, node, label, refined, ts):
        if ctx.fn is self.fn:
            op, l, r = atom_cmp(node.e, label)
            if pstr(l) == self.rem and ((op == '==' and const_value(r) == 0) or (op == '<=' and const_value(r) == 0)):
                ts = ts | frozenset(['rem==0'])
            if pstr(l) == self.rem and op in ('>', '!=') and const_value(r) == 0:
                ts = ts - frozenset(['rem==0'])
            # loop exit i >= loc_size with i == 0 handled by the tail call
        return ts


def run(ctx):
    ck = ctx.check
    ck.explanation = (
        'Necessary conditions of the round trip that are visible in the code: a flush typestate over zck_close with '
        'the chunk-end function inlined (refused / empty / finished), a sentinel-consistency rule for the temp file '
        'descriptor, layout agreement of writer and reader, linear conservation of the source cursor in zck_write '
        '(per loop iteration and at the tail), pairing of what is written to the temp file with what is indexed and '
        'hashed, ordered automatic bounds and no stale cached fill level (the two stuck states of the write loop).  '
        'Byte equality, zstd and termination in general are declined.')
    ck.declined += ['equality of the bytes read back with the bytes written (needs execution / zstd)',
                    'termination of the write path in general', 'the split-string scanner of the zck tool']
    for config in ctx.configs():
        prog = ctx.prog(config)
        # ---- n  every byte produced reaches the output: the writer and the zck tool never step over bytes
        from ..rules import extra as _x1n
        _x1n.check_no_forward_seek(ck, prog, config, 'C01-n', ('zck_close', 'zck_write', 'zck_end_chunk'), 'write path',
                                   tool_unit='src/zck.c')
        # ---- a
        zc = prog.need_func('zck_close')
        enders = set(['zck_end_chunk', c16.chunk_end_function(prog).name])
        for c in [x for ex in all_exprs(zc) for x in calls_in(ex)]:
            t = prog.resolve_direct(zc, callee_name(c) or '')
            if t is not None and any(callee_name(y) == 'index_finish_chunk' for ex in all_exprs(t) for y in calls_in(ex)):
                enders.add(t.name)
        fr = FlushRule(prog, zc, enders)
        run_rule(prog, zc, fr)
        ck.require(fr.checked >= 1, 'zck_close no longer calls header_create')
        ck.ob('C01-a', 'R6.flush', zc.name, 'final-chunk', not fr.violations,
              'header_create() is reached only with the last chunk finished or empty (chunk-end functions inlined: %s)'
              % ', '.join(sorted(enders)) if not fr.violations else fr.violations[0].msg, zc.file,
              fr.violations[0].node.line if fr.violations else zc.line,
              path=fr.violations[0].path if fr.violations else None, config=config)
        # ---- b
        sentinel_sites = []
        producers = []
        for fn in prog.lib_funcs():
            g = prog.cfg(fn)
            for nd in g.nodes:
                if nd.k == 'branch' and nd.id in g.reachable:
                    a = strip_transparent(nd.e)
                    if a.k == 'mem' and a.op == 'temp_fd':
                        sentinel_sites.append((fn, nd.line, 'truthiness test'))
            for (l, r, op, n) in assigned_fields(fn):
                if strip(l).op == 'temp_fd' and op == '=':
                    if r is not None and const_value(r) == 0:
                        sentinel_sites.append((fn, n.line, 'reset to 0'))
                    elif r is not None and any(x.k == 'call' for x in walk(r)):
                        producers.append((fn, n))
        ck.min_instances('uses of temp_fd as a 0-sentinel', len(sentinel_sites), 3)
        ck.require(len(producers) >= 1, 'no producer assignment of temp_fd found')
        for fn, n in producers:
            class Prod(FactRule):
                name = 'R7.sentinel'

                def __init__(s, prog, f):
                    FactRule.__init__(s, prog, f)
                    s.succ = 0

                def on_assign(s, c2, lhs, rhs, op, value, ts):
                    if strip(lhs).k == 'mem' and strip(lhs).op == 'temp_fd' and op == '=':
                        ts = (ts - frozenset(['nonzero'])) | frozenset(['produced'])
                        if rhs is not None and const_value(rhs) == 0:
                            ts = ts - frozenset(['produced'])
                    return ts

                def on_edge(s, c2, node, label, refined, ts):
                    op, l, r = atom_cmp(node.e, label)
                    if last_field(l) == 'temp_fd':
                        cv = const_value(r)
                        if (op == '>' and cv is not None and cv >= 0) or (op == '>=' and cv is not None and cv >= 1) or \
                                (op == '!=' and cv == 0):
                            ts = ts | frozenset(['nonzero'])
                    return ts

                def on_return(s, c2, node, mask, ts):
                    if c2.fn is s.fn and mask & (P1 | POS) and 'produced' in ts:
                        s.succ += 1
                        if 'nonzero' not in ts:
                            s.violate(c2, 'sentinel', 'success exit with temp_fd produced by %s but 0 not excluded: '
                                      'descriptor 0 is a valid result (when fd 0 is free) and is treated as "no '
                                      'temporary file" by %d other sites' % (show(n.a[1])[:40], len(sentinel_sites)),
                                      inst='temp_fd', node=node)
                    return ts
            pr = Prod(prog, fn)
            run_rule(prog, fn, pr)
            ck.ob('C01-b', 'R7.sentinel', fn.name, 'temp_fd', not pr.violations,
                  'producer excludes the sentinel value 0 on its success paths (%d sentinel uses: %s)' % (
                      len(sentinel_sites), ', '.join(sorted(set(f.name for f, _, _ in sentinel_sites))))
                  if not pr.violations else pr.violations[0].msg, fn.file,
                  pr.violations[0].node.line if pr.violations else n.line,
                  path=pr.violations[0].path if pr.violations else None, config=config)
        # ---- c (shared with C13-c)
        pairs = (('lead', 'read_lead', 'lead_create'), ('preface', 'read_preface', 'preface_create'),
                 ('index', 'index_read', 'index_create'), ('sig', 'read_sig', 'sig_create'))
        for part, rname, wname in pairs:
            rf, wf = prog.need_func(rname), prog.need_func(wname)

            def flat(seq):
                return [(k, v if not isinstance(v, list) else flat(v)) for k, v in seq]
            rs = flat(c13.canon(c13.reader_sequence(rf), part=part))
            ws = flat(c13.canon(c13.writer_sequence(wf), part=part))
            ck.ob('C01-c', 'R8.layout', wname, 'writer-vs-reader:' + part, rs == ws,
                  'writer emits what the reader parses: %s' % ws if rs == ws else
                  'writer emits %s but the reader parses %s' % (ws, rs), wf.file, wf.line, config=config)
        from . import c06
        c06.fill_clauses(ck, prog, config, 'C01-c')
        # ---- d
        zw = prog.need_func('zck_write')
        # the source cursor and the remaining size are the locals handed to comp_write(zck, cursor, remaining)
        cur_name = rem_name = None
        for c in calls_of(zw, ('comp_write',)):
            a2, a3 = strip(c.a[2]), strip(c.a[3])
            if a2.k == 'var' and a2.dk == 'VarDecl' and a3.k == 'var' and a3.dk == 'VarDecl':
                # tail call: remaining is a local that is also decreased somewhere
                dec = any(n.k == 'bin' and n.op == '-=' and strip(n.a[0]).k == 'var' and strip(n.a[0]).decl == a3.decl
                          for ex in all_exprs(zw) for n in walk(ex))
                if dec:
                    cur_name, rem_name = a2.op, a3.op
        ck.require(cur_name is not None, 'zck_write: source cursor / remaining-size locals of comp_write() not found')
        total_name = [p_.op for p_ in zw.params if 'size' in p_.op]
        ck.require(len(zw.params) >= 3, 'zck_write signature changed')
        cr = ConserveRule(prog, zw, cur_name, rem_name, zw.params[2].op, zw.params[1].op)
        run_rule(prog, zw, cr)
        ck.require(cr.tails >= 2, 'zck_write: success returns not found')
        by = {}
        for v in cr.violations:
            by.setdefault(v.inst, v)
        for inst, text in (('cursor+remaining', 'what is added to the source cursor is subtracted from the remaining size'),
                           ('handed-over', 'what the cursor skips is exactly what was handed to comp_write()'),
                           ('source', 'comp_write() is handed the source cursor'),
                           ('tail', 'src_size is returned only after the rest was handed over')):
            v = by.get(inst)
            ck.ob('C01-d', 'R4.conservation', zw.name, inst, v is None,
                  text + ' (%d loop segment(s), %d success exit(s))' % (cr.segments, cr.tails) if v is None else v.msg,
                  zw.file, v.node.line if v else zw.line, path=v.path if v else None, config=config)
        # ---- e
        n_pairs = 0
        for fn in sorted(prog.lib_funcs(), key=lambda f: f.qname):
            fname = fn.name
            subst = unique_defs(fn)
            if not any('temp_fd' in pstr(c.a[2], subst) for c in calls_of(fn, ('write_data',)) if len(c.a) > 2):
                continue
            ws = [c for c in calls_of(fn, ('write_data',)) if 'temp_fd' in pstr(c.a[2], subst)]
            adds = calls_of(fn, ('index_add_to_chunk',))
            for w in ws:
                n_pairs += 1
                want = (pstr(w.a[3], subst), pstr(w.a[4], subst))
                later = [a for a in adds if a.line >= w.line]
                ok = bool(later) and (pstr(later[0].a[2], subst), pstr(later[0].a[3], subst)) == want
                ck.ob('C01-e', 'R4.pairing', fname, 'write@%d' % n_pairs, ok,
                      'write_data(temp_fd, %s, %s) is followed by index_add_to_chunk(%s)' % (
                          want[0], want[1], ', '.join(pstr(x, subst) for x in later[0].a[2:4]) if later else 'nothing'),
                      w.file, w.line, config=config)
        ck.min_instances('temp-file writes paired with the index', n_pairs, 4)
        ct = prog.need_func('chunks_from_temp')
        subst = unique_defs(ct)
        rd = calls_of(ct, ('read',))
        wr = calls_of(ct, ('write_data',))
        ck.require(len(rd) == 1 and len(wr) == 1, 'chunks_from_temp: expected one read and one write_data')
        cnt = None
        for ex in all_exprs(ct):
            for n in walk(ex):
                if n.k == 'bin' and n.op == '=' and any(x is rd[0] for x in walk(n.a[1])):
                    cnt = pstr(n.a[0], subst)
        okc = pstr(wr[0].a[3], subst) == pstr(rd[0].a[2], subst) and pstr(wr[0].a[4], subst) == cnt and \
            'temp_fd' in pstr(rd[0].a[1], subst) and pstr(wr[0].a[2], subst).endswith('zck->fd')
        ck.ob('C01-e', 'R4.pairing', ct.name, 'copy', okc,
              'copies (%s, %s) read from temp_fd to zck->fd unchanged' % (pstr(rd[0].a[2], subst), cnt) if okc else
              'chunks_from_temp writes (%s, %s) to %s after reading (%s, %s) from %s' % (
                  pstr(wr[0].a[3], subst), pstr(wr[0].a[4], subst), pstr(wr[0].a[2], subst), pstr(rd[0].a[2], subst),
                  cnt, pstr(rd[0].a[1], subst)), ct.file, wr[0].line, config=config)
        order = [callee_name(c) for ex in all_exprs(zc) for c in calls_in(ex)
                 if callee_name(c) in ('write_header', 'chunks_from_temp', 'header_create')]
        oko = order == ['header_create', 'write_header', 'chunks_from_temp']
        ck.ob('C01-e', 'R2.order', zc.name, 'header-then-body', oko,
              'zck_close: %s' % ' -> '.join(order), zc.file, zc.line, config=config)
        # ---- i  regardless of which descriptors are free: tools reserve 0..2 before opening anything
        from ..rules import extra as _extra
        nt = _extra.check_std_fds(ck, prog, config, 'C01-i')
        # ---- j  the reader notices the end of the data when it ends the last chunk
        _extra.check_end_of_data(ck, prog, config, 'C01-j')
        # ---- k  unzck never opens its own input for writing
        _extra.check_no_self_overwrite(ck, prog, config, 'C01-k')
        _extra.check_hash_owners(ck, prog, config, 'C01-m')
        # ---- l  the reader's scratch block holds what is read into it, for every request size
        from ..rules import extent as _ext
        _ext.check_buffer_extents(ck, prog, config, 'C01-l', only=('comp_read', 'chunks_from_temp'))
        ck.min_instances('tool main() functions that open files', nt, 5)
        # ---- h  the zck tool's split-string scanner: two structural necessary conditions (the scanner as a whole is declined)
        from ..rules import guardlen
        ng = guardlen.check_guarded_lengths(ck, prog, config, 'C01-h')
        nd = guardlen.check_deferred_flush(ck, prog, config, 'C01-h')
        nd += guardlen.check_carried_bound(ck, prog, config, 'C01-h')
        ck.min_instances('guarded writes / held-back counters in the zck tool', ng + nd, 3)
        # ---- g  the descriptor write wrapper hands every byte over exactly once, also across short writes
        from ..rules import contwrite
        contwrite.check_write_continuation(ck, prog, config, 'C01-g')
        # ---- f
        c16.auto_bounds(ck, prog, config, 'C01-f')
        check_stale(ck, prog, config, 'C01-f', 'zck_write', ('dc_data_size',))


CLAIM = {
    'technique': 'flush typestate with the chunk-end function inlined and constant arguments propagated, sentinel '
                 'consistency rule, layout table comparison, linear conservation per loop segment, write/index '
                 'pairing, relational order facts, stale-cache dataflow, write-retry continuation (result symbols, bounded unrolling), guarded-length lint by Fourier-Motzkin elimination, deferred-flush and carried-counter-bound lints over the zck tool\'s scanner, std-descriptor reservation dominance in every tool main(), end-of-data typestate after every chunk end on the read side, output-name typestate of unzck (the derived name differs from the input before open(O_TRUNC))',
    'text': 'static analysis: decides necessary conditions C01-a..f - a successful close cannot leave a refused final '
            'chunk unwritten; the temp descriptor cannot take its sentinel value; writer and reader agree on the header '
            'layout; zck_write hands every byte of the buffer to the compressor exactly once; what goes to the temp '
            'file is what is indexed and hashed, and the body follows the header; the two known stuck states of the '
            'write loop are excluded. Byte equality, zstd and termination in general are not decided. Also C01-g..i: a retried write continues where the previous one stopped; in the zck tool a positive-length write is never skipped by its guard and held-back bytes are flushed after the read loop; every tool fills descriptors 0..2 before opening anything.',
    'note': 'trusted: clang 14 front end; linear forms over access paths; comp_write consumes exactly the size it is '
            'given (its own return check is C12)',
}

MUTANTS = [
    {'id': 'm01k', 'desc': 'end-of-block flush without the positivity test (pre-fix form)', 'file': 'src/zck.c',
     'old': """        if(tail > 0)
            write_data(zck, data + start, tail);""", 'new': """        write_data(zck, data + start, tail);""",
     'expect': 'R4.carried-bound main'},
    {'id': 'm01j', 'desc': 'last chunk ended without noticing the end of the data', 'file': 'src/lib/comp/comp.c',
     'old': """            if(zck->comp.data_idx == NULL)
                zck->comp.data_eof = true;
            continue;""", 'new': """            continue;""", 'expect': 'R6.end-of-data comp_read'},
    {'id': 'm01f', 'desc': 'zck no longer reserves the standard descriptors (pre-fix form)', 'file': 'src/zck.c',
     'old': '    reserve_std_fds();\n', 'new': '', 'expect': 'R7.std-fds zck.c'},
    {'id': 'm01s', 'desc': 'split scanner: queued byte dropped when exactly one byte precedes a match (pre-fix form)',
     'file': 'src/zck.c', 'old': '                        if(l >= matched)', 'new': '                        if(l > matched)',
     'expect': 'R4.guarded-length main'},
    {'id': 'm01t', 'desc': 'split scanner: partial match at the end of the input never written (pre-fix form)',
     'file': 'src/zck.c', 'old': """    if(in_size == 0 && matched > 0)
        write_data(zck, arguments.split_string, matched);
""", 'new': '', 'expect': 'R4.deferred-flush main'},
    {'id': 'm56', 'desc': 'final flush no longer forced', 'file': 'src/lib/zck.c',
     'old': 'if(comp_end_chunk(zck, true) < 0)', 'new': 'if(comp_end_chunk(zck, false) < 0)',
     'expect': 'R6.flush zck_close'},
    {'id': 'm57', 'desc': 'temp descriptor may be 0 again', 'file': 'src/lib/zck.c',
     'old': '    if(zck->temp_fd <= 0)\n        return false;', 'new': '    if(zck->temp_fd < 0)\n        return false;',
     'expect': 'R7.sentinel zck_init_write'},
    {'id': 'm01d', 'desc': 'manual split: remaining size not reduced', 'file': 'src/lib/comp/comp.c',
     'old': """            loc_size -= loc_written;
            loc += loc_written;""", 'new': """            loc += loc_written;""", 'expect': 'R4.conservation zck_write'},
    {'id': 'm01e', 'desc': 'automatic split: cursor advanced by one byte less', 'file': 'src/lib/comp/comp.c',
     'old': """                loc += i;
                loc_size -= i;
                i = 0;""", 'new': """                loc += i > 0 ? i - 1 : 0;
                loc_size -= i > 0 ? i - 1 : 0;
                i = 0;""", 'expect': 'R4.conservation zck_write'},
    {'id': 'm01t', 'desc': 'tail write dropped for short remainders', 'file': 'src/lib/comp/comp.c',
     'old': """        if(loc_size > 0 && comp_write(zck, loc, loc_size) != loc_size)
            return -1;
        return src_size;""", 'new': """        if(loc_size > 16 && comp_write(zck, loc, loc_size) != loc_size)
            return -1;
        return src_size;""", 'expect': 'R4.conservation zck_write [tail]'},
    {'id': 'm01p', 'desc': 'indexed size differs from the bytes written', 'file': 'src/lib/comp/comp.c',
     'old': """    if(!index_add_to_chunk(zck, dst, dst_size, src_size)) {
        free(dst);
        return -1;
    }
    if(zck->has_uncompressed_source""", 'new': """    if(!index_add_to_chunk(zck, dst, dst_size > 0 ? dst_size - 0 : 0, src_size)) {
        free(dst);
        return -1;
    }
    if(zck->has_uncompressed_source""", 'expect': 'R4.pairing comp_write'},
    {'id': 'm01o', 'desc': 'body written before the header', 'file': 'src/lib/zck.c',
     'old': """        if(!write_header(zck))
            return false;
        zck_log(ZCK_LOG_DEBUG, "Writing chunks");
        if(!chunks_from_temp(zck))
            return false;""", 'new': """        zck_log(ZCK_LOG_DEBUG, "Writing chunks");
        if(!chunks_from_temp(zck))
            return false;
        if(!write_header(zck))
            return false;""", 'expect': 'R2.order zck_close'},
]


# SESSION7b additions to the claim (round 8, DESIGN 12.6)
CLAIM['technique'] += '; no-forward-seek deny rule on the write path and the zck tool'
CLAIM['text'] += ' C01-n: the output offset advances only by writing (no relative seek over produced bytes).'

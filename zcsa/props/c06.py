"""C06  The header checksum covers every header byte.

C06-a  reader tiling: the hash_update extents on the object validate_header finalises,
       between its hash_init and the gate, tile [0,D) u [L,L+N) of the header buffer exactly
       (first five bytes = constant full-file magic), where L = D + digest_size is derived from
       read_lead's cursor arithmetic.
C06-b  writer tiling: header_create hashes the same extents of the merged buffer; the digest is
       stored into the window [D, D+digest_size).
C06-c  gate: C02-a (success exit only on the >=1 edge of validate_header) and the comparison in
       validate_header is a byte-wise memcmp over digest_size bytes of the finalised hash
       against header_digest.
C06-d  the stored digest is copied from offset D with digest_size bytes; the header buffer read
       from the file ends at L+N.
"""
from ..flow import M1, NEG, Z, P1, POS, POSITIVE
from ..ir import strip, show, callee_name, const_value, walk, calls_in
from ..program import rel, all_exprs, unique_defs
from ..rules.common import (SymRule, run_rule, call_name, calls_of, pstr, last_field, Lin, lin, check_gate, atom_cmp)

H = 'zck->header'
D = 'zck->hdr_digest_loc'
L = 'zck->lead_size'
N = 'zck->header_length'
DS = 'zck->hash_type.digest_size'


class ExtentRule(SymRule):
    """Records, per path state, the (object, pointer, length) of every call of
    `callees` with pointer/length evaluated in the current symbolic state."""
    name = 'R4.tiling'

    def __init__(self, prog, fn, track_fields, callees):
        SymRule.__init__(self, prog, fn)
        self.track_fields = track_fields
        self.callees = callees
        self.exit_traces = []   # list of (return mask, tuple of records)

    def sym_call(self, ctx, call, ts):
        n = callee_name(call)
        if n in self.callees:
            spec = self.callees[n]
            args = call.a[1:]
            rec = [n, call.uid, call.line]
            for idx in spec:
                a = args[idx] if idx < len(args) else None
                sa = strip(a) if a is not None else None
                if sa is not None and sa.k == 'str':
                    rec.append(('lit', sa.val))
                else:
                    v = self.value(a, ts)
                    rec.append(v if v is not None else ('opaque', show(a)))
                if idx == spec[0] and n.startswith('hash_'):
                    rec[-1] = pstr(a, self.subst)
            trace = tuple(x for x in ts if isinstance(x, tuple) and x and x[0] == 'trace')
            old = trace[0][1] if trace else ()
            ts = frozenset(x for x in ts if not (isinstance(x, tuple) and x and x[0] == 'trace'))
            ts = ts | frozenset([('trace', old + (tuple(rec),))])
        return ts

    def on_return(self, ctx, node, mask, ts):
        if ctx.fn is self.fn:
            trace = [x for x in ts if isinstance(x, tuple) and x and x[0] == 'trace']
            self.exit_traces.append((mask, trace[0][1] if trace else ()))
        return ts


def strlit_len(val):
    """Length in bytes of a C string literal as rendered by clang ("\\0ZCK1")."""
    s = val
    if s.startswith('"') and s.endswith('"'):
        s = s[1:-1]
    n = 0
    i = 0
    while i < len(s):
        if s[i] == '\\':
            i += 1
            if i < len(s) and s[i] in '01234567':
                j = i
                while j < len(s) and j < i + 3 and s[j] in '01234567':
                    j += 1
                i = j
            elif i < len(s) and s[i] == 'x':
                j = i + 1
                while j < len(s) and s[j] in '0123456789abcdefABCDEF':
                    j += 1
                i = j
            else:
                i += 1
        else:
            i += 1
        n += 1
    return n


def tile(extents, window, total):
    """extents: list of (ptr Lin or ('lit', s), len Lin) in hashing order.
    Returns (ok, message, rendered extents)."""
    pos = Lin()
    rendered = []
    used_window = False
    for ptr, ln in extents:
        if isinstance(ln, tuple) or ln is None:
            return False, 'extent length is not a linear expression: %s' % (ln,), rendered
        if isinstance(ptr, tuple) and ptr[0] == 'lit':
            if pos != Lin():
                return False, 'constant bytes hashed at a position other than the start of the header', rendered
            if not (ln.is_const() and ln.c == strlit_len(ptr[1])):
                return False, 'constant extent length %r differs from the literal %s' % (ln, ptr[1]), rendered
            rendered.append('[0,%d) constant %s' % (ln.c, ptr[1]))
            pos = ln
            continue
        if isinstance(ptr, tuple) or ptr is None:
            return False, 'extent pointer is not linear over the header buffer: %s' % (ptr,), rendered
        if ptr.t.get(H) != 1:
            return False, 'hashed pointer %r is not based on the header buffer %s' % (ptr, H), rendered
        off = ptr - Lin({H: 1})
        end = off + ln
        if off == pos:
            pass
        elif (not used_window) and pos == window[0] and off == window[1]:
            used_window = True
            rendered.append('[%r, %r) stored digest (not hashed)' % (window[0], window[1]))
        else:
            gap = off - pos
            kind = 'gap' if (gap.is_const() and gap.c > 0) or not gap.is_const() else 'overlap'
            return False, '%s: bytes [%r, %r) of the header are %s' % (
                kind, pos if kind == 'gap' else off, off if kind == 'gap' else pos,
                'not hashed' if kind == 'gap' else 'hashed twice'), rendered
        rendered.append('[%r, %r)' % (off, end))
        pos = end
    if pos != total:
        return False, 'hashed extents end at %r, the header ends at %r: bytes [%r, %r) are not hashed' % (
            pos, total, pos, total), rendered
    if not used_window:
        return False, 'the stored-digest window was hashed (digest would depend on itself)', rendered
    return True, 'tiles [0,D) u [L,L+N) exactly', rendered


class FillRule(SymRule):
    """Which byte extents of the header buffer hold file content when they are hashed.  The buffer content on
    entry is [0, header_size) (what read_lead read: checked separately); zrealloc preserves it, a fresh
    allocation starts empty; memcpy / read_data into the buffer add extents.  Every hash_update over the buffer
    must lie inside one filled extent."""
    name = 'R4.fill'

    def __init__(self, prog, fn):
        SymRule.__init__(self, prog, fn)
        self.track_fields = ('header',)
        self.checked = 0
        self.unsigned = set()
        for ex in all_exprs(fn):
            for n in walk(ex):
                from ..ir import is_unsigned_type
                if n.k in ('var', 'mem') and is_unsigned_type(n.t, n.dt):
                    self.unsigned.add(pstr(n))
        HS = Lin({'zck->header_size': 1})
        # entry invariant established by read_lead (checked below): lead_size <= header_size
        self.start = frozenset([('fill', Lin(), HS), ('bufsym', H), ('le', Lin({L: 1, 'zck->header_size': -1}))])

    def fills(self, ts):
        return [(x[1], x[2]) for x in ts if isinstance(x, tuple) and len(x) == 3 and x[0] == 'fill']

    def facts(self, ts):
        return [x[1] for x in ts if isinstance(x, tuple) and len(x) == 2 and x[0] == 'le']

    def nonpos(self, l, ts):
        # relation from the lead cursor arithmetic: D = L - digest_size (C06-a)
        l = l.subst(D, Lin({L: 1, DS: -1}))
        def np(x):
            return x.c <= 0 and all(v <= 0 and (k in self.unsigned or k in (DS, N, L, 'zck->header_size'))
                                    for k, v in x.t.items())
        if np(l):
            return True
        fs = [f.subst(D, Lin({L: 1, DS: -1})) for f in self.facts(ts)]
        for f2 in fs:
            for k in (1, 2):
                if np(l - f2.scale(k)):
                    return True
        for i in range(len(fs)):
            for j in range(i + 1, len(fs)):
                if np(l - fs[i] - fs[j]):
                    return True
                c = fs[i] + fs[j]
                if c.is_const() and c.c > 0:
                    return True     # contradictory facts: the path is infeasible
        return False

    def add_fill(self, ts, a, b):
        fl = self.fills(ts)
        # merge with an adjacent extent
        for (s0, e0) in fl:
            if e0 == a:
                ts = frozenset(x for x in ts if x != ('fill', s0, e0)) | frozenset([('fill', s0, b)])
                return ts
            if self.nonpos(s0 - a, ts) and self.nonpos(a - e0, ts):
                # starts inside an existing extent: extend it if it ends later
                ts = frozenset(x for x in ts if x != ('fill', s0, e0)) | frozenset([('fill', s0, b)])
                return ts
        return ts | frozenset([('fill', a, b)])

    def on_edge(self, ctx, node, label, refined, ts):
        if ctx.fn is not self.fn:
            return ts
        op, l, r = atom_cmp(node.e, label)
        lv, rv = self.value(l, ts), self.value(r, ts)
        if lv is None or rv is None:
            return ts
        new = {'<=': lv - rv, '<': lv - rv + Lin(None, 1), '>=': rv - lv, '>': rv - lv + Lin(None, 1)}.get(op)
        if op == '!=' and rv.is_const() and rv.c == 0 and all(k in self.unsigned for k in lv.t) and lv.c == 0 and \
                all(v > 0 for v in lv.t.values()):
            new = Lin(None, 1) - lv      # an unsigned quantity that is not 0 is at least 1
        if new is not None and not new.is_const():
            ts = ts | frozenset([('le', new)])
        return ts

    def buf_offset(self, e, ts):
        """offset of pointer expression e into the header buffer, or None"""
        v = self.value(e, ts)
        if v is None:
            return None
        env, fields = self.env_of(ts)
        base = fields.get(H, Lin({H: 1}))
        d = v - base
        if any(k in d.t for k in base.t):
            return None
        if not (set(base.t) & set(v.t)):
            return None
        return d

    def sym_assign(self, ctx, lhs, rhs, op, ts):
        if op == '=' and rhs is not None and pstr(lhs, self.subst) == H:
            r = strip(rhs)
            if r.k == 'call' and callee_name(r) in ('zrealloc', 'realloc') and pstr(r.a[1], self.subst) == H:
                # content preserved; the buffer keeps its identity
                ts = self.set_key(ts, ('f', H), None)
            elif r.k == 'call' and callee_name(r) in ('zmalloc', 'malloc', 'calloc'):
                ts = frozenset(x for x in ts if not (isinstance(x, tuple) and len(x) == 3 and x[0] == 'fill'))
                ts = self.set_key(ts, ('f', H), None)
            elif r.k == 'var':
                # the buffer is replaced by a local block: it holds what was copied into that block
                loc = r.op
                ts = frozenset(x for x in ts if not (isinstance(x, tuple) and len(x) == 3 and x[0] == 'fill'))
                for x in list(ts):
                    if isinstance(x, tuple) and len(x) == 4 and x[0] == 'lfill' and x[1] == loc:
                        ts = ts | frozenset([('fill', x[2], x[3])])
                ts = self.set_key(ts, ('f', H), None)
        return ts

    def sym_call(self, ctx, call, ts):
        n = callee_name(call)
        if n in ('memcpy', 'read_data'):
            dst = call.a[1] if n == 'memcpy' else call.a[2]
            ln = self.value(call.a[3], ts)
            off = self.buf_offset(dst, ts)
            if off is not None and ln is not None:
                ts = self.add_fill(ts, off, off + ln)
            else:
                sd = strip(dst)
                if n == 'memcpy' and sd.k == 'var' and ln is not None:
                    # copy into a local block that may become the buffer
                    ts = ts | frozenset([('lfill', sd.op, Lin(), ln)])
        if n == 'hash_update':
            off = self.buf_offset(call.a[3], ts)
            ln = self.value(call.a[4], ts)
            if off is not None and ln is not None:
                self.checked += 1
                ok = False
                for (s0, e0) in self.fills(ts):
                    if self.nonpos(s0 - off, ts) and self.nonpos(off + ln - e0, ts):
                        ok = True
                if not ok:
                    self.violate(ctx, 'unfilled', 'hash_update over header bytes [%r, %r) but the buffer holds file '
                                 'content only in %s on this path: bytes that were never read from the file are '
                                 'hashed' % (off, off + ln, ', '.join('[%r, %r)' % f for f in self.fills(ts)) or 'nothing'),
                                 inst='hashed-bytes-were-read')
        return ts


def cursor_relation(ck, prog, fn_name, config, clause):
    """In fn (read_lead / lead_create): value of `lead_size` minus value of
    `hdr_digest_loc` on every path that assigns both = digest_size."""
    fn = prog.need_func(fn_name)

    class R(SymRule):
        track_fields = ()

        def __init__(s, prog, fn):
            SymRule.__init__(s, prog, fn)
            s.rel = []

        def sym_assign(s, ctx, lhs, rhs, op, ts):
            f = last_field(lhs)
            if f in ('hdr_digest_loc', 'lead_size') and op == '=':
                v = s.value(rhs, ts)
                if f == 'hdr_digest_loc':
                    ts = s.set_key(ts, ('f', '@D'), v if v is not None else Lin({'?D': 1}))
                else:
                    env, fields = s.env_of(ts)
                    d = fields.get('@D')
                    s.rel.append((v, d, ctx.node))
            return ts
    r = R(prog, fn)
    # locals havocked through &length get a fresh symbol so differences stay exact

    def sym_call(ctx, call, ts, r=r):
        return ts
    run_rule(prog, fn, r)
    good = 0
    for v, d, node in r.rel:
        if d is None:
            continue   # lead_size reset paths (error exits) assign constants
        if v is None:
            ck.ob(clause, 'R4.relation', fn_name, 'L=D+digest_size', False,
                  'lead_size is assigned a value the analysis cannot express linearly', node.file, node.line,
                  config=config)
            continue
        diff = v - d
        ok = diff == Lin({DS: 1})
        if v.is_const() and v.c == 0:
            continue
        good += 1
        ck.ob(clause, 'R4.relation', fn_name, 'L=D+digest_size', ok,
              'lead_size - hdr_digest_loc = %r on this path (must be exactly %s)' % (diff, DS), node.file, node.line,
              config=config)
    ck.require(good >= 1, '%s: no path assigns lead_size after hdr_digest_loc' % fn_name)


def fill_clauses(ck, prog, config, clause='C06-e'):
    """The header bytes that are hashed were read from the file (shared with C01, C02)."""
    fn = prog.need_func('read_header_from_file')
    # ---- e: the hashed bytes were read from the file
    fr = FillRule(prog, fn)
    run_rule(prog, fn, fr)
    ck.require(fr.checked >= 2, 'read_header_from_file: hash_update calls over the header buffer not found')
    ck.ob(clause, 'R4.fill', fn.name, 'hashed-bytes-were-read', not fr.violations,
          '%d hash_update state(s) over the header buffer, each inside an extent filled from the file (entry '
          'content [0, header_size), zrealloc preserves it)' % fr.checked if not fr.violations else
          fr.violations[0].msg, fn.file, fr.violations[0].node.line if fr.violations else fn.line,
          path=fr.violations[0].path if fr.violations else None, config=config)
    # read_lead leaves exactly header_size bytes of file content in the buffer
    rl0 = prog.need_func('read_lead')

    class LeadFill(SymRule):
        def __init__(s_, prog, f):
            SymRule.__init__(s_, prog, f)
            s_.out = []
            s_.inv = []

        def sym_call(s_, c2, call, ts):
            if callee_name(call) == 'read_data':
                ln = s_.value(call.a[3], ts)
                cur = [x for x in ts if isinstance(x, tuple) and len(x) == 2 and x[0] == 'readsum']
                tot = (cur[0][1] if cur else Lin()) + (ln if ln is not None else Lin({'?': 1}))
                ts = frozenset(x for x in ts if not (isinstance(x, tuple) and len(x) == 2 and x[0] == 'readsum'))
                ts = ts | frozenset([('readsum', tot)])
            return ts

        def on_edge(s_, c2, node, label, refined, ts):
            if c2.fn is not s_.fn:
                return ts
            op, l, r = atom_cmp(node.e, label)
            lv, rv = s_.value(l, ts), s_.value(r, ts)
            if lv is None or rv is None:
                return ts
            new = {'<=': lv - rv, '<': lv - rv + Lin(None, 1), '>=': rv - lv, '>': rv - lv + Lin(None, 1)}.get(op)
            if new is not None and not new.is_const():
                ts = ts | frozenset([('le', new)])
            return ts

        def sym_assign(s_, c2, lhs, rhs, op, ts):
            if last_field(lhs) == 'header_size' and op == '=':
                cur = [x for x in ts if isinstance(x, tuple) and len(x) == 2 and x[0] == 'readsum']
                s_.out.append((s_.value(rhs, ts), cur[0][1] if cur else Lin(), c2.node))
                ts = s_.set_key(ts, ('f', '@HS'), s_.value(rhs, ts))
            if last_field(lhs) == 'lead_size' and op == '=':
                ts = s_.set_key(ts, ('f', '@L'), s_.value(rhs, ts))
            return ts

        def on_return(s_, c2, node, mask, ts):
            if c2.fn is s_.fn and mask & (P1 | POS):
                env, fields = s_.env_of(ts)
                hs, l_ = fields.get('@HS'), fields.get('@L')
                if hs is not None and l_ is not None:
                    need = l_ - hs
                    ok = need.is_const() and need.c <= 0
                    for f in [x[1] for x in ts if isinstance(x, tuple) and len(x) == 2 and x[0] == 'le']:
                        d = need - f
                        if d.is_const() and d.c <= 0:
                            ok = True
                    s_.inv.append((ok, need, node))
            return ts
    lf = LeadFill(prog, rl0)
    run_rule(prog, rl0, lf)
    ck.require(len(lf.out) >= 1, 'read_lead: header_size is not set')
    bad = [(v, t, nd) for v, t, nd in lf.out if v != t]
    ck.ob(clause, 'R4.fill', rl0.name, 'header_size=bytes-read', not bad,
          'read_lead sets header_size to the number of bytes it read into the buffer (%d path states)' % len(lf.out)
          if not bad else 'read_lead sets header_size = %r after reading %r bytes' % (bad[0][0], bad[0][1]),
          rl0.file, bad[0][2].line if bad else rl0.line, config=config)
    badinv = [x for x in lf.inv if not x[0]]
    ck.ob(clause, 'R4.fill', rl0.name, 'lead_size<=header_size', bool(lf.inv) and not badinv,
          'every success exit of read_lead has lead_size <= header_size (%d exit states)' % len(lf.inv)
          if lf.inv and not badinv else 'read_lead can return with lead_size - header_size = %r > 0' % (
              badinv[0][1] if badinv else '?'), rl0.file, badinv[0][2].line if badinv else rl0.line, config=config)


def run(ctx):
    ck = ctx.check
    ck.explanation = (
        'Symbolic (linear) extent tiling: the arguments of every hash_update on the header hash object are '
        'evaluated flow-sensitively to linear forms over the header base pointer H, hdr_digest_loc D, lead_size L and '
        'header_length N; with L = D + digest_size derived from the lead cursor arithmetic, the extents must tile '
        '[0,D) u [L,L+N) with the first bytes being the constant magic, on the same object the gate finalises, '
        'reader and writer alike; the comparison is a memcmp over digest_size bytes.  Decides C06 up to hash strength.')
    for config in ctx.configs():
        prog = ctx.prog(config)
        window = (Lin({D: 1}), Lin({L: 1}))
        total = Lin({L: 1, N: 1})
        # ---- relation L = D + digest_size (reader and writer)
        cursor_relation(ck, prog, 'read_lead', config, 'C06-a')
        cursor_relation(ck, prog, 'lead_create', config, 'C06-b')
        # ---- reader tiling
        fn = prog.need_func('read_header_from_file')
        r = ExtentRule(prog, fn, (), {'hash_update': (1, 2, 3), 'hash_init': (1,), 'validate_header': ()})
        run_rule(prog, fn, r)
        succ = [(m, t) for m, t in r.exit_traces if m & (P1 | POS)]
        ck.require(len(succ) >= 1, 'read_header_from_file has no success exit')
        seen = set()
        for m, trace in succ:
            if trace in seen:
                continue
            seen.add(trace)
            # events after the last hash_init on the gate object up to validate_header
            obj = None
            ext = []
            gate_seen = False
            for rec in trace:
                if rec[0] == 'hash_init':
                    obj = rec[3]
                    ext = []
                elif rec[0] == 'hash_update' and not gate_seen:
                    if rec[3] == obj:
                        ext.append((rec[4], rec[5]))
                    else:
                        ck.ob('C06-a', 'R4.tiling', fn.name, 'object', False,
                              'hash_update into %s while the gate finalises %s' % (rec[3], obj), fn.file, rec[2],
                              config=config)
                elif rec[0] == 'validate_header':
                    gate_seen = True
            if not gate_seen:
                # a success exit that never reaches the comparison: the header opens whatever its bytes are
                ck.ob('C06-c', 'R2.gate', fn.name, 'validate_header', False,
                      'a success exit of read_header_from_file does not pass through validate_header: the header is '
                      'accepted on this path without its checksum having been compared', fn.file,
                      trace[-1][2] if trace else fn.line, config=config)
                continue
            ok, msg, rendered = tile(ext, window, total)
            ck.ob('C06-a', 'R4.tiling', fn.name, 'reader-extents', ok,
                  ('reader hashes %s: %s' % ('; '.join(rendered), msg)) if ok else msg, fn.file,
                  trace[-1][2] if trace else fn.line, config=config,
                  sample={'function': fn.name, 'extents': rendered, 'object': obj, 'verdict': msg})
            ck.ob('C06-a', 'R4.tiling', fn.name, 'object=check_full_hash', obj is not None and 'check_full_hash' in obj,
                  'extents are hashed into %s, the object validate_header finalises' % obj, fn.file, fn.line,
                  config=config)
        # ---- e  the identifier is the one part of the header the checksum does not see (a constant is hashed in its
        #         place): it must be compared in full against the two legal identifiers
        from . import c13
        rl = prog.need_func('read_lead')
        seq = c13.canon(c13.reader_sequence(rl), part='lead')
        first = seq[0] if seq else None
        cmps = []
        for c in calls_of(rl, ('memcmp', 'strncmp', 'strcmp')):
            lits = [strip(a) for a in c.a[1:] if strip(a) is not None and strip(a).k == 'str']
            if lits and len(c.a) > 3:
                cmps.append((c, const_value(c.a[3])))
        okid = first is not None and tuple(first)[:2] == ('bytes5', 'magic') and len(cmps) >= 2 and \
            all(n_ == 5 for c, n_ in cmps)
        ck.ob('C06-e', 'R8.layout', rl.name, 'identifier', okid,
              'the lead starts with a 5-byte comparison against each of the %d identifier literals (the checksum covers a '
              'constant in place of these bytes)' % len(cmps) if okid else
              'the identifier is not compared over its full 5 bytes against the identifier literals (parsed as %s; '
              'comparison lengths %s): read_header_from_file hashes a constant in place of these bytes, so a changed '
              'identifier byte is covered by nothing' % (first, [n_ for c, n_ in cmps]), rl.file,
              cmps[0][0].line if cmps else rl.line, config=config)
        # ---- f  the digest the comparison is made against is the one stored in *this* lead: every success exit of
        #         read_lead() has copied digest_size bytes from the lead buffer into header_digest
        from ..rules.common import FactRule as _FR

        class Loaded(_FR):
            name = 'R2.stored-digest-loaded'

            def __init__(s_, prog_, fn_):
                _FR.__init__(s_, prog_, fn_)
                s_.exits = 0
                s_.copies = 0

            def on_call(s_, c2, call, ts):
                if c2.fn is s_.fn and callee_name(call) in ('memcpy', 'memmove', '__builtin___memcpy_chk') and len(call.a) > 3:
                    if pstr(call.a[1], s_.subst).endswith('header_digest') and 'header_digest' not in pstr(call.a[2], s_.subst):
                        s_.copies += 1
                        ts = ts | frozenset(['loaded'])
                return ts

            def on_assign(s_, c2, lhs, rhs, op, value, ts):
                # a new buffer for the digest forgets what the old one held
                if c2.fn is s_.fn and last_field(lhs) == 'header_digest' and op == '=':
                    ts = ts - frozenset(['loaded'])
                return ts

            def on_return(s_, c2, node, mask, ts):
                if c2.fn is s_.fn and (mask & (P1 | POS)):
                    s_.exits += 1
                    if 'loaded' not in ts:
                        s_.violate(c2, 'stale', 'read_lead() can succeed without having copied the stored header checksum '
                                   'of the lead it just read into header_digest: validate_header() then compares against '
                                   'whatever an earlier lead left there, and the stored checksum of this file is never '
                                   'looked at', inst='loaded', node=node)
                return ts
        ld = Loaded(prog, rl)
        run_rule(prog, rl, ld)
        ck.require(ld.exits >= 1 and ld.copies >= 1, 'read_lead: success exit (%d) or copy into header_digest (%d) not found'
                   % (ld.exits, ld.copies))
        ck.ob('C06-f', 'R2.stored-digest-loaded', rl.name, 'header_digest', not ld.violations,
              'every success exit of read_lead() has copied the stored checksum from the lead buffer into header_digest '
              '(%d exit state(s))' % ld.exits if not ld.violations else ld.violations[0].msg, rl.file,
              ld.violations[0].node.line if ld.violations else rl.line,
              path=ld.violations[0].path if ld.violations else None, config=config)
        # ---- gate object and comparison in validate_header
        vh = prog.need_func('validate_header')
        subst = unique_defs(vh)
        fin = calls_of(vh, ('hash_finalize',))
        ck.require(len(fin) == 1, 'validate_header: expected one hash_finalize call')
        fobj = pstr(fin[0].a[2], subst)
        ck.ob('C06-c', 'R4.compare', vh.name, 'finalised-object', 'check_full_hash' in fobj,
              'validate_header finalises %s' % fobj, vh.file, fin[0].line, config=config)
        digest_var = None
        from ..ir import walk_stmts
        for s in walk_stmts(vh.body):
            if s.k == 'decl' and s.e is not None and any(x is fin[0] for x in walk(s.e)):
                digest_var = s.var.op
        cmps = [c for c in calls_of(vh, ('memcmp', 'strncmp', 'strcmp', 'bcmp', 'strncasecmp', 'timingsafe_bcmp',
                                          'CRYPTO_memcmp'))]
        # a repository helper that takes both digests: accepted when it has the OR-fold shape (constant-time compare);
        # any other accumulator (^=, +=) lets different digests compare equal and is reported, not analysis-broken
        from ..rules.dlrules import orfold_compare
        helper_mask = {}
        bad_helper = False
        if not cmps:
            for ex in all_exprs(vh):
                for c in calls_in(ex):
                    nm = callee_name(c)
                    cands = [g_ for g_ in prog.lib_funcs() if g_.name == nm] if nm else []
                    args = [pstr(a, subst) for a in c.a[1:]]
                    if len(cands) == 1 and digest_var in args and 'zck->header_digest' in args:
                        kind = orfold_compare(prog, cands[0])
                        if kind is None:
                            bad_helper = True
                            ck.ob('C06-c', 'R4.compare', vh.name, 'digest-compare', False,
                                  '%s(%s) is not a byte-wise comparison (memcmp, or a helper that ORs the byte differences '
                                  'together): digests that differ can be reported equal, so some changed header bytes '
                                  'are accepted' % (nm, ', '.join(args)), c.file, c.line, config=config)
                        else:
                            helper_mask[nm] = Z if kind == 'zero-equal' else (P1 | POS)
                            cmps.append(c)
        if not cmps and not bad_helper:
            # (a new static helper that is not a comparison primitive has been expanded in place by the normaliser)
            ck.ob('C06-c', 'R4.compare', vh.name, 'digest-compare', False,
                  'validate_header() contains no byte-wise comparison of the finalised hash with header_digest (memcmp or a '
                  'helper that ORs the byte differences together): whatever it uses instead can report equality for '
                  'digests that differ, so some changed header bytes are accepted', vh.file, fin[0].line, config=config)
        for c in cmps:
            args = [pstr(a, subst) for a in c.a[1:]]
            nm = callee_name(c)
            ok = (nm in ('memcmp', 'bcmp', 'CRYPTO_memcmp', 'timingsafe_bcmp') or nm in helper_mask) and len(args) == 3 and \
                set(args[:2]) == set([digest_var, 'zck->header_digest']) and args[2] == DS
            ck.ob('C06-c', 'R4.compare', vh.name, 'digest-compare', ok,
                  '%s(%s): %s' % (nm, ', '.join(args), 'byte-wise comparison of the finalised hash with the stored '
                                  'digest over digest_size bytes' if ok else
                                  'must be a byte-wise comparison (memcmp) of the finalised hash and header_digest '
                                  'over exactly hash_type.digest_size bytes'), c.file, c.line, config=config)
        g = check_gate(prog, vh, {}, success=P1 | POS)
        # the only success exit of validate_header is on the ==0 edge of that comparison
        from ..rules.common import GateRule
        if cmps:
            gr = GateRule(prog, vh, {callee_name(cmps[0]): helper_mask.get(callee_name(cmps[0]), Z)}, P1 | POS)
            run_rule(prog, vh, gr)
            ck.ob('C06-c', 'R2.gate', vh.name, 'compare==0', not gr.violations and gr.success_exits >= 1,
                  'validate_header returns 1 only on the equal edge of the digest comparison' if not gr.violations else
                  gr.violations[0].msg, vh.file, gr.violations[0].node.line if gr.violations else vh.line,
                  path=gr.violations[0].path if gr.violations else None, config=config)
        rh = check_gate(prog, fn, {'validate_header': POSITIVE}, success=P1 | POS)
        ck.ob('C06-c', 'R2.gate', fn.name, 'validate_header', not rh.violations,
              'success exits of read_header_from_file lie on the >=1 edge of validate_header' if not rh.violations
              else rh.violations[0].msg, fn.file, rh.violations[0].node.line if rh.violations else fn.line,
              path=rh.violations[0].path if rh.violations else None, config=config)
        # ---- d: the buffer read from the file ends at L+N
        rd = calls_of(fn, ('read_data',))
        ck.require(len(rd) == 1, 'read_header_from_file: expected one read_data call')
        r2 = ExtentRule(prog, fn, (), {'read_data': (1, 2)})
        run_rule(prog, fn, r2)
        ends = set()
        for m, trace in r2.exit_traces:
            for rec in trace:
                if rec[0] == 'read_data' and not isinstance(rec[3], tuple) and not isinstance(rec[4], tuple):
                    ends.add(rec[3] + rec[4] - Lin({H: 1}))
        ck.ob('C06-d', 'R4.extent', fn.name, 'read-end', ends == set([total]),
              'header bytes read from the file end at %s (header ends at %r)' % (
                  ', '.join(repr(e) for e in ends) or '?', total), rd[0].file, rd[0].line, config=config)
        fill_clauses(ck, prog, config)
        # stored digest copied from offset D, digest_size bytes (read_lead)
        rl = prog.need_func('read_lead')
        r3 = ExtentRule(prog, rl, (), {'memcpy': (0, 1, 2)})
        run_rule(prog, rl, r3)
        cap = {}

        class Cap(SymRule):
            def __init__(s, prog, fn):
                SymRule.__init__(s, prog, fn)
                s.out = []

            def sym_assign(s, ctx, lhs, rhs, op, ts):
                if last_field(lhs) == 'hdr_digest_loc' and op == '=':
                    v = s.value(rhs, ts)
                    ts = s.set_key(ts, ('f', '@D'), v)
                return ts

            def sym_call(s, ctx, call, ts):
                if callee_name(call) == 'memcpy' and 'header_digest' in pstr(call.a[1], s.subst):
                    env, fields = s.env_of(ts)
                    src = s.value(call.a[2], ts)
                    ln = s.value(call.a[3], ts)
                    s.out.append((src, fields.get('@D'), ln, call))
                return ts
        cp = Cap(prog, rl)
        run_rule(prog, rl, cp)
        ck.require(len(cp.out) >= 1, 'read_lead: copy of the stored digest not found')
        for src, dcap, ln, call in cp.out:
            ok = src is not None and dcap is not None and ln == Lin({DS: 1}) and \
                len([k for k in (src - dcap).t]) == 1 and (src - dcap).c == 0
            ck.ob('C06-d', 'R4.extent', rl.name, 'stored-digest-copy', ok,
                  'header_digest := %s bytes at header + %r (digest location D = %r)' % (ln, src, dcap),
                  call.file, call.line, config=config)
        # ---- writer tiling
        hc = prog.need_func('header_create')
        w = ExtentRule(prog, hc, ('lead_string', 'preface_string', 'index_string', 'sig_string'),
                       {'hash_update': (1, 2, 3), 'hash_init': (1,), 'hash_finalize': (1,), 'memcpy': (0, 1, 2)})
        run_rule(prog, hc, w)
        succ = [(m, t) for m, t in w.exit_traces if m & (P1 | POS)]
        ck.require(len(succ) >= 1, 'header_create has no success exit')
        seen = set()
        for m, trace in succ:
            if trace in seen:
                continue
            seen.add(trace)
            obj = None
            ext = []
            fin_obj = None
            store = None
            for rec in trace:
                if rec[0] == 'hash_init':
                    obj = rec[3]
                    ext = []
                elif rec[0] == 'hash_update' and fin_obj is None and rec[3] == obj:
                    ext.append((rec[4], rec[5]))
                elif rec[0] == 'hash_finalize':
                    fin_obj = rec[3]
                elif rec[0] == 'memcpy' and fin_obj is not None:
                    store = rec
            ok, msg, rendered = tile(ext, window, total)
            ck.ob('C06-b', 'R4.tiling', hc.name, 'writer-extents', ok,
                  ('writer hashes %s: %s' % ('; '.join(rendered), msg)) if ok else msg, hc.file,
                  trace[-1][2] if trace else hc.line, config=config,
                  sample={'function': hc.name, 'extents': rendered, 'object': obj, 'verdict': msg})
            ck.ob('C06-b', 'R4.tiling', hc.name, 'writer-object', fin_obj is not None and fin_obj == obj,
                  'extents hashed into %s, finalised object %s' % (obj, fin_obj), hc.file, hc.line, config=config)
            okst = False
            if store is not None and not isinstance(store[3], tuple) and not isinstance(store[5], tuple):
                okst = (store[3] - Lin({H: 1})) == Lin({D: 1}) and store[5] == Lin({DS: 1})
            ck.ob('C06-b', 'R4.extent', hc.name, 'digest-store', okst,
                  'digest stored at header + %r, %r bytes (window is [D, D+digest_size))' % (
                      (store[3] - Lin({H: 1})) if store is not None and not isinstance(store[3], tuple) else '?',
                      store[5] if store is not None else '?'), hc.file, store[2] if store else hc.line, config=config)


CLAIM = {
    'technique': 'symbolic linear extent tiling of the hash_update arguments (flow-sensitive linear forms over the '
                 'header base, digest location, lead size, header length) + verdict gate + compare-primitive check, full-length identifier comparison (the one header part the checksum replaces by a constant)',
    'text': 'static analysis: decides C06-a..d - reader and writer hash exactly [0,D) u [L,L+N) of the header (first '
            'five bytes constant magic) into the object the gate finalises, L = D + digest_size from the lead cursor '
            'arithmetic, the stored digest is taken from / stored to [D,L), the gate compares digest_size bytes with '
            'memcmp and every success exit lies on its ==0 / >=1 edge. Decides the property up to hash strength; '
            'nothing is executed. C06-e: the 5-byte identifier is compared in full against the identifier literals.',
    'note': 'trusted: clang 14 front end; linear forms over syntactic access paths (two different paths are assumed '
            'not to alias); zrealloc/memcpy semantics',
}

MUTANTS = [
    {'id': 'm01', 'desc': 'reader hashes one byte fewer before the digest', 'file': 'src/lib/header.c',
     'old': 'zck->hdr_digest_loc-5))', 'new': 'zck->hdr_digest_loc-6))', 'expect': 'R4.tiling read_header_from_file'},
    {'id': 'm02', 'desc': 'reader drops the hash of the remaining header', 'file': 'src/lib/header.c',
     'old': """    if(!hash_update(zck, &(zck->check_full_hash), header, zck->header_length))
        return false;
    int ret""", 'new': """    int ret""", 'expect': 'R4.tiling read_header_from_file'},
    {'id': 'm04', 'desc': 'writer hashes header_length-1 bytes', 'file': 'src/lib/header.c',
     'old': 'if(!hash_update(zck, &header_hash, zck->preface_string, zck->header_length))',
     'new': 'if(!hash_update(zck, &header_hash, zck->preface_string, zck->header_length-1))',
     'expect': 'R4.tiling header_create'},
    {'id': 'm05', 'desc': 'compare over digest_size-1 bytes', 'file': 'src/lib/hash/hash.c',
     'old': 'if(memcmp(digest, zck->header_digest, zck->hash_type.digest_size) != 0) {',
     'new': 'if(memcmp(digest, zck->header_digest, zck->hash_type.digest_size - 1) != 0) {',
     'expect': 'R4.compare validate_header'},
    {'id': 'm05b', 'desc': 'strncmp instead of memcmp', 'file': 'src/lib/hash/hash.c',
     'old': 'if(memcmp(digest, zck->header_digest, zck->hash_type.digest_size) != 0) {',
     'new': 'if(strncmp(digest, zck->header_digest, zck->hash_type.digest_size) != 0) {',
     'expect': 'R4.compare validate_header'},
    {'id': 'm06o', 'desc': 'reader hashes the lead into the chunk hash object', 'file': 'src/lib/header.c',
     'old': """    if(!hash_update(zck, &(zck->check_full_hash), zck->header+5,""",
     'new': """    if(!hash_update(zck, &(zck->check_chunk_hash), zck->header+5,""",
     'expect': 'R4.tiling read_header_from_file'},
    {'id': 'm06r', 'desc': 'lead cursor: digest location captured after skipping the digest', 'file': 'src/lib/header.c',
     'old': """    memcpy(zck->header_digest, header + length, zck->hash_type.digest_size);
    length += zck->hash_type.digest_size;""",
     'new': """    memcpy(zck->header_digest, header + length, zck->hash_type.digest_size);
    length += zck->hash_type.digest_size;
    zck->hdr_digest_loc = length;""", 'expect': 'R4.relation read_lead'},
    {'id': 'm06m', 'desc': 'reader hashes the file magic instead of the constant', 'file': 'src/lib/header.c',
     'old': """    if(!hash_update(zck, &(zck->check_full_hash), "\\0ZCK1", 5))
        return false;""", 'new': '', 'expect': 'R4.tiling read_header_from_file'},
    {'id': 'n06a', 'desc': 'split the last extent into two adjacent ones', 'file': 'src/lib/header.c',
     'old': """    if(!hash_update(zck, &(zck->check_full_hash), header, zck->header_length))
        return false;
    int ret""",
     'new': """    if(!hash_update(zck, &(zck->check_full_hash), header, 1))
        return false;
    if(!hash_update(zck, &(zck->check_full_hash), header + 1, zck->header_length - 1))
        return false;
    int ret""", 'expect': None},
]


# SESSION7 additions to the claim (clauses added in DESIGN section 12)
CLAIM['technique'] += '; comparison-primitive recognition shared with C02 (memcmp or OR-fold helper)'
CLAIM['text'] += ' C06-c (extended): a header verdict without a byte-wise comparison primitive is reported as a finding.'


# SESSION7b additions to the claim (round 8, DESIGN 12.6)
CLAIM['technique'] += '; stored-digest-loaded typestate on read_lead'
CLAIM['text'] += ' C06-f: every success exit of read_lead() has copied the stored checksum of this lead into header_digest.'

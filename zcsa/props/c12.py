"""C12  I/O failures are reported, never turned into success.

R1 errdisc over every call site of the I/O-failure closure (functions from which
read/write/lseek/ftruncate are reachable, plus the raw system calls), callee-side
convention checks, and the tool exit gates.
"""
from ..flow import mask_str
from ..ir import show, callee_name
from ..program import rel
from ..rules import errdisc
from .. import frontend
import re
import subprocess
from concurrent.futures import ThreadPoolExecutor


def unused_result_witness(config):
    """Compile-fail witness: with glibc's __wur attributes switched on
    (-O2 -D_FORTIFY_SOURCE=2) and the project's own ZCK_WARN_UNUSED, no unit may
    drop a must-check result.  Returns (units checked, list of (file, line, text))."""
    units, _ = frontend.unit_list(config)

    def one(path):
        cmd = ['clang'] + frontend.flags(config) + ['-fsyntax-only', '-O2', '-D_FORTIFY_SOURCE=2',
                                                    '-Werror=unused-result', '-Wno-everything',
                                                    '-Werror=unused-result', path]
        p = subprocess.run(cmd, stdout=subprocess.PIPE, stderr=subprocess.PIPE)
        hits = []
        for line in p.stderr.decode(errors='replace').splitlines():
            m = re.match(r'^(.*?):(\d+):\d+: error: (.*unused.*)$', line)
            if m:
                hits.append((m.group(1), int(m.group(2)), m.group(3)))
        return hits
    out = []
    with ThreadPoolExecutor(max_workers=16) as ex:
        for hits in ex.map(one, units):
            out.extend(hits)
    return len(units), out


def site_instances(sites):
    """Stable instance names: callee#k where k counts that callee's call sites
    inside the caller in source order."""
    counts = {}
    for s in sorted(sites, key=lambda r: (r['caller'].qname, r['call'].line, r['call'].uid)):
        key = (s['caller'].qname, s['callee'])
        counts[key] = counts.get(key, 0) + 1
        s['instance'] = '%s#%d' % (s['callee'], counts[key])


def run(ctx):
    ck = ctx.check
    ck.explanation = (
        'R1 errdisc: for every call site whose callee can fail because of a read/write/lseek/ftruncate '
        '(call-graph closure, function pointers resolved), the failure classes of the callee\'s return '
        'convention are followed through the caller by a path-sensitive abstract interpreter; an obligation '
        'is discharged when no path carries the failure (or, for read(), a short count used with the requested '
        'length; for write(), a short count) to a success exit of the caller.  Callee side: no function returns '
        'a class outside its convention.  Decides the call-site half of C12 for all of library and tools; '
        'faults inside zstd/OpenSSL, close() results and ENOSPC surfacing only at close are not decided.')
    ck.declined += ['faults inside zstd/OpenSSL', 'close() results', 'ENOSPC on the unlinked temp file surfacing only at close()']
    for config in ctx.configs():
        prog = ctx.prog(config)
        # ---- h  an update marks a chunk valid only after writing all of its bytes at its own offset: the copy loop
        #         seeks both descriptors to the chunk and moves exactly the stored size (shared with C08-f)
        from ..rules import dlrules as _dl12
        from ..rules.common import Lin as _Lin
        _dl12.chunk_loop(ck, prog, config, 'C12-h', 'write_and_verify_chunk', 'src_idx->comp_length',
                         [('read_data', 2), ('hash_update', 3), ('write_data', 3)],
                         seek_want=[('src', _Lin({'src->data_offset': 1, 'src_idx->start': 1})),
                                    ('tgt', _Lin({'tgt->data_offset': 1, 'tgt_idx->start': 1}))])
        sites, convs = errdisc.analyse_sites(prog)
        site_instances(sites)
        n_io = 0
        for s in sites:
            if 'io' not in s['provenance']:
                continue
            n_io += 1
            fn = s['caller']
            c = s['call']
            if s.get('trivial'):
                ck.ob('C12-a', 'R1.errdisc', fn.name, s['instance'], True,
                      'callee never returns a failure class of its convention (%s)' % s['conv'],
                      c.file, c.line, trivial=True, config=config)
                continue
            if s['exception'] and s['violations']:
                ck.ob('C12-a', 'R1.errdisc', fn.name, s['instance'], True,
                      'named exception: ' + s['exception'], c.file, c.line, config=config)
                continue
            if not s['violations']:
                ck.ob('C12-a', 'R1.errdisc', fn.name, s['instance'], True,
                      'failure classes %s of %s (%s) never reach a success exit of %s (%s)' % (
                          mask_str(s['mask'] & s['fail']), s['callee'], s['conv'],
                          fn.name, s['caller_conv']), c.file, c.line, config=config,
                      sample={'caller': fn.name, 'call': show(c)[:80], 'where': '%s:%d' % (rel(c.file), c.line),
                              'convention': s['conv'], 'callee_classes': mask_str(s['mask']),
                              'caller_convention': s['caller_conv'], 'verdict': 'failure separated on every path'})
                continue
            for v in s['violations']:
                w = v['where']
                ck.ob('C12-a', 'R1.errdisc', fn.name, '%s:%s' % (s['instance'], v['kind']), False,
                      '%s: result of %s (convention %s, classes %s) — %s: %s at line %d' % (
                          v['kind'], show(c)[:70], s['conv'], mask_str(s['mask']),
                          {'to-success': 'a failure can reach a success exit of ' + fn.name,
                           'short-exit': 'a positive short read() is taken for end of file',
                           'eof-exit': 'the end of the file inside a copy of known length is taken for the end of the copy',
                           'short-use': 'short read not handled',
                           'short-write': 'a short write can reach a success exit of ' + fn.name}[v['kind']],
                          v['what'], getattr(w, 'line', 0)),
                      c.file, c.line, config=config)
        ck.min_instances('call sites of the I/O-failure closure', n_io, 100)
        # callee side
        for fn, conv, bad in errdisc.breaches(prog, convs):
            if not bad:
                ck.ob('C12-b', 'R1.convention', fn.name, conv, True,
                      'every return of %s is within its %s convention' % (fn.name, conv), fn.file, fn.line,
                      config=config)
            else:
                node, mask, extra = bad[0]
                ck.ob('C12-b', 'R1.convention', fn.name, conv, False,
                      '%s follows the %s convention at its call sites but returns %s at line %d (%s): '
                      'callers testing with the %s idiom take this for success' % (
                          fn.name, conv, mask_str(extra), node.line, show(node.e), conv), node.file, node.line,
                      config=config)
        rtb = errdisc.return_type_breaches(prog, convs)
        for fn_, where, msg in rtb:
            ck.ob('C12-b', 'R1.return-type', fn_.name, 'signed-result', False, '%s: %s' % (fn_.name, msg), fn_.file,
                  getattr(where, 'line', fn_.line), config=config)
        if not rtb:
            ck.ob('C12-b', 'R1.return-type', '*', 'signed-results', True,
                  'every function whose results are told apart by sign returns a signed type; no bool function returns '
                  'a signed verdict', config=config)
        from ..rules import extra
        nd = extra.check_no_downgrade(ck, prog, config, 'C12-d')
        ck.min_instances('callers of write_data', nd, 5)
        # ---- e  a retried write continues where the previous one stopped
        from ..rules import contwrite
        contwrite.check_write_continuation(ck, prog, config, 'C12-e')
        # ---- f  a short count from the read wrapper means end of file
        from ..rules import shorteof
        shorteof.check_short_is_eof(ck, prog, config, 'C12-f')
        ck.extra.setdefault('inferred_conventions', {}).update(convs.inferred)
        n_units, hits = unused_result_witness(config)
        for f, line, text in hits:
            ck.ob('C12-c', 'R1.unused-result', rel(f), 'line-independent:%s' % text[:60], False,
                  'compile-fail witness: ' + text, f, line, config=config)
        ck.ob('C12-c', 'R1.unused-result', '*', '%d units' % n_units, not hits,
              'clang -Werror=unused-result with __wur enabled: %d unit(s), %d dropped result(s)' % (n_units, len(hits)),
              config=config)


MUTANTS = [
    {'id': 'm12f', 'desc': 'read wrapper returns after one read() (pre-fix form)', 'file': 'src/lib/io.c',
     'old': """        if(rb == 0)
            break;
        read_bytes += rb;
    }""", 'new': """        read_bytes += rb;
        break;
    }""", 'expect': 'R1.short-is-eof read_data'},
    {'id': 'm12w', 'desc': 'write retry loop that never advances the source (seeded c12r3/c01r3)', 'file': 'src/lib/io.c',
     'old': """    } else if(write_bytes < length) {
        // According to man page, if write is less than full amount, we should try again
        length -= write_bytes;
        write_bytes = write(fd, data+write_bytes, length);
        if(write_bytes == -1) {
            set_fatal_error(zck, "Error writing data: %s", strerror(errno));
            return false;
        } else if(write_bytes < length) {
            set_fatal_error(zck, "Short write (after two attempts)");
            return false;
        }
    }""", 'new': """    }
    while(write_bytes < length) {
        length -= write_bytes;
        write_bytes = write(fd, data+write_bytes, length);
        if(write_bytes == -1) {
            set_fatal_error(zck, "Error writing data: %s", strerror(errno));
            return false;
        }
    }""", 'expect': 'R4.continuation write_data'},
    {'id': 'n12w', 'desc': 'correct write retry loop (source advanced by every result)', 'file': 'src/lib/io.c',
     'old': """    } else if(write_bytes < length) {
        // According to man page, if write is less than full amount, we should try again
        length -= write_bytes;
        write_bytes = write(fd, data+write_bytes, length);
        if(write_bytes == -1) {
            set_fatal_error(zck, "Error writing data: %s", strerror(errno));
            return false;
        } else if(write_bytes < length) {
            set_fatal_error(zck, "Short write (after two attempts)");
            return false;
        }
    }""", 'new': """    }
    while(write_bytes < length) {
        if(write_bytes == 0) {
            set_fatal_error(zck, "Short write");
            return false;
        }
        data += write_bytes;
        length -= write_bytes;
        write_bytes = write(fd, data, length);
        if(write_bytes == -1) {
            set_fatal_error(zck, "Error writing data: %s", strerror(errno));
            return false;
        }
    }""", 'expect': None},
    {'id': 'm12x', 'desc': 'retry passes the full length again', 'file': 'src/lib/io.c',
     'old': '        length -= write_bytes;\n        write_bytes = write(fd, data+write_bytes, length);',
     'new': '        write_bytes = write(fd, data+write_bytes, length);', 'expect': 'R4.continuation write_data'},
    {'id': 'm27', 'desc': 'dl_write ignores the write_data result', 'file': 'src/lib/dl/dl.c',
     'old': """        if(!write_data(dl->zck, dl->zck->fd, at, wb))
            return -1;""",
     'new': """        write_data(dl->zck, dl->zck->fd, at, wb);""",
     'expect': 'R1.errdisc dl_write [write_data#1:to-success]'},
    {'id': 'm28', 'desc': 'chunks_from_temp: read error taken for end of file', 'file': 'src/lib/io.c',
     'old': """    if(read_count == -1)
        return false;
""", 'new': '', 'expect': 'R1.errdisc chunks_from_temp [read#1:to-success]'},
    {'id': 'm12a', 'desc': 'comp_read drops the negative test on read_data', 'file': 'src/lib/comp/comp.c',
     'old': """        rb = read_data(zck, src, rs);
        if(rb < 0)
            goto read_error;""",
     'new': """        rb = read_data(zck, src, rs);""", 'expect': 'R1.errdisc comp_read [read_data#1:to-success]'},
    {'id': 'm12b', 'desc': 'zck_close ignores chunks_from_temp', 'file': 'src/lib/zck.c',
     'old': """        if(!chunks_from_temp(zck))
            return false;""", 'new': """        chunks_from_temp(zck);""",
     'expect': 'R1.errdisc zck_close [chunks_from_temp#1:to-success]'},
    {'id': 'm12c', 'desc': 'read_lead compares read_data result as unsigned again', 'file': 'src/lib/header.c',
     'old': """    ssize_t rb = read_data(zck, header + lead, to_read);
    if(rb < 0 || (size_t)rb < to_read) {""",
     'new': """    if(read_data(zck, header + lead, to_read) < to_read) {""",
     'expect': 'R1.errdisc read_lead [read_data#2:to-success]'},
    {'id': 'm12d', 'desc': 'zero_chunk tests bool-convention write_data with < 0', 'file': 'src/lib/dl/dl.c',
     'old': """        if(!write_data(tgt, tgt->fd, buf, rb))
            return false;
        to_read -= rb;
    }
    return true;
}

/* Check whether last downloaded""",
     'new': """        if(write_data(tgt, tgt->fd, buf, rb) < 0)
            return false;
        to_read -= rb;
    }
    return true;
}

/* Check whether last downloaded""", 'expect': 'R1.errdisc zero_chunk [write_data#1:to-success]'},
    {'id': 'm12e', 'desc': 'seek_data guard back to VALIDATE_INT', 'file': 'src/lib/io.c',
     'old': """int seek_data(zckCtx *zck, off_t offset, int whence) {
    VALIDATE_BOOL(zck);""",
     'new': """int seek_data(zckCtx *zck, off_t offset, int whence) {
    VALIDATE_INT(zck);""", 'expect': 'R1.convention seek_data'},
    {'id': 'm12f', 'desc': 'validate_checksums hashes the requested length after a short read', 'file': 'src/lib/hash/hash.c',
     'old': """                if(!hash_update(zck, &(zck->check_chunk_hash), buf, rb))
                    return 0;""",
     'new': """                if(!hash_update(zck, &(zck->check_chunk_hash), buf, rsize))
                    return 0;""", 'expect': 'R1.errdisc validate_checksums short-use'},
    {'id': 'm12g', 'desc': 'write_data: short second write accepted', 'file': 'src/lib/io.c',
     'old': """        } else if(write_bytes < length) {
            set_fatal_error(zck, "Short write (after two attempts)");
            return false;
        }""", 'new': """        }""", 'expect': 'R1.errdisc write_data [write#2:short-write]'},
    {'id': 'm12h', 'desc': 'unzck: write result unchecked in the decompress loop', 'file': 'src/unzck.c',
     'old': """        if(write(dst_fd, data, read_size) != read_size) {
            LOG_ERROR("Error writing to %s\\n", out_name);
            goto error2;
        }
        total += read_size;""",
     'new': """        write(dst_fd, data, read_size);
        total += read_size;""", 'expect': 'R1.errdisc main [write#'},
    {'id': 'm26', 'desc': 'zckdl ignores the final data checksum verdict', 'file': 'src/zck_dl.c',
     'old': """        case 0:
            exit_val = 1;
            break;""", 'new': """        case 0:
            break;""", 'expect': 'R1.errdisc main [zck_validate_data_checksum#1:to-success]'},
    # negative controls
    {'id': 'n12a', 'desc': '!seek_data -> seek_data == false', 'file': 'src/lib/dl/dl.c',
     'old': """    if(!seek_data(tgt, tgt->data_offset + tgt_idx->start, SEEK_SET))
        return false;
    while(to_read > 0) {
        int rb = BUF_SIZE;
        if(rb > to_read)
            rb = to_read;
        if(!write_data(tgt, tgt->fd, buf, rb))""",
     'new': """    if(seek_data(tgt, tgt->data_offset + tgt_idx->start, SEEK_SET) == false)
        return false;
    while(to_read > 0) {
        int rb = BUF_SIZE;
        if(rb > to_read)
            rb = to_read;
        if(!write_data(tgt, tgt->fd, buf, rb))""", 'expect': None},
    {'id': 'n12b', 'desc': 'assign-then-test of write_header in zck_close', 'file': 'src/lib/zck.c',
     'old': """        if(!write_header(zck))
            return false;""",
     'new': """        bool wh = write_header(zck);
        zck_log(ZCK_LOG_DEBUG, "header written");
        if(wh == 0)
            return false;""", 'expect': None},
    {'id': 'n12c', 'desc': 'comp_read tests rb == -1 instead of rb < 0', 'file': 'src/lib/comp/comp.c',
     'old': """        rb = read_data(zck, src, rs);
        if(rb < 0)
            goto read_error;""",
     'new': """        rb = read_data(zck, src, rs);
        if(rb == -1)
            goto read_error;""", 'expect': None},
]


"""C02  No silent corruption: success implies verified content (mechanism part).

C02-a  read_header_from_file: `return true` only on the >=1 edge of validate_header;
       zck_read_header: read_preface/read_index/read_sig only after read_header_from_file succeeded.
C02-b  the chunk verdict gates (shared with C15: comp_end_dchunk exits, comp_read idiom).
C02-c  zck_close, read mode: `return true` only on the >=1 edge of validate_file.
C02-d  hash-what-you-use pairing: the (buffer, length) pair produced by read_data in comp_read
       feeds the chunk hash, the whole-data hash and the decoder buffer unchanged; dl_write and
       write_and_verify_chunk hash exactly what they write.
C02-f  validate_file / validate_header / validate_chunk return a positive verdict only on the equal edge of their
       digest comparison (named exception: validate_file under has_uncompressed_source).
C02-g  a backend that decompresses a chunk as a unit compares the number of bytes produced with the announced size
       before it hands the buffer on.
C02-h  in comp_read a short count from read_data() (end of file inside a chunk) never reaches a success return.
C02-e  unzck: exit status 0 / kept output only through zck_close()==true with every read/write
       failure leaving to the error exit (R1 over main + gate).
"""
from ..flow import M1, NEG, Z, P1, POS, NONNEG, POSITIVE, TOP, mask_str, Engine
from ..ir import strip, show, callee_name, callee_field, const_value, walk, calls_in
from ..program import rel, all_exprs, unique_defs
from ..rules import errdisc
from ..rules.common import (FactRule, GateRule, run_rule, call_name, calls_of, pstr, last_field, origin_names,
                            check_gate)
from . import c15


VERDICT_TABLE = (
    ('validate_file', 'has_uncompressed_source',
     'files with the uncompressed-source flag carry no usable whole-data digest (the data digest is over uncompressed '
     'data that is not stored); today\'s behaviour, named exception'),
    ('validate_header', None, None), ('validate_chunk', None, None))


class OrderRule(FactRule):
    """Calls in `later` require the success edge of `first` to have been taken."""
    name = 'R2.order'

    def __init__(self, prog, fn, first, later, ok=P1 | POS):
        FactRule.__init__(self, prog, fn)
        self.first = first
        self.later = later
        self.ok = ok
        self.seen = 0

    def on_edge(self, ctx, node, label, refined, ts):
        for expr, origins, before, after in refined:
            if self.first in origins and after & ~self.ok == 0:
                ts = ts | frozenset(['ok'])
        return ts

    def on_call(self, ctx, call, ts):
        n = call_name(call)
        if n in self.later and ctx.fn is self.fn:
            self.seen += 1
            if 'ok' not in ts:
                self.violate(ctx, 'order', '%s() reachable before %s() has succeeded' % (n, self.first), inst=n)
        return ts


class ExitGateRule(FactRule):
    """Tool main(): exit(0) / return 0 only after the gate edges."""
    name = 'R2.exit-gate'

    def __init__(self, prog, fn, gates):
        FactRule.__init__(self, prog, fn)
        self.gates = gates
        self.zero_exits = 0

    def on_edge(self, ctx, node, label, refined, ts):
        for expr, origins, before, after in refined:
            for g, ok in self.gates.items():
                if g in origins and after & ~ok == 0:
                    ts = ts | frozenset(['gate:' + g])
        return ts

    def check_exit(self, ctx, ts, what):
        self.zero_exits += 1
        missing = [g for g in self.gates if 'gate:' + g not in ts]
        if missing and 'path:full' in ts:
            self.violate(ctx, 'exit0', '%s with status possibly 0 on the decompress path without %s' % (
                what, ' / '.join(g + '() success' for g in missing)), inst=','.join(missing))

    def after_call(self, ctx, call, ts, mask):
        n = callee_name(call)
        if n == 'zck_read':
            ts = ts | frozenset(['path:full'])
        if n in ('exit', '_exit') and len(call.a) > 1:
            if ctx.value(call.a[1]) & Z:
                self.check_exit(ctx, ts, 'exit(%s)' % show(call.a[1]))
            return None
        return ts

    def on_return(self, ctx, node, mask, ts):
        if ctx.fn is self.fn and mask & Z:
            self.check_exit(ctx, ts, 'return')
        return ts


def pairing(ck, prog, fn_name, producer, consumers, config, unit=None, min_consumers=1):
    """The pair (buffer arg, count) of the producer call must be the (buffer,
    length) arguments of each consumer call in the same function.  producer:
    (callee, buf index, result-or-len) ; consumers: list of (callee, buf idx, len idx,
    optional first-arg field filter)."""
    fn = prog.need_func(fn_name, unit)
    subst = unique_defs(fn)
    pname, pbuf, plen = producer
    pcs = calls_of(fn, (pname,))
    ck.require(len(pcs) >= 1, '%s: no call to %s' % (fn_name, pname))
    pc = pcs[-1] if fn_name == 'comp_read' else pcs[0]
    buf = pstr(pc.a[1 + pbuf], subst)
    # the count: the variable the result is assigned to, or the requested length
    count_names = set()
    if plen is not None:
        count_names.add(pstr(pc.a[1 + plen], subst))
    for ex in all_exprs(fn):
        for n in walk(ex):
            if n.k == 'bin' and n.op == '=' and any(x is pc for x in walk(n.a[1])):
                count_names.add(pstr(n.a[0], subst))
    from ..ir import walk_stmts
    for s in walk_stmts(fn.body):
        if s.k == 'decl' and s.e is not None and any(x is pc for x in walk(s.e)):
            count_names.add(s.var.op)
    for cname, cbuf, clen, filt in consumers:
        found = 0
        for c in calls_of(fn, (cname,)):
            args = c.a[1:]
            if len(args) <= max(cbuf, clen):
                continue
            if filt and filt not in pstr(args[filt_index(cname)], subst):
                continue
            if pstr(args[cbuf], subst) != buf:
                continue
            found += 1
            ok = pstr(args[clen], subst) in count_names
            ck.ob('C02-d', 'R4.pairing', fn.name, '%s(%s)' % (cname, filt or ''), ok,
                  '%s consumes buffer %s with length %s; producer %s yields count %s' % (
                      cname, buf, pstr(args[clen], subst), pname, '/'.join(sorted(count_names))),
                  c.file, c.line, config=config)
        ck.ob('C02-d', 'R4.pairing', fn.name, '%s(%s):present' % (cname, filt or ''), found >= 1,
              '%d call(s) of %s%s consume the buffer %s filled by %s' % (
                  found, cname, (' on ' + filt) if filt else '', buf, pname), pc.file, pc.line, config=config)


def filt_index(cname):
    return 1 if cname == 'hash_update' else 0


def run(ctx):
    ck = ctx.check
    ck.explanation = (
        'Gates and pairings behind "success implies verified": must-pass-through of the header, chunk and '
        'whole-data verdict edges on every success exit (path-sensitive class engine), order of the header parsers '
        'after the header gate, identity of the (buffer, count) pair between read_data and the hash/decoder '
        'consumers, and the exit gate of unzck.  Equality with an independent decoder is not decided.')
    ck.declined += ['equality of returned bytes with an independent decoder (needs execution)']
    for config in ctx.configs():
        prog = ctx.prog(config)
        # ---- a
        fn = prog.need_func('read_header_from_file')
        r = check_gate(prog, fn, {'validate_header': POSITIVE}, success=P1 | POS)
        ck.require(r.success_exits >= 1, 'read_header_from_file has no success exit')
        ck.ob('C02-a', 'R2.gate', fn.name, 'validate_header', not r.violations,
              '%d success exit state(s), all on the >=1 edge of validate_header()' % r.success_exits
              if not r.violations else r.violations[0].msg, fn.file,
              r.violations[0].node.line if r.violations else fn.line,
              path=r.violations[0].path if r.violations else None, config=config)
        fn = prog.need_func('zck_read_header')
        orr = OrderRule(prog, fn, 'read_header_from_file', ('read_preface', 'read_index', 'read_sig'))
        run_rule(prog, fn, orr)
        ck.require(orr.seen >= 3, 'zck_read_header no longer calls the three header parsers')
        ck.ob('C02-a', 'R2.order', fn.name, 'parsers-after-gate', not orr.violations,
              'read_preface/read_index/read_sig only after read_header_from_file() succeeded'
              if not orr.violations else orr.violations[0].msg, fn.file,
              orr.violations[0].node.line if orr.violations else fn.line, config=config)
        # ---- b: every caller of the end_dchunk slot: non-failure exits need the verdict
        for f in prog.lib_funcs():
            cs = [c for c in calls_of(f, ('end_dchunk',)) if callee_field(c) == 'end_dchunk']
            if not cs:
                continue
            gr = check_gate(prog, f, {'validate_current_chunk': POSITIVE}, success=Z | P1 | POS)
            # exits before the slot call (argument guards) are failures (-1) and not counted
            ck.ob('C02-b', 'R2.gate', f.name, 'validate_current_chunk', not gr.violations,
                  'every non-negative exit lies on the >=1 edge of validate_current_chunk()'
                  if not gr.violations else gr.violations[0].msg, f.file,
                  gr.violations[0].node.line if gr.violations else f.line,
                  path=gr.violations[0].path if gr.violations else None, config=config)
        _cv = errdisc.Conventions(prog)
        _rtb = [b for b in errdisc.return_type_breaches(prog, _cv) if 'valid' in b[0].name or b[0].name.startswith('comp_')]
        for _fn, _where, _msg in _rtb:
            ck.ob('C02-b', 'R1.return-type', _fn.name, 'signed-result', False, '%s: %s' % (_fn.name, _msg), _fn.file,
                  getattr(_where, 'line', _fn.line), config=config)
        if not _rtb:
            ck.ob('C02-b', 'R1.return-type', '*', 'signed-verdicts', True,
                  'every verdict function returns a signed type (a -1 mismatch is not converted to true)', config=config)
        sites, convs = errdisc.analyse_sites(
            prog, want_site=lambda fn, c, label: label == 'comp_end_dchunk' and fn.name == 'comp_read', which='verify')
        ck.require(len(sites) >= 1 or calls_of(prog.need_func('comp_read'), ('comp_end_dchunk',)),
                   'comp_read no longer calls comp_end_dchunk')
        for s in sites:
            ck.ob('C02-b', 'R1.errdisc', 'comp_read', 'comp_end_dchunk', not s['violations'],
                  'failure classes of comp_end_dchunk never reach a success exit of comp_read' if not s['violations']
                  else 'a failure class of comp_end_dchunk reaches a success exit: ' + s['violations'][0]['what'],
                  s['call'].file, s['call'].line, config=config)
        # ---- c
        fn = prog.need_func('zck_close')

        def mode_edge(rule, ctx2, node, label, refined, ts):
            # the write-mode arm is gated by its own I/O results (C12); mark it
            from ..rules.common import atom_cmp
            op, l, r = atom_cmp(node.e, label)
            if last_field(l) == 'mode':
                v = const_value(r)
                wv = prog.macro('ZCK_MODE_WRITE')
                if v is not None and wv is not None and ((op == '==' and v == wv) or (op == '!=' and v != wv)):
                    ts = ts | frozenset(['gate:validate_file'])   # write arm: not a reader exit
                    ts = ts | frozenset(['write-arm'])
            return ts
        rule = GateRule(prog, fn, {'validate_file': POSITIVE}, P1 | POS, extra_edge=mode_edge)
        run_rule(prog, fn, rule)
        ck.ob('C02-c', 'R2.gate', fn.name, 'validate_file', not rule.violations,
              'read-mode success exits of zck_close lie on the >=1 edge of validate_file()'
              if not rule.violations else rule.violations[0].msg, fn.file,
              rule.violations[0].node.line if rule.violations else fn.line,
              path=rule.violations[0].path if rule.violations else None, config=config)
        # ---- f  the verdict functions themselves: a positive verdict only on the equal edge of the digest comparison
        from ..rules import dlrules
        nv = dlrules.verdict_gates(ck, prog, config, 'C02-f', VERDICT_TABLE)
        ck.min_instances('positive-verdict exits of the verdict functions', nv, 4)
        dlrules.digest_intact(ck, prog, config, 'C02-f', [t[0] for t in VERDICT_TABLE])
        # ---- j  nothing on the read path keeps data in static storage (one object per process: another context's bytes)
        from . import c19 as _c19
        _c19.shared_scratch(ck, prog, config, 'C02-j', ('zck_read', 'zck_read_header', 'zck_close'), 'read path')
        # ---- k  unzck stores every byte it was given: the output offset moves only by writing
        from ..rules import extra as _x2k
        _x2k.check_no_forward_seek(ck, prog, config, 'C02-k', (), 'unzck', tool_unit='src/unzck.c')
        from ..rules import fielddom as _fd2
        _fd2.check_bitfields(ck, prog, config, 'C02-l')
        # ---- d
        pairing(ck, prog, 'comp_read', ('read_data', 1, None),
                [('hash_update', 2, 3, 'check_chunk_hash'), ('hash_update', 2, 3, 'check_full_hash'),
                 ('comp_add_to_data', 2, 3, None)], config)
        pairing(ck, prog, 'dl_write', ('write_data', 2, 3), [('hash_update', 2, 3, 'check_chunk_hash')], config)
        pairing(ck, prog, 'write_and_verify_chunk', ('read_data', 1, 2),
                [('hash_update', 2, 3, 'check_hash'), ('write_data', 2, 3, None)], config)
        from . import c06
        c06.fill_clauses(ck, prog, config, 'C02-a')
        # ---- f the dictionary chunk is consumed before the data chunks are delivered
        from ..rules import extra
        extra.check_dict_consumed(ck, prog, config, 'C02-f')
        # ---- g/h byte counts on the reader side
        from ..rules import produced
        np_ = produced.check_produced_size(ck, prog, config, 'C02-g')
        if config != 'no-zstd':       # without the zstd backend no unit-decoding backend exists: nothing to hand over
            ck.min_instances('hand-overs of a unit-decompressed buffer', np_, 1)
        produced.check_eof_in_chunk(ck, prog, config, 'C02-h')
        # ---- i  only their owners begin, end or finalise the running digests
        extra.check_hash_owners(ck, prog, config, 'C02-i')
        # ---- e
        um = [f for f in prog.by_name.get('main', []) if f.unit.endswith('unzck.c')]
        ck.require(len(um) == 1, 'unzck main not found')
        um = um[0]
        er = ExitGateRule(prog, um, {'zck_close': P1 | POS})
        run_rule(prog, um, er)
        ck.require(er.zero_exits >= 1, 'unzck main has no exit with status 0')
        ck.ob('C02-e', 'R2.exit-gate', 'unzck main', 'zck_close', not er.violations,
              'every exit with status 0 on the decompress path lies on the success edge of zck_close() '
              '(whole-data verdict)' if not er.violations else er.violations[0].msg, um.file,
              er.violations[0].node.line if er.violations else um.line,
              path=er.violations[0].path if er.violations else None, config=config)
        sites, convs = errdisc.analyse_sites(
            prog, want_site=lambda fn, c, label: fn is um and label in ('zck_read', 'write', 'zck_close',
                                                                         'zck_validate_data_checksum'))
        n = 0
        for s in sites:
            n += 1
            ck.ob('C02-e', 'R1.errdisc', 'unzck main', '%s@%s' % (s['callee'], n), not s['violations'],
                  'failure of %s leaves to the error exit' % s['callee'] if not s['violations'] else
                  '%s failure can reach exit status 0: %s' % (s['callee'], s['violations'][0]['what']),
                  s['call'].file, s['call'].line, config=config)
        ck.min_instances('checked calls in unzck main', n, 5)
        # unlink on failure: every exit with non-zero status passes unlink(out_name) unless good_exit
        unl = calls_of(um, ('unlink',))
        ck.ob('C02-e', 'R2.cleanup', 'unzck main', 'unlink', len(unl) >= 1,
              'output is unlinked on the failure path (%d unlink call(s))' % len(unl), um.file,
              unl[0].line if unl else um.line, config=config)


MUTANTS = [
    {'id': 'm02g', 'desc': 'zstd: produced size not compared with the announced size (pre-fix form)', 'file': 'src/lib/comp/zstd/zstd.c',
     'old': 'if(retval != fd_size) {', 'new': 'if(retval > fd_size) {', 'expect': 'R2.produced-size end_dchunk'},
    {'id': 'm02h', 'desc': 'end of file inside a chunk only logged', 'file': 'src/lib/comp/comp.c',
     'old': """            set_fatal_error(zck, "Unexpected end of file inside chunk %llu",
                            (long long unsigned) zck->comp.data_idx->number);
            goto read_error;""", 'new': """            zck_log(ZCK_LOG_DDEBUG, "EOF");""", 'expect': 'R2.eof-in-chunk comp_read'},
    {'id': 'm03', 'desc': 'header gate weakened to < 0', 'file': 'src/lib/header.c',
     'old': """    int ret = validate_header(zck);
    if(ret < 1) {""", 'new': """    int ret = validate_header(zck);
    if(ret < 0) {""", 'expect': 'R2.gate read_header_from_file'},
    {'id': 'm03b', 'desc': 'header gate skipped for detached headers', 'file': 'src/lib/header.c',
     'old': """    int ret = validate_header(zck);
    if(ret < 1) {""", 'new': """    if(zck->header_only)
        return true;
    int ret = validate_header(zck);
    if(ret < 1) {""", 'expect': 'R2.gate read_header_from_file'},
    {'id': 'm02o', 'desc': 'preface parsed before the header gate', 'file': 'src/lib/header.c',
     'old': """    if(!read_header_from_file(zck))
        return false;
    if(!read_preface(zck))
        return false;""", 'new': """    bool hdr_ok = read_header_from_file(zck);
    if(!read_preface(zck))
        return false;
    if(!hdr_ok)
        return false;""", 'expect': 'R2.order zck_read_header'},
    {'id': 'm31', 'desc': 'comp_end_dchunk without the verdict call', 'file': 'src/lib/comp/comp.c',
     'old': """    if(validate_current_chunk(zck) < 1) {""",
     'new': """    if(zck->comp.data_idx == NULL) {""", 'expect': 'R2.gate comp_end_dchunk'},
    {'id': 'm32', 'desc': 'comp_read skips the chunk hash update', 'file': 'src/lib/comp/comp.c',
     'old': """        if(!hash_update(zck, &(zck->check_chunk_hash), src, rb) ||
           !comp_add_to_data(zck, &(zck->comp), src, rb))""",
     'new': """        if(!comp_add_to_data(zck, &(zck->comp), src, rb))""", 'expect': 'R4.pairing comp_read'},
    {'id': 'm32b', 'desc': 'comp_read hashes the requested size, not the read count', 'file': 'src/lib/comp/comp.c',
     'old': """        if(!hash_update(zck, &(zck->check_chunk_hash), src, rb) ||""",
     'new': """        if(!hash_update(zck, &(zck->check_chunk_hash), src, rs) ||""", 'expect': 'R4.pairing comp_read'},
    {'id': 'm33', 'desc': 'zck_close read mode returns true without validate_file', 'file': 'src/lib/zck.c',
     'old': """        if(validate_file(zck, ZCK_LOG_WARNING) < 1)
            return false;""",
     'new': """        if(!zck->comp.data_eof)
            return true;
        if(validate_file(zck, ZCK_LOG_WARNING) < 1)
            return false;""", 'expect': 'R2.gate zck_close'},
    {'id': 'm34', 'desc': 'unzck ignores zck_close', 'file': 'src/unzck.c',
     'old': """    if(!zck_close(zck)) {
        LOG_ERROR("%s", zck_get_error(zck));
        goto error2;
    }""", 'new': """    zck_close(zck);""", 'expect': 'unzck main'},
    {'id': 'm02w', 'desc': 'dl_write hashes one byte less than it writes', 'file': 'src/lib/dl/dl.c',
     'old': """        if(!hash_update(dl->zck, &(dl->zck->check_chunk_hash), at, wb))""",
     'new': """        if(wb > 1 && !hash_update(dl->zck, &(dl->zck->check_chunk_hash), at, wb - 1))""",
     'expect': 'R4.pairing dl_write'},
    {'id': 'n02a', 'desc': 'gate written as != 1', 'file': 'src/lib/header.c',
     'old': """    int ret = validate_header(zck);
    if(ret < 1) {""", 'new': """    int ret = validate_header(zck);
    if(ret != 1) {""", 'expect': None},
    {'id': 'n02b', 'desc': 'extra log call in comp_read', 'file': 'src/lib/comp/comp.c',
     'old': """        rb = read_data(zck, src, rs);
        if(rb < 0)
            goto read_error;""", 'new': """        rb = read_data(zck, src, rs);
        zck_log(ZCK_LOG_DDEBUG, "read %lli", (long long)rb);
        if(rb < 0)
            goto read_error;""", 'expect': None},
]


CLAIM = {
    'technique': 'must-pass-through gate analysis on verdict edges (path-sensitive class engine), call-order '
                 'typestate, (buffer,count) pairing between read and hash/decoder consumers, tool exit gate, verdict-function gates on the equal edge of a byte-wise comparison primitive (memcmp or an OR-fold helper recognised by shape), produced-size and end-of-file-inside-a-chunk typestates on the reader side',
    'text': 'static analysis: decides clauses C02-a..e - every success exit of the header reader, of the chunk end '
            'and of the read-mode close lies on the >=1 edge of the corresponding checksum verdict; header fields '
            'are parsed only after the header gate; the bytes handed to the decoder are exactly the bytes hashed; '
            'unzck exits 0 only through zck_close()==true. Equality with an independent decoder is not decided. C02-f: validate_file/header/chunk are positive only on the equal edge of a byte-wise digest comparison. C02-g: the zstd backend hands on a decompressed chunk only after result == announced size. C02-h: end of file inside a chunk is a failure of the read, never a short success.',
    'note': 'trusted: clang 14 front end; gate = branch edge refining the verdict call result into {1,>1}; '
            'pairing compares access paths after substituting single-definition locals',
}


# SESSION7 additions to the claim (clauses added in DESIGN section 12)
CLAIM['technique'] += '; digest-intact typestate (nothing writes the finalised digest before the comparison, except the nothing-stored case); static inventory restricted to the read path'
CLAIM['text'] += ' C02-f (extended): the buffer returned by hash_finalize() reaches the comparison unmodified. C02-j: no function on the read path writes an object with static storage.'


# SESSION7b additions to the claim (round 8, DESIGN 12.6)
CLAIM['technique'] += '; no-forward-seek on unzck; bit-field widths of the digest size'
CLAIM['text'] += ' C02-k: unzck never steps over bytes it was given. C02-l: a digest size kept in a bit-field fits it.'

"""C19  Independent contexts do not interfere (memory part).

Rule R7.static-inventory: exhaustive inventory of objects with static storage
duration in the library units; a mutable one may be written only by the logging
configuration setters.  Rule R7.mt-unsafe: deny-list of process-global libc
calls reachable in the library.

Decided: "no library-owned memory is shared between contexts except the logging
settings".  Declined: races inside zstd/OpenSSL/libc; equality of results with
the serial run (follows from disjoint state, not separately decided).
"""
from ..ir import strip, walk, calls_in, callee_name, show
from ..program import all_exprs, is_assign_op, rel

# the only functions that may write library statics (C19: "global logging
# settings being set once before the threads start")
LOG_SETTERS = ('zck_set_log_level', 'zck_set_log_fd', 'zck_set_log_callback')

MT_UNSAFE = ('umask', 'signal', 'sigaction', 'sigset', 'sigignore', 'bsd_signal', 'sysv_signal', '__sysv_signal', 'setrlimit', 'strtok', 'rand', 'srand', 'random', 'srandom', 'drand48', 'lrand48', 'localtime', 'gmtime',
             'ctime', 'asctime', 'setenv', 'putenv', 'unsetenv', 'readdir', 'getpwnam', 'getpwuid',
             'getgrnam', 'getgrgid', 'tmpnam', 'ttyname', 'setlocale', 'strsignal', 'ecvt', 'fcvt',
             'gethostbyname', 'getlogin', 'crypt', 'chdir', 'fchdir', 'dirname', 'l64a', 'inet_ntoa')
# process-global but allowed, with reason
MT_ALLOWED = {}

# primitives whose pointer arguments are read only (position -> read-only)
READ_ONLY_ARGS = {
    'strlen': {0}, 'strcmp': {0, 1}, 'strncmp': {0, 1}, 'memcmp': {0, 1}, 'printf': None, 'dprintf': None,
    'vdprintf': None, 'fprintf': None, 'write': {1}, 'zck_log_wf': None, 'zck_log_v': None, 'set_error_wf': None,
    'free': set(),
}


def base_var(e):
    """Root variable of an lvalue expression (through members, subscripts,
    derefs, casts, pointer arithmetic on the left operand)."""
    e = strip(e)
    while e is not None:
        if e.k == 'var':
            return e
        if e.k in ('mem', 'idx'):
            e = strip(e.a[0])
        elif e.k == 'un' and e.op in ('*', '&'):
            e = strip(e.a[0])
        elif e.k == 'bin' and e.op in ('+', '-'):
            e = strip(e.a[0])
        else:
            return None
    return None


def static_inventory(ck, prog, config, clause, unit_filter=None):
    """every object with static storage duration in the library units: const, never written, written only by the
    logging setters - or a finding"""
    statics = [g for g in prog.globals if prog.is_lib_unit(g.unit) and not g.extern and
               (unit_filter is None or unit_filter(g.unit))]
    by_decl = {}
    by_name = {}
    for g in statics:
        by_decl[g.declid] = g
        if not g.static:
            by_name[g.name] = g
    writes = {}   # static key -> list of (fn, line, how)
    for fn in prog.lib_funcs():
        local_ids = set(fn.locals.keys()) | set(p.decl for p in fn.params)

        def lookup(v):
            if v is None or v.k != 'var' or v.dk != 'VarDecl':
                return None
            if v.decl in by_decl:
                return by_decl[v.decl]
            if v.decl not in local_ids and v.op in by_name:
                return by_name[v.op]
            # file-scope statics referenced through a different redeclaration id
            if v.decl not in local_ids:
                for g in statics:
                    if g.name == v.op and g.unit == fn.unit and g.func is None:
                        return g
            return None
        # the address of a static stored in a pointer (local or field): later writes go through the alias
        from ..ir import walk_stmts
        stores = []
        for st_ in walk_stmts(fn.body):
            if st_.k == 'decl' and st_.var is not None and st_.e is not None and \
                    (st_.var.t or '').rstrip().endswith('*') and 'const' not in (st_.var.t or '').split('*')[0]:
                stores.append((st_.e, st_.line, 'local pointer %s' % st_.var.op))
        for ex in all_exprs(fn):
            for n in walk(ex):
                if n.k == 'bin' and n.op == '=' and (strip(n.a[0]).t or '').rstrip().endswith('*') and \
                        'const' not in (strip(n.a[0]).t or '').split('*')[0]:
                    stores.append((n.a[1], n.line, show(n.a[0])[:30]))
        for e_, line_, what_ in stores:
            for x in walk(e_):
                g = None
                if x.k == 'un' and x.op == '&':
                    g = lookup(base_var(x.a[0]))
                elif x.k == 'var':
                    g = lookup(x)
                    if g is not None and not (g.type or '').rstrip().endswith(']'):
                        g = None
                if g is not None and not g.const:
                    writes.setdefault(id(g), []).append((fn, line_, 'its address is stored in %s (writes through the alias)' % what_))
        for ex in all_exprs(fn):
            for n in walk(ex):
                if n.k == 'bin' and is_assign_op(n.op):
                    g = lookup(base_var(n.a[0]))
                    if g is not None:
                        writes.setdefault(id(g), []).append((fn, n.line, 'assignment %s' % show(n)[:60]))
                elif n.k == 'un' and n.op in ('++', '--'):
                    g = lookup(base_var(n.a[0]))
                    if g is not None:
                        writes.setdefault(id(g), []).append((fn, n.line, 'increment %s' % show(n)[:60]))
                elif n.k == 'call':
                    name = callee_name(n)
                    ro = READ_ONLY_ARGS.get(name, 'unknown')
                    if ro is None:
                        continue
                    fs, exs = prog.call_targets(fn, n)
                    for i, a in enumerate(n.a[1:]):
                        g = lookup(base_var(a))
                        if g is None:
                            continue
                        sa = strip(a)
                        # passing the *value* of a scalar static is a read
                        if sa.k == 'var' and not (g.type or '').rstrip().endswith((']', '*')):
                            continue
                        if sa.k in ('mem', 'idx') and not (sa.t or '').rstrip().endswith((']', '*')):
                            continue
                        if (g.type or '').rstrip().endswith('*') and sa.k == 'var':
                            # pointer-valued static passed by value: the pointee, not the static, may be written
                            continue
                        if ro != 'unknown' and i in ro:
                            continue
                        # parameter declared pointer-to-const?
                        const_param = False
                        for t in fs:
                            if i < len(t.params) and 'const' in (t.params[i].t or '').split('*')[0]:
                                const_param = True
                        if const_param:
                            continue
                        writes.setdefault(id(g), []).append(
                            (fn, n.line, 'passed to %s() as writable argument %d' % (name or show(n.a[0]), i + 1)))
    for g in statics:
        where = '%s%s' % (rel(g.unit), ('::' + g.func) if g.func else '')
        inst = '%s::%s' % (where, g.name)
        if g.const:
            ck.ob(clause, 'R7.static-inventory', where, inst, True, 'const object (%s)' % g.type,
                  g.file, g.line, config=config,
                  sample={'object': inst, 'type': g.type, 'class': 'const', 'writes': 0})
            continue
        ws = writes.get(id(g), [])
        bad = [(fn, line, how) for fn, line, how in ws if fn.name not in LOG_SETTERS]
        if not ws:
            ck.ob(clause, 'R7.static-inventory', where, inst, True,
                  'mutable type (%s) but never written in the library' % g.type, g.file, g.line, config=config,
                  sample={'object': inst, 'type': g.type, 'class': 'mutable, no writer', 'writes': 0})
            continue
        if not bad:
            ck.ob(clause, 'R7.static-inventory', where, inst, True,
                  'written only by logging setters: %s' % ', '.join(sorted(set(f.name for f, _, _ in ws))),
                  g.file, g.line, config=config,
                  sample={'object': inst, 'type': g.type, 'class': 'mutable, logging configuration',
                          'writers': sorted(set(f.name for f, _, _ in ws))})
            continue
        seen = set()
        for fn, line, how in bad:
            if fn.name in seen:
                continue
            seen.add(fn.name)
            ck.ob(clause, 'R7.static-write', fn.name, inst, False,
                  'mutable object with static storage %s (%s) is written by %s (%s): shared between every '
                  'context in the process' % (inst, g.type, fn.name, how), fn.file, line, config=config)
    return len(statics)


def run(ctx):
    ck = ctx.check
    ck.explanation = (
        'Exhaustive inventory of every object with static storage duration in the library translation units '
        '(file scope and function-local static), classified const/mutable from the declared type; for each '
        'mutable object every write site in the library is enumerated (assignment/increment rooted at the '
        'object, or the object passed to a callee through a pointer-to-non-const parameter).  A mutable static '
        'may be written only by the logging setters.  Plus a deny-list of MT-unsafe / process-global libc calls '
        'over all library call sites.  Decides the memory-sharing part of C19; races inside dependencies and '
        'result equality with the serial run are not decided.')
    ck.declined += ['races inside zstd / OpenSSL / libc', 'equality of results with the serial run']
    total_statics = 0
    for config in sorted(set(ctx.configs()) | set(['bundled-hash'])):
        prog = ctx.prog(config)
        total_statics = max(total_statics, static_inventory(ck, prog, config, 'C19-a'))
        # ---- f  files are created under names the C library makes unique per call
        from ..rules import extra as _x19
        _x19.check_temp_unique(ck, prog, config, 'C19-f')
        # deny-list
        denied = 0
        sites = 0
        for fn in prog.lib_funcs():
            for ex in all_exprs(fn):
                for c in calls_in(ex):
                    name = callee_name(c)
                    sites += 1
                    if name in MT_UNSAFE:
                        denied += 1
                        ck.ob('C19-b', 'R7.mt-unsafe', fn.name, name, False,
                              'call to %s(): not thread-safe / mutates process-global state' % name,
                              c.file, c.line, config=config)
                    elif name in MT_ALLOWED:
                        ck.ob('C19-b', 'R7.mt-unsafe', fn.name, name, True,
                              'allow-listed: ' + MT_ALLOWED[name], c.file, c.line, config=config)
        ck.ob('C19-b', 'R7.mt-unsafe', '*', 'deny-list over %d library call sites' % sites, True,
              '%d call sites, none on the deny-list' % sites if not denied else '%d denied' % denied,
              trivial=True, config=config)
        ck.extra.setdefault('library_call_sites', {})[config] = sites
        # ---- c  the descriptor table is process-wide: a closed number must not stay in a context
        from ..rules import extra
        nclose = extra.check_fd_release(ck, prog, config, 'C19-c')
        ck.min_instances('close() of a descriptor field in the library', nclose, 3)
    ck.min_instances('objects with static storage in the library', total_statics, 6)


MUTANTS = [
    {'id': 'm19f', 'desc': 'temp file closed early, field kept (seeded c19r2)', 'file': 'src/lib/io.c',
     'old': """    if(read_count == -1)
        return false;
    return true;""", 'new': """    if(read_count == -1)
        return false;
    close(zck->temp_fd);
    return true;""", 'expect': 'R6.fd-release chunks_from_temp'},
    {'id': 'n19f', 'desc': 'temp file closed early and the field reset', 'file': 'src/lib/io.c',
     'old': """    if(read_count == -1)
        return false;
    return true;""", 'new': """    if(read_count == -1)
        return false;
    close(zck->temp_fd);
    zck->temp_fd = 0;
    return true;""", 'expect': None},
    {'id': 'm43', 'desc': 'new file-scope counter updated in dl_write', 'file': 'src/lib/dl/dl.c',
     'old': """        dl->dl_chunk_data += wb;
    }
    return wb;""",
     'new': """        dl->dl_chunk_data += wb;
        total_written += wb;
    }
    return wb;""", 'edits': None, 'expect': 'R7.static-write dl_write'},
    {'id': 'm44', 'desc': 'copy buffer static again', 'file': 'src/lib/dl/dl.c',
     'old': """    char buf[BUF_SIZE] = {0};

    size_t to_read = src_idx->comp_length;""",
     'new': """    static char buf[BUF_SIZE] = {0};

    size_t to_read = src_idx->comp_length;""", 'expect': 'R7.static-write write_and_verify_chunk'},
    {'id': 'm19c', 'desc': 'context pointer cached in a static', 'file': 'src/lib/zck.c',
     'old': """    zck->mode = ZCK_MODE_READ;
    zck->fd = src_fd;
    return true;""",
     'new': """    static zckCtx *last_ctx;
    last_ctx = zck;
    zck->mode = ZCK_MODE_READ;
    zck->fd = src_fd;
    return last_ctx != NULL;""", 'expect': 'R7.static-write zck_init_adv_read'},
    {'id': 'm19d', 'desc': 'strtok in the library', 'file': 'src/lib/zck.c',
     'old': """    if(tmpdir == NULL) {
        tmpdir = "/tmp/";""",
     'new': """    if(tmpdir != NULL && strtok(tmpdir, ":") == NULL) {
        tmpdir = "/tmp/";
    } else if(tmpdir == NULL) {
        tmpdir = "/tmp/";""", 'expect': 'R7.mt-unsafe get_tmp_fd'},
    {'id': 'n19a', 'desc': 'new const table', 'file': 'src/lib/dl/dl.c',
     'old': """/* Free zckDL header regex used for downloading ranges */""",
     'new': """static const char dl_tag[] = "dl";
const char *dl_get_tag(void) { return dl_tag; }
/* Free zckDL header regex used for downloading ranges */""", 'expect': None},
]
_m43 = [m for m in MUTANTS if m['id'] == 'm43'][0]
_m43['edits'] = [('src/lib/dl/dl.c', _m43['old'], _m43['new']),
                       ('src/lib/dl/dl.c', "/* Free zckDL header regex used for downloading ranges */",
                        "static size_t total_written;\n/* Free zckDL header regex used for downloading ranges */")]


# statics that carry text for log messages only: a race on them garbles a message, never data (kept as C19 findings)
LOG_TEXT_STATICS = ('unknown',)


def shared_scratch(ck, prog, config, clause, roots, what):
    """No function on the path of `roots` (closure over resolved calls) writes an object with static storage: such an
    object is one per process, so what one context leaves in it is seen by every other context (another thread, or
    the same thread between two calls), and the result of the operation stops being a function of its own inputs.
    The static inventory of C19 restricted to a property's own path; log-text buffers are left to C19."""
    class Proxy(object):
        def __init__(s):
            s.found = []
            s.n = 0

        def ob(s, cl, rule, function, instance, ok, msg, file=None, line=0, **kw):
            s.n += 1
            if rule == 'R7.static-write' and not ok:
                s.found.append((function, instance, msg, file, line))
            return ok

        def require(s, cond, what_):
            ck.require(cond, what_)

        def __getattr__(s, name):
            return getattr(ck, name)
    px = Proxy()
    static_inventory(px, prog, config, clause)
    rf = [prog.need_func(r) for r in roots]
    seen, _ = prog.reachable_calls(rf)
    names = set(prog.funcs[q].name for q in seen)
    bad = [(f, i, m, fl, ln) for f, i, m, fl, ln in px.found if f in names and i.split('::')[-1] not in LOG_TEXT_STATICS]
    ck.ob(clause, 'R7.shared-scratch', what, 'no-static-writer', not bad,
          '%d function(s) below %s: none writes an object with static storage (%d static object(s) in the library '
          'inventoried)' % (len(names), ', '.join(roots), px.n) if not bad else
          '%s, on the path of %s: %s' % (bad[0][0], ', '.join(roots), bad[0][2]), bad[0][3] if bad else rf[0].file,
          bad[0][4] if bad else rf[0].line, config=config)
    return len(names)

"""C03  Memory safety on arbitrary file input (necessary conditions that are visible in the code).

C03-a  parse-cursor discipline in the header parsers (read_lead, read_preface, index_read, read_sig):
       every raw read of n bytes at base + X is preceded, for the current value of the cursor, by a
       proof of X + n <= limit (a branch whose failing side leaves the function); an advance of the
       cursor needs the same; the checked decoder may be called in any state.
C03-b  decoder contract at every call site: source = base + cursor, cursor passed by address, limit
       argument = the parser's limit; the limit is carried in a 64-bit unsigned object (no int narrowing).
C03-c  non-empty chunk list: every success exit of index_read has passed a guard that rejects an empty list
       (consumers dereference index.first unconditionally).
C03-d  a division whose divisor is read from the file (zck_get_* result) has a dominating non-zero test.
C03-e  string-table lookups by a file-supplied code are bounded above (codes are non-negative ints, C03-f).
C03-f  the integer decoder the parsers rely on: bounded reads, no wrap on accepting paths, values above INT_MAX
       rejected before narrowing (the interval interpretation of C20-a..c, reported here as well).
C03-h  a (buffer, length) pair of a context never records more bytes than the block allocated on the same path
       holds (header/header_size, mp->buffer/buffer_len, comp.data/data_size, dc_data/dc_data_size,
       index_string/index_size): linear values plus the comparison facts of the path; contradictory paths skipped.
Declined: memory safety as a whole, absence of hangs, safety of zstd/OpenSSL.
"""
from ..flow import M1, NEG, Z, P1, POS, POSITIVE, TOP, NONNEG, mask_str, Engine, Rule
from ..ir import strip, strip_transparent, show, callee_name, const_value, walk, walk_stmts, calls_in, type_width, \
    is_unsigned_type
from ..program import rel, all_exprs, unique_defs
from ..rules.common import (FactRule, SymRule, GuardRule, run_rule, call_name, calls_of, pstr, last_field, Lin, lin,
                            atom_cmp, origin_names, CMP_FLIP)

PARSERS = {
    # function: (base pointer, cursor, limit)
    'read_lead': ('header', 'length', 'lead'),
    'read_preface': ('header', 'length', 'max_length'),
    'index_read': ('data', 'length', 'max_length'),
    'read_sig': ('header', 'length', 'max_length'),
}
RAW_READS = {'memcpy': (1, 2, (1,)), 'memcmp': (0, 2, (0, 1)), 'strncmp': (0, 2, (0, 1)), 'memmove': (1, 2, (1,))}
DECODERS = ('compint_to_size', 'compint_to_int')


class CursorRule(SymRule):
    name = 'R5.cursor'

    def __init__(self, prog, fn, base, cursor, limit):
        SymRule.__init__(self, prog, fn)
        self.base, self.cursor, self.limit = base, cursor, limit
        self.reads = 0
        self.advances = 0
        self.decodes = 0
        self.var = {}
        for d, v in list(fn.locals.items()) + [(p.decl, p) for p in fn.params]:
            self.var[v.op] = v

    def facts(self, ts):
        return [it[1] for it in ts if isinstance(it, tuple) and len(it) == 2 and it[0] == 'le']

    def base_value(self, ts):
        v = self.var.get(self.base)
        if v is None:
            return None
        return self.value(v, ts)

    def limit_value(self, ts):
        v = self.var.get(self.limit)
        if v is None:
            return None
        return self.value(v, ts)

    def proven(self, need, ts):
        """need <= 0 ?"""
        if need is None:
            return False
        if need.is_const():
            return need.c <= 0
        for f in self.facts(ts):
            d = need - f
            if d.is_const() and d.c <= 0:
                return True
        return False

    def on_edge(self, ctx, node, label, refined, ts):
        if ctx.fn is not self.fn:
            return ts
        op, l, r = atom_cmp(node.e, label)
        names = set(n.op for n in walk(node.e) if n.k == 'var')
        if self.cursor not in names and self.limit not in names:
            return ts
        lv, rv = self.value(l, ts), self.value(r, ts)
        if lv is None or rv is None:
            return ts
        # unsigned wrap-around: a comparison whose operand is a SUM containing a 64-bit quantity decoded from the
        # input proves nothing (the sum can wrap); the subtraction form `v > limit - cursor` does not have that
        # problem as long as cursor <= limit, which the decoder guarantees
        for side in (l, r):
            ss = strip(side)
            if ss is not None and ss.k == 'bin' and ss.op == '+':
                for n in walk(ss):
                    if n.k == 'var' and n.op not in (self.cursor, self.limit):
                        v = self.value(n, ts)
                        from ..ir import type_width
                        if v is not None and any('#' in k for k in v.t) and type_width(n.t, n.dt) == 64:
                            self.wrap_skipped = getattr(self, 'wrap_skipped', 0) + 1
                            return ts
        new = None
        if op == '<=':
            new = lv - rv
        elif op == '<':
            new = lv - rv + Lin(None, 1)
        elif op == '>=':
            new = rv - lv
        elif op == '>':
            new = rv - lv + Lin(None, 1)
        elif op == '==':
            ts = ts | frozenset([('le', lv - rv), ('le', rv - lv)])
        if new is not None and not new.is_const():
            ts = ts | frozenset([('le', new)])
        return ts

    def offset_of(self, e, ts):
        """X such that e = base + X, or None."""
        v = self.value(e, ts)
        b = self.base_value(ts)
        if v is None or b is None:
            return None
        d = v - b
        # the base pointer must cancel out completely
        for k in b.t:
            if k in d.t:
                return None
        # a pointer expression unrelated to the base
        names = set(v.t)
        if not (set(b.t) & names):
            return None
        return d

    def sym_call(self, ctx, call, ts):
        n = callee_name(call)
        args = call.a[1:]
        if n in RAW_READS:
            dst, ln, srcs = RAW_READS[n]
            for si in srcs:
                if si >= len(args):
                    continue
                off = self.offset_of(args[si], ts)
                if off is None:
                    continue
                self.reads += 1
                nv = self.value(args[ln], ts)
                lim = self.limit_value(ts)
                need = None if nv is None or lim is None else off + nv - lim
                if not self.proven(need, ts):
                    self.violate(ctx, 'unchecked-read', '%s reads %s bytes at %s + (%r) without a preceding proof that '
                                 'it ends within the limit %s (needs %r <= 0)' % (
                                     n, show(args[ln]), self.base, off, self.limit, need), inst='read:%s' % pstr(args[dst] if n == 'memcpy' else args[si]).split('->')[-1])
        if n in DECODERS:
            self.decodes += 1
            off = self.offset_of(args[2], ts)
            cur = self.var.get(self.cursor)
            cv = self.value(cur, ts) if cur is not None else None
            a3 = strip(args[3])
            by_addr = a3.k == 'un' and a3.op == '&' and pstr(a3.a[0]) == self.cursor
            okoff = off is not None and cv is not None and off == cv
            oklim = pstr(args[4]) == self.limit
            if not (by_addr and okoff and oklim):
                self.violate(ctx, 'decoder-contract', '%s(%s, %s, %s): source must be %s + %s, the cursor passed by '
                             'address and the limit %s' % (n, show(args[2]), show(args[3]), show(args[4]), self.base,
                                                           self.cursor, self.limit), inst='decode@%d' % self.decodes)
        return ts

    def sym_assign(self, ctx, lhs, rhs, op, ts):
        l = strip(lhs)
        if l.k == 'var' and l.op == self.cursor and op in ('+=',) and rhs is not None:
            self.advances += 1
            # value after the advance is already in ts; the obligation is on the new value
            cur = self.value(lhs, ts)
            lim = self.limit_value(ts)
            need = None if cur is None or lim is None else cur - lim
            if not self.proven(need, ts):
                self.violate(ctx, 'unchecked-advance', 'cursor %s advanced by %s without a proof that it stays within '
                             '%s (needs %r <= 0): the next read starts outside the header' % (
                                 self.cursor, show(rhs), self.limit, need), inst='advance:%s' % pstr(rhs).split('->')[-1])
        return ts


def discover_cursor(fn, calls):
    """(base, cursor, limit) variable names shared by the decoder calls of a parser, or None."""
    subst = unique_defs(fn)
    trips = set()
    for c in calls:
        a = c.a[1:]
        if len(a) < 5:
            return None
        cur = strip(a[3])
        if cur.k != 'un' or cur.op != '&' or strip(cur.a[0]).k != 'var':
            return None
        cname = strip(cur.a[0]).op
        lim = strip(a[4])
        if lim.k != 'var':
            return None
        src = lin(a[2], None)
        if src is None:
            return None
        bases = [k for k in src.t if k != cname]
        if len(bases) != 1 or src.t[bases[0]] != 1:
            return None
        trips.add((bases[0], cname, lim.op))
    if len(trips) != 1:
        return None
    return list(trips)[0]


def cursor_clauses(ck, prog, config, ca='C03-a', cb='C03-b'):
    """Parse-cursor discipline of the four header parsers (shared with C13-d)."""
    # the parser table is discovered: every library function that calls a decoder is a parser, and its base,
    # cursor and limit are read off its decoder calls (source = base + cursor, &cursor, limit); the frozen table
    # above only says how many parsers the reference tree has
    found = {}
    for fn in sorted(prog.lib_funcs(), key=lambda f: f.qname):
        if fn.name in ('compint_to_int',):
            continue
        cs = calls_of(fn, DECODERS)
        if not cs:
            continue
        trip = discover_cursor(fn, cs)
        ck.require(trip is not None, '%s decodes compressed integers but its calls do not share one (base + cursor, '
                   '&cursor, limit) shape' % fn.name)
        found[fn.name] = (fn, trip)
    ck.min_instances('header parsers (functions calling the integer decoder)', len(found), len(PARSERS))
    total_reads = total_adv = total_dec = 0
    for name, (fn, (base, cursor, limit)) in sorted(found.items()):
        r = CursorRule(prog, fn, base, cursor, limit)
        ck.require(base in r.var and cursor in r.var and limit in r.var,
                   '%s: base/cursor/limit (%s, %s, %s) not found' % (name, base, cursor, limit))
        run_rule(prog, fn, r)
        total_reads += r.reads
        total_adv += r.advances
        total_dec += r.decodes
        by = {}
        for v in r.violations:
            by.setdefault(v.inst, v)
        if not by:
            ck.ob(ca, 'R5.cursor', name, 'cursor-discipline', True,
                  '%d raw read state(s), %d cursor advance(s), %d decoder call state(s): every one within the limit '
                  '%s' % (r.reads, r.advances, r.decodes, limit), fn.file, fn.line, config=config,
                  sample={'parser': name, 'base': base, 'cursor': cursor, 'limit': limit, 'raw_reads': r.reads,
                          'advances': r.advances, 'decoder_calls': r.decodes})
        for inst, v in sorted(by.items()):
            clause = cb if inst.startswith('decode') else ca
            ck.ob(clause, 'R5.cursor', name, inst, False, v.msg, v.node.file, v.node.line, path=v.path,
                  config=config)
        # limit object width
        lv = r.var[limit]
        w = type_width(lv.t, lv.dt)
        okw = w == 64 and is_unsigned_type(lv.t, lv.dt)
        if name == 'read_lead':
            okw = True   # constant 5 + 2*MAX_COMP_SIZE (+ digest size), an int is wide enough
        ck.ob(cb, 'R9.width', name, 'limit:%s' % limit, okw,
              'limit %s has type %s' % (limit, lv.t) + ('' if okw else ': a header size above INT_MAX is narrowed'),
              lv.file, lv.line, config=config)
    ck.min_instances('raw reads in the parsers', total_reads, 5)
    ck.min_instances('decoder calls in the parsers', total_dec, 13)


def run(ctx):
    ck = ctx.check
    ck.explanation = (
        'Parse-cursor typestate with flow-sensitive linear values: facts "L <= 0" are gained from the branch edges of '
        'each parser (evaluated over the current symbolic value of the cursor, which gets a fresh symbol whenever the '
        'decoder moves it), and every raw read / cursor advance must be implied by such a fact; decoder calls must '
        'follow the (base + cursor, &cursor, limit) contract that C20 relies on; producer guard for the non-empty '
        'chunk list; non-zero test before divisions by file-supplied counts; bounded table lookups.  These are '
        'necessary conditions of C03; memory safety as a whole and absence of hangs are declined.')
    ck.declined += ['memory safety as a whole (no sound memory-safety analyser for C is available here)',
                    'absence of hangs', 'safety of zstd / OpenSSL']
    for config in ctx.configs():
        prog = ctx.prog(config)
        cursor_clauses(ck, prog, config)
        # callers that compute a limit and pass it on (read_index -> index_read)
        ri = prog.need_func('read_index')
        for c in calls_of(ri, ('index_read',)):
            a = strip(c.a[4])
            t_ok = True
            why = show(c.a[4])
            for n in walk(c.a[4]):
                if n.k == 'cast' and n.op == 'IntegralCast':
                    inner = strip(n)
                    if type_width(inner.t, inner.dt) == 32:
                        t_ok = False
                        why = '%s is carried in a 32-bit %s before being passed as the size_t limit' % (show(inner), inner.t)
            ck.ob('C03-b', 'R9.width', ri.name, 'limit-passed', t_ok,
                  'limit passed to index_read: %s' % why, c.file, c.line, config=config)
        # ---- c
        ir = prog.need_func('index_read')
        patterns = [('nonempty', lambda op, lp, rp: (
            (lp.endswith('index.first') and op == '!=' and rp == '#0') or
            (lp in ('count', 'index_count', 'zck->index.count') and (
                (op == '>' and rp == '#0') or (op == '>=' and rp == '#1') or (op == '!=' and rp == '#0')))))]
        gr = GuardRule(prog, ir, patterns, vocab=('first', 'count', 'index_count'), inline=False)
        nsucc = []

        def gret(c2, node, mask, ts, gr=gr):
            if c2.fn is ir and mask & (P1 | POS):
                nsucc.append(1)
                if 'nonempty' not in gr.have(ts):
                    gr.violate(c2, 'empty-list', 'index_read succeeds without having rejected an empty chunk list: '
                               'zck_get_data_length, comp_read and import_dict dereference index.first '
                               'unconditionally', inst='nonempty', node=node)
            return ts
        gr.guard_return = gret
        run_rule(prog, ir, gr)
        ck.require(len(nsucc) >= 1, 'index_read has no success exit')
        ck.ob('C03-c', 'R10.nonempty', ir.name, 'producer-guard', not gr.violations,
              'every success exit of index_read has rejected an empty chunk list' if not gr.violations else
              gr.violations[0].msg, ir.file, gr.violations[0].node.line if gr.violations else ir.line,
              path=gr.violations[0].path if gr.violations else None, config=config)
        # ---- d
        ndiv = 0
        for fn in prog.funcs.values():
            if prog.is_lib_unit(fn.unit):
                continue

            class Div(Rule):
                name = 'R9.div'
                interprocedural = False

                def __init__(s):
                    s.found = []

                def adjust_tracked(s, f, default, eligible):
                    # track every local assigned from a call
                    extra = set()
                    for st_ in walk_stmts(f.body):
                        if st_.k == 'decl' and st_.e is not None and any(x.k == 'call' for x in walk(st_.e)):
                            extra.add(st_.var.decl)
                    return default | (extra & eligible)

                def on_node(s, c2, node, ts):
                    if node.e is not None:
                        for n in walk(node.e):
                            if n.k == 'bin' and n.op in ('/', '%', '/=', '%='):
                                d = n.a[1]
                                if const_value(d) is not None:
                                    continue
                                from_file = any(x.k == 'call' and (callee_name(x) or '').startswith('zck_get_')
                                                for x in walk(d)) or \
                                    any(o.startswith('zck_get_') for o in c2.origins(d))
                                if not from_file:
                                    continue
                                m = c2.value(d)
                                s.found.append((n, bool(m & Z), node))
                    return ts
            dr = Div()
            eng = Engine(prog, dr)
            eng.summary(fn, 0)
            seen = set()
            for n, mayzero, node in dr.found:
                key = n.uid
                if key in seen and not mayzero:
                    continue
                if mayzero:
                    seen.add(('bad', key))
                seen.add(key)
            for n, mayzero, node in dr.found:
                pass
            byuid = {}
            for n, mayzero, node in dr.found:
                byuid[n.uid] = byuid.get(n.uid, False) or mayzero
                byuid[('n', n.uid)] = n
            k = 0
            for uid, mz in sorted((u, m) for u, m in byuid.items() if not isinstance(u, tuple)):
                n = byuid[('n', uid)]
                k += 1
                ndiv += 1
                ck.ob('C03-d', 'R9.div', fn.name, 'division@%s#%d' % (rel(fn.unit).split('/')[-1], k), not mz,
                      'divisor %s is known non-zero here' % show(n.a[1]) if not mz else
                      'division by %s, a count read from the file that may be 0 (SIGFPE on a header claiming 0 chunks)'
                      % show(n.a[1]), n.file, n.line, config=config)
        ck.min_instances('divisions by file-supplied values in the tools', ndiv, 1)
        # ---- g  conditionally allocated digests; stored-then-freed pointers
        from ..rules import extra
        nk = extra.check_nullable_key(ck, prog, config, 'C03-g')
        ck.min_instances('uses of the conditionally allocated uncompressed digest', nk, 2)
        extra.check_own_then_free(ck, prog, config, 'C03-g')
        # ---- h  a recorded buffer length never exceeds the block it describes
        from ..rules import sizepair
        sizepair.check_size_pairs(ck, prog, config, 'C03-h', min_exits=10)
        # ---- f  the integer decoder every parser relies on (same analysis as C20-a..c)
        from . import c20
        c20.decoder(ck, prog, config, ca='C03-f', cb='C03-f', cc='C03-f', cd='C03-f')
        # ---- i  bytes read from a descriptor into a block allocated in the same function fit the block
        from ..rules import extent
        nx = extent.check_buffer_extents(ck, prog, config, 'C03-i')
        ck.min_instances('descriptor reads into same-function allocations', nx, 3)
        # ---- j  transfers to / from fixed-size arrays (locals, statics, file scope) stay inside the array
        from ..rules import arrayext
        na = arrayext.check_array_extents(ck, prog, config, 'C03-j', scope='all')
        ck.min_instances('(call, fixed-size array) sites', na, 6)
        # ---- l  copies and stores into blocks allocated in the file parsers stay inside the allocation (the rule of
        #         C17-b over the functions that parse a file)
        from .c17 import AllocRule as _AR
        nl = 0
        for name_ in ('read_preface', 'index_read', 'read_lead', 'read_header_from_file', 'import_dict', 'comp_add_to_dc',
                      'comp_add_to_data', 'get_digest_string'):
            fl_ = [f_ for f_ in prog.lib_funcs() if f_.name == name_]
            if len(fl_) != 1:
                continue
            a_ = _AR(prog, fl_[0])
            a_.use_facts = name_ in ('get_digest_string',)
            run_rule(prog, fl_[0], a_)
            nl += a_.checked
            by_ = {}
            for v_ in a_.violations:
                by_.setdefault(v_.inst, v_)
            if not by_:
                ck.ob('C03-l', 'R4.alloc-copy', name_, 'copies', True,
                      '%d copy/store state(s) into same-function allocations, all within the allocated size' % a_.checked,
                      fl_[0].file, fl_[0].line, config=config, trivial=a_.checked == 0)
            for inst_, v_ in sorted(by_.items()):
                ck.ob('C03-l', 'R4.alloc-copy', name_, inst_, False, v_.msg, v_.node.file, v_.node.line, path=v_.path,
                      config=config)
        ck.min_instances('copies into same-function allocations of the file parsers', nl, 4)
        # ---- k  a failed zrealloc() through a temporary never leaves the field dangling
        from ..rules import extra as _x3k
        _x3k.check_realloc_keep(ck, prog, config, 'C03-k')
        # ---- e
        for name, table in (('zck_comp_name_from_type', 'COMP_NAME'), ('zck_hash_name_from_type', 'HASH_NAME')):
            fn = prog.need_func(name)
            g = [x for x in prog.globals if x.name == table and x.unit == fn.unit]
            ck.require(len(g) == 1, 'table %s not found' % table)
            nelem = None
            import re
            m = re.search(r'\[(\d+)\]', g[0].type or '')
            if m:
                nelem = int(m.group(1))
            ck.require(nelem is not None, 'size of %s unknown' % table)

            class Idx(Rule):
                name = 'R9.index'
                interprocedural = False

                def __init__(s):
                    s.bad = []
                    s.n = 0

                def adjust_tracked(s, f, default, eligible):
                    return default | (set(p.decl for p in f.params) & eligible)

                def on_node(s, c2, node, ts):
                    return ts
            # interval reasoning with the IntervalInterp: parameter is any int
            from ..rules.absint import IntervalInterp
            it = IntervalInterp(prog, fn, (), ())
            p = fn.params[0]
            subs = []
            orig_ev = it.ev

            def ev(e, st, it=it, subs=subs, orig_ev=orig_ev):
                if e is not None and e.k == 'idx':
                    b = strip(e.a[0])
                    if b.k == 'var' and b.op == table:
                        subs.append((orig_ev(e.a[1], st), e.line))
                return orig_ev(e, st)
            it.ev = ev
            it.run({('v', p.decl, p.op): (0, 2 ** 31 - 1)})   # codes read from a file are non-negative ints (C20-c)
            ck.require(len(subs) >= 1, '%s: lookup in %s not found' % (name, table))
            bad = [(iv, line) for iv, line in subs if iv is None or iv[0] < 0 or iv[1] >= nelem]
            ck.ob('C03-e', 'R9.index', name, table, not bad,
                  '%s[...] is indexed within [0, %d] for every code a file can supply (non-negative int, C20-c)' % (table, nelem - 1) if not bad else
                  '%s[...] indexed with a value in [%s, %s] but has %d entries (the code is read from the file)' % (
                      table, bad[0][0][0] if bad[0][0] else '?', bad[0][0][1] if bad[0][0] else '?', nelem),
                  fn.file, bad[0][1] if bad else fn.line, config=config)


CLAIM = {
    'technique': 'parse-cursor typestate with flow-sensitive linear facts (bound before every raw read / advance), '
                 'decoder-contract check, producer guard typestate (non-empty list), class-engine non-zero test before '
                 'divisions, interval check of table subscripts, size-pair rule (recorded buffer length <= allocation made on the path, linear facts), own-then-free with callee-keeps summaries',
    'text': 'static analysis: decides necessary conditions C03-a..e of memory safety on file input - every raw read '
            'and cursor advance in the four header parsers is implied by a preceding bound check on the current cursor '
            'value; decoder calls follow the (base+cursor, &cursor, limit) contract with 64-bit limits; a successful '
            'index parse guarantees a non-empty chunk list; file-supplied divisors are tested non-zero; name tables '
            'are indexed in range for every int. Memory safety as a whole and hangs are NOT decided. C03-g/h: a block handed to a callee that keeps it is not freed by the caller; a recorded buffer length never exceeds the block allocated on the same path.',
    'note': 'trusted: clang 14 front end; header buffer size = lead_size + header_length (read_header_from_file); '
            'C20 for the decoder itself',
}

MUTANTS = [
    {'id': 'm03s', 'desc': 'read_lead shrinks the read-ahead buffer again (pre-fix form)', 'file': 'src/lib/header.c',
     'old': """    if(lead < length + zck->hash_type.digest_size) {
        header = zrealloc(header, length + zck->hash_type.digest_size);
        if (!header) {
            zck_log(ZCK_LOG_ERROR, "OOM in %s", __func__);
            return false;
        }
        to_read = length + zck->hash_type.digest_size - lead;
    }""", 'new': """    header = zrealloc(header, length + zck->hash_type.digest_size);
    if (!header) {
        zck_log(ZCK_LOG_ERROR, "OOM in %s", __func__);
        return false;
    }
    if(lead < length + zck->hash_type.digest_size)
        to_read = length + zck->hash_type.digest_size - lead;""", 'expect': 'R4.size-pair read_lead'},
    {'id': 'n03s', 'desc': 'grow-only realloc written with two separate tests (infeasible mixed path)',
     'file': 'src/lib/header.c',
     'old': """    if(lead < length + zck->hash_type.digest_size) {
        header = zrealloc(header, length + zck->hash_type.digest_size);
        if (!header) {
            zck_log(ZCK_LOG_ERROR, "OOM in %s", __func__);
            return false;
        }
        to_read = length + zck->hash_type.digest_size - lead;
    }""", 'new': """    if(length + zck->hash_type.digest_size > lead) {
        header = zrealloc(header, length + zck->hash_type.digest_size);
        if (!header) {
            zck_log(ZCK_LOG_ERROR, "OOM in %s", __func__);
            return false;
        }
    }
    if(lead < length + zck->hash_type.digest_size)
        to_read = length + zck->hash_type.digest_size - lead;""", 'expect': None},
    {'id': 'm03t', 'desc': 'multipart carry-over records more than it allocated', 'file': 'src/lib/dl/multipart.c',
     'old': '                mp->buffer_len = size;', 'new': '                mp->buffer_len = l;',
     'expect': 'R4.size-pair multipart_extract'},
    {'id': 'm52', 'desc': 'second digest bound check removed', 'file': 'src/lib/index/index_read.c',
     'old': """            if(length + zck->index.digest_size > max_length) {
                set_fatal_error(zck, "Read past end of header");
                free(new->digest);
                free(new);
                return false;
            }
            /* same size for digest as compressed */""", 'new': """            /* same size for digest as compressed */""",
     'expect': 'R5.cursor index_read'},
    {'id': 'm53', 'desc': 'optional element size unchecked', 'file': 'src/lib/header.c',
     'old': """            if(data_size > max_length - length) {
                set_fatal_error(zck, "Read past end of header");
                return false;
            }""", 'new': '', 'expect': 'R5.cursor read_preface'},
    {'id': 'm54', 'desc': 'empty index accepted', 'file': 'src/lib/index/index_read.c',
     'old': """    if(count == 0) {""", 'new': """    if(count < 0) {""", 'expect': 'R10.nonempty index_read'},
    {'id': 'm55', 'desc': 'division without the zero test', 'file': 'src/zck_delta_size.c',
     'old': """    if(chunk_count > 0)
        match_pct = matched_chunks * 100 / chunk_count;""",
     'new': """    match_pct = matched_chunks * 100 / chunk_count;""", 'expect': 'R9.div main'},
    {'id': 'm03f', 'desc': 'first digest check off by one field', 'file': 'src/lib/index/index_read.c',
     'old': """        if(length + zck->index.digest_size > max_length) {
            set_fatal_error(zck, "Read past end of header");
            return false;
        }

        zckChunk *tmp = NULL;""", 'new': """        if(length > max_length) {
            set_fatal_error(zck, "Read past end of header");
            return false;
        }

        zckChunk *tmp = NULL;""", 'expect': 'R5.cursor index_read'},
    {'id': 'm03g', 'desc': 'preface digest read before the check', 'file': 'src/lib/header.c',
     'old': """    if(length + zck->hash_type.digest_size > max_length) {
        set_fatal_error(zck, "Read past end of header");
        return false;
    }
    zck->full_hash_digest""", 'new': """    if(length > max_length) {
        set_fatal_error(zck, "Read past end of header");
        return false;
    }
    zck->full_hash_digest""", 'expect': 'R5.cursor read_preface'},
    {'id': 'm03h', 'desc': 'name table upper bound off by one', 'file': 'src/lib/comp/comp.c',
     'old': 'if(comp_type > 2) {', 'new': 'if(comp_type > 3) {', 'expect': 'R9.index zck_comp_name_from_type'},
    {'id': 'm03i', 'desc': 'index limit carried in an int', 'file': 'src/lib/header.c',
     'old': 'size_t max_length = zck->header_size - (zck->lead_size + zck->preface_size);\n    if(!index_read',
     'new': 'int max_length = zck->header_size - (zck->lead_size + zck->preface_size);\n    if(!index_read',
     'expect': 'R9.width read_index'},
    {'id': 'n03a', 'desc': 'bound check written the other way round', 'file': 'src/lib/header.c',
     'old': """    if(length + zck->hash_type.digest_size > max_length) {
        set_fatal_error(zck, "Read past end of header");
        return false;
    }
    zck->full_hash_digest""", 'new': """    if(max_length < zck->hash_type.digest_size + length) {
        set_fatal_error(zck, "Read past end of header");
        return false;
    }
    zck->full_hash_digest""", 'expect': None},
]


# SESSION7 additions to the claim (clauses added in DESIGN section 12)
CLAIM['technique'] += '; fixed-size array extents (R4.array-extent: transfers, subscripts and helper summaries against sizeof(array), linear values + Fourier-Motzkin, field value sets as bounds, local pointers into arrays followed)'
CLAIM['text'] += ' C03-j: every transfer to or from a fixed-size array (local, static, file scope), every subscript and every helper that touches bytes behind a pointer parameter stays inside the array on all paths.'

MUTANTS += [
    {'id': 'm03j', 'desc': 'zero block shorter than the writes from it (seeded c17r7)', 'file': 'src/lib/dl/dl.c',
     'old': """    char buf[BUF_SIZE] = {0};
    size_t to_read = tgt_idx->comp_length;""", 'new': """    char buf[4096] = {0};
    size_t to_read = tgt_idx->comp_length;""", 'expect': 'R4.array-extent zero_chunk'},
]


# SESSION7b additions to the claim (round 8, DESIGN 12.6)
CLAIM['technique'] += '; realloc-keep typestate (a failed zrealloc through a temporary never leaves the field dangling)'
CLAIM['text'] += ' C03-k: every exit behind the failure edge of zrealloc(field) has reassigned the field.'


# SESSION7c additions to the claim (round 9, DESIGN 12.7)
CLAIM['technique'] += '; alloc-copy rule over the file parsers'
CLAIM['text'] += ' C03-l: copies and stores into blocks allocated in the file parsers stay inside the allocation.'

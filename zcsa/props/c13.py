"""C13  Reported metadata equals the file's; unrepresentable values are rejected (mechanism part).

C13-a  getter table: each zck_get_* accessor returns the field it names (frozen table of linear forms /
       argument paths).
C13-b  count consistency: every success exit of index_read lies on an equality edge between the number of
       entries parsed and the count read from the file; at least one entry (C03-c).
C13-c  layout agreement: the ordered field sequences of the reader (read_lead, read_preface, index_read,
       read_sig), of the writer (lead_create, preface_create, index_create, sig_create) and of the
       specification table are equal.
C13-g  no comparison in the header/index parsers, the integer codec or zck_read_header narrows an operand
       before comparing it (a count equal to the real one modulo 2^32 would pass the count gate).
C13-d  narrowing: compint_to_int rejects values above INT_MAX (C20-c); limits are 64 bit (C03-b).
C13-e  offsets: in index_read a chunk's start is the running sum of the stored sizes of its predecessors.
C13-f  flag word: get_flags() inverts check_flags() for every accepted flag word (interval interpretation
       over the stored flag fields).
Declined: equality with an independent parser on all headers.
"""
from ..flow import M1, NEG, Z, P1, POS
from ..ir import strip, strip_transparent, show, callee_name, const_value, walk, walk_stmts, calls_in
from ..program import rel, all_exprs, unique_defs
from ..rules.common import (FactRule, SymRule, GuardRule, run_rule, calls_of, pstr, last_field, Lin, lin, atom_cmp)
from ..rules.absint import IntervalInterp
from . import c20

HL = 'zck_get_header_length(idx->zck)'
GETTERS = {
    # name: expected value of the last (non-guard) return, as a linear form / path rendering
    'zck_get_header_length': Lin({'zck->lead_size': 1, 'zck->header_length': 1}),
    'zck_get_lead_length': Lin({'zck->lead_size': 1}),
    'zck_get_length': Lin({'zck_get_header_length(zck)': 1, 'zck_get_data_length(zck)': 1}),
    'zck_get_data_length': Lin({'idx->start': 1, 'idx->comp_length': 1}),
    'zck_get_flags': Lin({'get_flags(zck)': 1}),
    'zck_get_chunk_count': Lin({'zck->index.count': 1}),
    'zck_get_chunk_start': Lin({'idx->start': 1, HL: 1}),
    'zck_get_chunk_size': Lin({'idx->length': 1}),
    'zck_get_chunk_comp_size': Lin({'idx->comp_length': 1}),
    'zck_get_chunk_number': Lin({'idx->number': 1}),
    'zck_get_chunk_valid': Lin({'idx->valid': 1}),
    'zck_get_full_hash_type': Lin({'zck->hash_type.type': 1}),
    'zck_get_full_digest_size': Lin({'zck->hash_type.digest_size': 1}),
    'zck_get_chunk_hash_type': Lin({'zck->index.hash_type': 1}),
    'zck_get_chunk_digest_size': Lin({'zck->index.digest_size': 1}),
    'zck_get_first_chunk': Lin({'zck->index.first': 1}),
    'zck_get_next_chunk': Lin({'idx->next': 1}),
    'zck_get_src_chunk': Lin({'idx->src': 1}),
    'zck_get_header_digest': Lin({'get_digest_string(zck->header_digest, zck->hash_type.digest_size)': 1}),
    'zck_get_data_digest': Lin({'get_digest_string(zck->full_hash_digest, zck->hash_type.digest_size)': 1}),
    'zck_get_chunk_digest': Lin({'get_digest_string(item->digest, item->digest_size)': 1}),
    'zck_get_chunk_digest_uncompressed': Lin({'get_digest_string(item->digest_uncompressed, item->digest_size)': 1}),
    'zck_is_detached_header': Lin({'zck->header_only': 1}),
}

# specification table (zchunk_format.txt): (kind, canonical field)
SPEC = {
    'lead': [('bytes5', 'magic'), ('ci', 'hash_type'), ('ci', 'header_length'), ('digest', 'header_digest')],
    'preface': [('digest', 'data_digest'), ('ci', 'flags'), ('ci', 'comp_type'), ('ci', 'index_size')],
    'index': [('ci', 'chunk_hash_type'), ('ci', 'chunk_count'),
              ('loop', [('digest', 'chunk_digest'), ('digest?', 'chunk_digest_uncompressed'), ('ci', 'comp_length'),
                        ('ci', 'length')])],
    'sig': [('ci', 'sig_count')],
}
CANON = {
    # reader targets / writer sources -> canonical field
    'hash_type': 'hash_type', 'zck->hash_type.type': 'hash_type',
    'header_length': 'header_length', 'zck->header_length': 'header_length',
    'zck->header_digest': 'header_digest', 'zck->full_hash_digest': 'data_digest',
    'flags': 'flags', 'get_flags(zck)': 'flags', 'tmp': None, 'zck->comp.type': 'comp_type',
    'zck->index_size': 'index_size', 'index_count': 'chunk_count', 'zck->index.count': 'chunk_count',
    'zck->index.hash_type': 'chunk_hash_type', 'new->digest': 'chunk_digest', 'tmp->digest': 'chunk_digest',
    'new->digest_uncompressed': 'chunk_digest_uncompressed', 'tmp->digest_uncompressed': 'chunk_digest_uncompressed',
    'chunk_length': None, 'tmp->comp_length': 'comp_length', 'tmp->length': 'length',
    'new->comp_length': 'comp_length', 'new->length': 'length',
    'zck->sigs.count': 'sig_count', 'opt_count': 'opt_count', 'id': 'opt_id', 'data_size': 'opt_size',
}


CHUNK_FIELDS = {'digest': 'chunk_digest', 'digest_uncompressed': 'chunk_digest_uncompressed',
                'comp_length': 'comp_length', 'length': 'length'}


def canon_name(name):
    """Canonical field of a reader target / writer source.  A field of a chunk reached through a local (whatever
    the local is called) is named by the field."""
    if name in CANON:
        return CANON[name]
    if name.count('->') == 1:
        root, f = name.split('->')
        if root != 'zck' and f in CHUNK_FIELDS:
            return CHUNK_FIELDS[f]
    return name


def reader_sequence(fn):
    """Ordered parse steps of a reader function: ('ci', target) for decoder calls, ('digest', target) for
    memcpy of a digest from the header, ('bytes5','magic') for the magic compare.  Targets that are
    scratch locals are resolved to the field they are stored into next."""
    subst = unique_defs(fn)
    steps = []

    def visit(body, out):
        for s in (body if isinstance(body, list) else [body]):
            if s is None:
                continue
            if s.k == 'compound':
                visit(s.body, out)
                continue
            if s.k in ('while', 'for', 'do'):
                inner = []
                visit(s.body, inner)
                if inner:
                    out.append(('loop', inner))
                continue
            if s.k == 'if':
                cond_calls = [c for c in calls_in(s.e)] if s.e is not None else []
                for c in cond_calls:
                    step(c, out, s)
                inner = []
                visit(s.then, inner)
                opt = any(n.k == 'mem' and n.op in ('has_uncompressed_source', 'has_optional_elems')
                          for n in walk(s.e)) if s.e is not None else False
                for st_ in inner:
                    if opt and st_[0] == 'digest':
                        out.append(('digest?', st_[1]))
                    elif opt and st_[0] in ('ci', 'loop'):
                        out.append(('opt', st_))
                    else:
                        out.append(st_)
                if s.els is not None:
                    visit(s.els, out)
                continue
            exprs = [s.e] if s.e is not None else []
            for e in exprs:
                for c in calls_in(e):
                    step(c, out, s)
                # store of a scratch value into a field: tmp -> field
                se = strip(e)
                if se.k == 'bin' and se.op == '=':
                    lhs, rhs = pstr(se.a[0], subst), pstr(se.a[1], subst)
                    for i in range(len(out) - 1, -1, -1):
                        # a scratch local (listed as such, or any plain identifier): named after the field it is stored in
                        if out[i][0] == 'ci' and out[i][1] == rhs and (CANON.get(rhs, rhs) is None or (
                                rhs.replace('_', 'a').isalnum() and ('->' in lhs or '.' in lhs))):
                            out[i] = ('ci', lhs)
                            break

    def step(c, out, s):
        n = callee_name(c)
        if n in ('compint_to_size', 'compint_to_int'):
            tgt = strip(c.a[2])
            t = pstr(tgt.a[0], subst) if tgt.k == 'un' and tgt.op == '&' else pstr(tgt, subst)
            out.append(('ci', t))
        elif n == 'memcpy':
            dst = pstr(c.a[1], subst)
            if 'digest' in dst:
                out.append(('digest', dst))
        elif n == 'memcmp' and len(c.a) > 3 and const_value(c.a[3]) == 5:
            if not any(x == ('bytes5', 'magic') for x in out):
                out.append(('bytes5', 'magic'))
        elif n == 'comp_ioption' and len(c.a) > 3:
            # comp type: tmp handed to the option setter
            rhs = pstr(c.a[3], subst)
            for i in range(len(out) - 1, -1, -1):
                if out[i][0] == 'ci' and out[i][1] == rhs:
                    out[i] = ('ci', 'zck->comp.type')
                    break
    visit(fn.body, steps)
    return steps


def writer_sequence(fn):
    subst = unique_defs(fn)
    steps = []

    def visit(body, out):
        for s in (body if isinstance(body, list) else [body]):
            if s is None:
                continue
            if s.k == 'compound':
                visit(s.body, out)
                continue
            if s.k in ('while', 'for', 'do'):
                inner = []
                visit(s.body, inner)
                if inner:
                    out.append(('loop', inner))
                continue
            if s.k == 'if':
                for c in (calls_in(s.e) if s.e is not None else []):
                    step(c, out)
                inner = []
                visit(s.then, inner)
                opt = any(n.k == 'mem' and n.op in ('has_uncompressed_source', 'has_optional_elems')
                          for n in walk(s.e)) if s.e is not None else False
                for st_ in inner:
                    if opt and st_[0] == 'digest':
                        out.append(('digest?', st_[1]))
                    else:
                        out.append(st_)
                if s.els is not None:
                    visit(s.els, out)
                continue
            if s.e is not None:
                for c in calls_in(s.e):
                    step(c, out)
                se = strip(s.e)
                # "skip digest": hdr_digest_loc = length; length += digest_size
                if se.k == 'bin' and se.op == '=' and last_field(se.a[0]) == 'hdr_digest_loc':
                    out.append(('digest', 'zck->header_digest'))

    def step(c, out):
        n = callee_name(c)
        if n == 'compint_from_size':
            out.append(('ci', pstr(c.a[2], subst)))
        elif n == 'compint_from_int':
            out.append(('ci', pstr(c.a[3], subst)))
        elif n == 'memcpy':
            src = strip(c.a[2])
            if src is not None and src.k == 'str':
                out.append(('bytes5', 'magic'))
            elif 'digest' in pstr(c.a[2], subst):
                out.append(('digest', pstr(c.a[2], subst)))
    visit(fn.body, steps)
    return steps


def canon(seq, drop_opt=True, part=None):
    out = []
    for st in seq:
        if st[0] == 'loop':
            inner = canon(st[1], drop_opt, part)
            if inner:
                out.append(('loop', inner))
        elif st[0] == 'opt':
            if not drop_opt:
                out.append(st)
        else:
            name = canon_name(st[1])
            if part == 'index' and st[1] == 'hash_type':
                name = 'chunk_hash_type'     # index_read's local, handed to set_chunk_hash_type()
            out.append((st[0], name if name is not None else st[1]))
    return out


def run(ctx):
    ck = ctx.check
    ck.explanation = (
        'Table extraction and comparison: the return expression of every metadata getter against a frozen table of '
        'linear forms; the ordered field sequence parsed by the four header readers, emitted by the four writers and '
        'transcribed from zchunk_format.txt; a guard typestate for the count equality on every success exit of '
        'index_read; flow-sensitive linear values for the start offsets; interval interpretation of the flag word '
        'through check_flags() and get_flags().  Equality with an independent parser on all inputs is declined.')
    ck.declined += ['equality with an independent parser on every header (needs execution)']
    for config in ctx.configs():
        prog = ctx.prog(config)
        # ---- a
        n = 0
        for name, want in sorted(GETTERS.items()):
            fn = prog.need_func(name)
            subst = unique_defs(fn)
            # value returned on every path (flow-sensitive: a getter may go through a local)
            class Ret(SymRule):
                def __init__(s_, prog, f):
                    SymRule.__init__(s_, prog, f)
                    s_.vals = []

                def on_return(s_, c2, node, mask, ts):
                    if c2.fn is s_.fn and node.e is not None and not (node.stmt is not None and node.stmt.macro):
                        if const_value(node.e) is None and strip(node.e).k != 'null':
                            v = s_.value(node.e, ts)
                            if v is None:
                                v = Lin({show(strip(node.e)): 1})
                            if not v.is_const():
                                s_.vals.append((v, node.line))
                    return ts
            rr = Ret(prog, fn)
            run_rule(prog, fn, rr)
            ck.require(len(rr.vals) >= 1, '%s: no value return found' % name)
            got = []
            okall = True
            vals = rr.vals
            for v, line in vals:
                if v not in got:
                    got.append(v)
                alt = None
                if name == 'zck_get_chunk_start':
                    alt = Lin({'idx->start': 1})      # chunk without a context (range index entry)
                if v != want and v != alt:
                    okall = False
            n += 1
            ck.ob('C13-a', 'R8.getter', name, 'returns', okall,
                  '%s returns %s' % (name, ' / '.join(repr(g) for g in got)) + ('' if okall else
                                                                               ' (expected %r)' % want),
                  fn.file, vals[0][1], config=config, sample={'getter': name, 'returns': [repr(g) for g in got]})
        ck.min_instances('metadata getters', n, 20)
        # zck_get_data_length walks to the LAST chunk
        dlf = prog.need_func('zck_get_data_length')
        loops = [s for s in walk_stmts(dlf.body) if s.k == 'while']
        okl = False
        for lp in loops:
            c = strip_transparent(lp.e)
            if c.k == 'bin' and c.op == '!=' and pstr(c.a[0]).endswith('->next') and const_value(c.a[1]) == 0:
                okl = any(s.k == 'expr' and strip(s.e).k == 'bin' and strip(s.e).op == '=' and
                          pstr(strip(s.e).a[1]).endswith('->next') for s in walk_stmts(lp.body))
        ck.ob('C13-a', 'R8.getter', dlf.name, 'last-chunk', okl,
              'data length is taken at the last chunk of the list (walk while idx->next != NULL)' if okl else
              'zck_get_data_length no longer walks to the last chunk', dlf.file, dlf.line, config=config)
        # ---- b
        ir = prog.need_func('index_read')
        patterns = [('count-equal', lambda op, lp, rp: op == '==' and 'count' in (lp, rp) and set([lp, rp]) <= set(
            ['count', 'index_count', 'zck->index.count']) and lp != rp)]
        gr = GuardRule(prog, ir, patterns, vocab=('count', 'index_count'), inline=False)
        succ = []

        def gret(c2, node, mask, ts, gr=gr):
            if c2.fn is ir and mask & (P1 | POS):
                succ.append(1)
                if 'count-equal' not in gr.have(ts):
                    gr.violate(c2, 'count-unchecked', 'index_read succeeds without comparing the number of entries it '
                               'parsed with the count read from the file: zck_get_chunk_count() can differ from the '
                               'number of chunks reachable by iteration', inst='count', node=node)
            return ts
        gr.guard_return = gret
        run_rule(prog, ir, gr)
        ck.require(len(succ) >= 1, 'index_read has no success exit')
        ck.ob('C13-b', 'R2.guard', ir.name, 'count-consistency', not gr.violations,
              'every success exit lies on the equality edge parsed-count == file-count' if not gr.violations else
              gr.violations[0].msg, ir.file, gr.violations[0].node.line if gr.violations else ir.line,
              path=gr.violations[0].path if gr.violations else None, config=config)
        # the counter counts entries: incremented once per loop iteration, unconditionally
        # ---- c
        pairs = (('lead', 'read_lead', 'lead_create'), ('preface', 'read_preface', 'preface_create'),
                 ('index', 'index_read', 'index_create'), ('sig', 'read_sig', 'sig_create'))
        for part, rname, wname in pairs:
            rf, wf = prog.need_func(rname), prog.need_func(wname)
            rs, ws = canon(reader_sequence(rf), part=part), canon(writer_sequence(wf), part=part)
            spec = SPEC[part]

            def flat(seq):
                return [(k, v if not isinstance(v, list) else flat(v)) for k, v in seq]
            rs, ws = flat(rs), flat(ws)
            spec_f = flat(spec)
            ck.ob('C13-c', 'R8.layout', rname, 'reader-vs-spec:' + part, rs == spec_f,
                  'reader parses %s' % rs if rs == spec_f else 'reader parses %s, specification says %s' % (rs, spec_f),
                  rf.file, rf.line, config=config, sample={'part': part, 'reader': str(rs)})
            ck.ob('C13-c', 'R8.layout', wname, 'writer-vs-spec:' + part, ws == spec_f,
                  'writer emits %s' % ws if ws == spec_f else 'writer emits %s, specification says %s' % (ws, spec_f),
                  wf.file, wf.line, config=config)
        # optional elements: count, then per element id, size, data (reader only; writer never emits them)
        rp = reader_sequence(prog.need_func('read_preface'))
        opt = [st for st in rp if st[0] == 'opt']
        okopt = False
        if len(opt) >= 2 and opt[0][1][0] == 'ci' and opt[1][1][0] == 'loop':
            inner = [x[1] for x in opt[1][1][1] if x[0] == 'ci']
            okopt = CANON.get(opt[0][1][1]) == 'opt_count' and [CANON.get(x) for x in inner] == ['opt_id', 'opt_size']
        ck.ob('C13-c', 'R8.layout', 'read_preface', 'optional-elements', okopt,
              'optional elements: count, then (id, data size, data) per element, only under flag 1' if okopt else
              'optional element layout differs from the specification: %s' % opt, config=config)
        # ---- d
        c20_fn = prog.need_func('compint_to_int')
        # (decided under C20-c; referenced here through the same interpreter run)
        it2 = IntervalInterp(prog, c20_fn, input_params=('compint',), out_params=('val', 'length'),
                             call_model=lambda interp, call, st: (
                                 st.env.__setitem__(interp.key_of(strip(call.a[2]).a[0]), (0, c20.SIZE_MAX))
                                 if callee_name(call) == 'compint_to_size' and strip(call.a[2]).k == 'un' else None))
        p2 = dict((x.op, x) for x in c20_fn.params)
        exits = it2.run({('d', p2['val'].decl, '*val'): (0, 0)})
        bad = [ev for rv, st, node in exits if rv is not None and rv[0] > 0 for ev in c20.dedup_events(st.events)]
        ck.ob('C13-d', 'R9.interval', c20_fn.name, 'narrowing', not bad,
              'int fields: values above INT_MAX are rejected before the narrowing cast' if not bad else
              '%s in `%s`' % (bad[0]['kind'], bad[0]['expr']), c20_fn.file, bad[0]['line'] if bad else c20_fn.line,
              config=config)
        # the decoder itself: exact value or rejection, no wrap, no narrowing (the C20 interpretation, reported here
        # as well: every numeric field of the header goes through it)
        c20.decoder(ck, prog, config, ca='C13-d', cb='C13-d', cc='C13-d', cd='C13-d')
        # the parsers reject sizes that do not fit what is left of the header, without wrap-around (C03-a rule)
        from . import c03
        c03.cursor_clauses(ck, prog, config, ca='C13-d', cb='C13-d')
        # ---- h  bit-fields: the constants known to be stored in a bit-field fit its width (a digest size kept in too
        #         few bits reads back as another size, and every digest reported through it is cut)
        from ..rules import fielddom
        nb = fielddom.check_bitfields(ck, prog, config, 'C13-h')
        ck.ob('C13-h', 'R9.bitfield-width', 'rule self-check', 'positive-example',
              not fielddom._fits(64, 6, 'unsigned int') and fielddom._fits(63, 6, 'unsigned int') and
              fielddom._fits(-1, 2, 'int') and not fielddom._fits(2, 2, 'int'),
              '%d bit-field(s) in the repository records; the width test rejects 64 in 6 unsigned bits and 2 in 2 signed '
              'bits (kept as a positive example: the expected count on this tree is zero)' % nb, None, 0, config=config,
              trivial=True)
        ck.extra['digest_size_domain'] = sorted(fielddom.by_name(prog).get('digest_size', []))
        ck.require(max(fielddom.by_name(prog).get('digest_size', [0])) >= 64,
                   'value set of digest_size no longer derivable from the hash table')
        # ---- i  what the header says is what is configured: a function that a header parser hands a decoded value to
        #         (hash type, compression type, flags) does not replace its integer parameter before storing it
        from ..program import all_exprs as _ae13, is_assign_op as _ia13
        parsers = [f_ for f_ in prog.lib_funcs() if f_.name in ('read_lead', 'read_preface', 'index_read', 'read_index',
                                                                'read_sig', 'read_header_from_file')]
        ck.require(len(parsers) >= 4, 'header parsers not found')
        callees = {}
        for pf_ in parsers:
            for ex in _ae13(pf_):
                for c_ in calls_in(ex):
                    fs_, _e = prog.call_targets(pf_, c_)
                    for t_ in fs_:
                        if prog.is_lib_unit(t_.unit) and t_.body is not None and not t_.name.startswith(('compint_', 'zck_log', 'set_error', 'set_fatal')):
                            callees[t_.qname] = t_
        npar = 0
        for q_, t_ in sorted(callees.items()):
            ints_ = dict((p_.decl, p_.op) for p_ in t_.params if not (p_.t or '').rstrip().endswith('*'))
            if not ints_:
                continue
            npar += len(ints_)
            hit = None
            for ex in _ae13(t_):
                for n_ in walk(ex):
                    # a plain assignment of a value that does not depend on the parameter replaces it (peeling bits
                    # off with -=, >>= or x = x - k is a decomposition, decided for the flags by C13-f)
                    if n_.k == 'bin' and n_.op == '=':
                        l_ = strip(n_.a[0])
                        if l_ is not None and l_.k == 'var' and l_.decl in ints_ and \
                                not any(x_.k == 'var' and x_.decl == l_.decl for x_ in walk(n_.a[1])):
                            hit = hit or (n_, ints_[l_.decl])
            ck.ob('C13-i', 'R8.param-intact', t_.name, 'parameters', hit is None,
                  '%s() stores the value(s) it is given (%s) without replacing them' % (t_.name, ', '.join(sorted(ints_.values())))
                  if hit is None else
                  '%s() replaces its parameter %s before storing it (%s): when a header parser calls it with the value read '
                  'from the file, the context is configured with - and reports - another value than the file holds'
                  % (t_.name, hit[1], show(hit[0])[:60]), t_.file, hit[0].line if hit else t_.line, config=config)
        ck.min_instances('integer parameters of functions the header parsers call', npar, 3)
        # ---- g  no gate of the parsers compares a narrowed value
        from ..rules import extra
        extra.check_narrow_compare(ck, prog, config, 'C13-g', ('src/lib/header.c', 'src/lib/index/index_read.c',
                                                                'src/lib/compint.c', 'src/lib/index/index_common.c',
                                                                'src/zck_read_header.c'))
        # ---- e

        from ..rules.common import nowrap_sums, covered_by

        class Off(SymRule):
            track_fields = ('comp_length',)

            def __init__(s, prog, fn):
                SymRule.__init__(s, prog, fn)
                s.starts = []
                s.advs = []
                s.wraps = []
                s.covers = []

            def on_edge(s, c2, node, label, refined, ts):
                if c2.fn is not s.fn:
                    return ts
                op, l, r = atom_cmp(node.e, label)
                for tot in nowrap_sums(op, s.value(l, ts), s.value(r, ts)):
                    ts = ts | frozenset([('nowrap', tot)])
                return ts

            def on_assign(s, c2, lhs, rhs, op, value, ts):
                # the accumulator's value *before* the advance is what the guard spoke about
                if c2.fn is s.fn and strip(lhs).k == 'var' and op == '+=' and rhs is not None:
                    cur, add = s.value(lhs, ts), s.value(rhs, ts)
                    if cur is not None and add is not None and pstr(rhs).endswith('->comp_length'):
                        facts = [x[1] for x in ts if isinstance(x, tuple) and len(x) == 2 and x[0] == 'nowrap']
                        tot = cur + add
                        if not covered_by(Lin(tot.t, 0), facts):
                            s.wraps.append((c2.node, tot))
                        else:
                            s.covers.append(([f_ for f_ in facts if covered_by(Lin(tot.t, 0), [f_])], tot, c2.node))
                return SymRule.on_assign(s, c2, lhs, rhs, op, value, ts)

            def sym_assign(s, c2, lhs, rhs, op, ts):
                if last_field(lhs) == 'start' and op == '=':
                    s.starts.append((s.value(rhs, ts), pstr(rhs), c2.node))
                if strip(lhs).k == 'var' and op == '+=' and rhs is not None:
                    s.advs.append((strip(lhs).op, pstr(rhs), c2.node))
                return ts
        o = Off(prog, ir)
        run_rule(prog, ir, o)
        ck.require(len(o.starts) >= 1, 'index_read: store to ->start not found')
        acc = set(p for v, p, nd in o.starts)
        ok_start = len(acc) == 1
        accv = list(acc)[0] if ok_start else None
        adv = [a for a in o.advs if a[0] == accv]
        ok_adv = bool(adv) and all(a[1].endswith('->comp_length') for a in adv)
        ck.ob('C13-e', 'R4.offsets', ir.name, 'start=running-sum', ok_start and ok_adv,
              'chunk start is the accumulator %s, advanced by %s per entry (stored sizes)' % (
                  accv, ', '.join(sorted(set(a[1] for a in adv)))) if ok_start and ok_adv else
              'chunk start offsets are not the running sum of stored sizes: start := %s, accumulator advanced by %s' % (
                  sorted(acc), sorted(set(a[1] for a in adv))), ir.file, o.starts[0][2].line, config=config)
        ck.ob('C13-e', 'R4.offsets', ir.name, 'running-sum-representable', not o.wraps,
              'the running sum of stored sizes is advanced only where an edge proves the sum representable '
              '(size <= MAX - sum)' if not o.wraps else
              'the accumulator of the chunk offsets is advanced by a 64-bit size from the file (%r) without a test that '
              'the sum is representable: sizes that add up to 2^64 or more wrap, and chunks are reported (and read) at '
              'offsets that are not the sum of the stored sizes' % (o.wraps[0][1],), ir.file,
              o.wraps[0][0].line if o.wraps else ir.line, config=config)
        # the sum that is proven representable is a *file* offset: it includes the size of the header, measured by a
        # context field that the read path has already set when the index is parsed (fields set later - data_offset is
        # assigned after the index - still hold 0 here, and the test would be weaker by the size of the header)
        from ..ir import walk as _walk
        from ..program import all_exprs as _ae, is_assign_op as _ia
        zrh = prog.need_func('zck_read_header')
        before = []
        for ex in _ae(zrh):
            for c_ in calls_in(ex):
                before.append(c_)
        names_in_order = [callee_name(c_) for c_ in sorted(before, key=lambda c_: c_.line)]
        cut = None
        for i_, nm_ in enumerate(names_in_order):
            tf = [f_ for f_ in prog.lib_funcs() if f_.name == nm_]
            if tf:
                seen_, _ = prog.reachable_calls(tf)
                if any(prog.funcs[q].name == ir.name for q in seen_):
                    cut = i_
                    break
        ck.require(cut is not None, 'zck_read_header no longer reaches index_read')
        early = [prog.need_func('read_lead')]
        for nm_ in names_in_order[:cut]:
            early += [f_ for f_ in prog.lib_funcs() if f_.name == nm_]
        seen_e, _ = prog.reachable_calls(early)
        set_before = {}
        for q in seen_e:
            f_ = prog.funcs[q]
            for ex in _ae(f_):
                for n_ in _walk(ex):
                    if n_.k == 'bin' and _ia(n_.op):
                        l_ = strip(n_.a[0])
                        if l_ is not None and l_.k == 'mem':
                            set_before.setdefault(l_.op, []).append((n_.a[1], unique_defs(f_)))
        hdr_fields = set()
        for fld, rhss in set_before.items():
            for r_, sub_ in rhss:
                def _mems(e_, depth=0):
                    out_ = set()
                    for x in _walk(e_):
                        if x.k == 'mem':
                            out_.add(x.op)
                        elif x.k == 'var' and x.decl in sub_ and depth < 4:
                            out_ |= _mems(sub_[x.decl], depth + 1)
                    return out_
                nm_set = _mems(r_)
                if 'lead_size' in nm_set and 'header_length' in nm_set:
                    hdr_fields.add(fld)
        for facts_, tot_, nd_ in o.covers[:1]:
            best = None
            for f_ in facts_:
                extra_terms = [k for k in f_.t if k not in tot_.t]
                flds = [k.replace('.', '->').split('->')[-1] for k in extra_terms if '->' in k or '.' in k]
                unset = [x for x in flds if x not in set_before]
                has_hdr = any(x in hdr_fields for x in flds)
                cand = (not unset and has_hdr, f_, flds, unset)
                if best is None or cand[0]:
                    best = cand
            okb, f_, flds, unset = best
            ck.ob('C13-e', 'R4.offsets', ir.name, 'sum-includes-header', okb,
                  'the sum proven representable (%r) includes the header size through %s, which the read path sets before '
                  'the index is parsed' % (f_, ', '.join(flds)) if okb else
                  ('the representability test of the running sum measures from %s, which is not assigned on the read path '
                   'before index_read() runs (it still holds 0 there): offsets within the size of the header below the '
                   'limit are accepted and reported as file offsets that do not fit' % ', '.join(unset)) if unset else
                  'the sum proven representable (%r) does not include the size of the header (a field set from lead_size + '
                  'header_length): the file offset of the last chunk can exceed the largest representable offset' % (f_,),
                  ir.file, nd_.line, config=config)
        from ..rules import extra as _x
        _x.check_reader_data_offset(ck, prog, config, 'C13-e')
        # ---- f
        cf = prog.need_func('check_flags')
        gf = prog.need_func('get_flags')
        pf = dict((x.op, x) for x in cf.params)
        ck.require('flags' in pf, 'check_flags signature changed')
        accepted = []
        mism = []
        for F in range(0, 16):
            a = IntervalInterp(prog, cf, (), ())
            ex = a.run({('v', pf['flags'].decl, 'flags'): (F, F)})
            for rv, st, node in ex:
                if rv is None or rv == (0, 0):
                    continue
                accepted.append(F)
                fields = dict((k, v) for k, v in st.env.items() if k[0] == 'f')
                b = IntervalInterp(prog, gf, (), ())
                ex2 = b.run(fields)
                outs = set(rv2 for rv2, st2, n2 in ex2)
                if outs != set([(F, F)]):
                    mism.append((F, sorted(outs)))
        ck.require(len(accepted) >= 3, 'check_flags accepts fewer flag words than expected: %s' % accepted)
        ck.ob('C13-f', 'R9.interval', 'get_flags', 'inverse-of-check_flags', not mism,
              'for every flag word check_flags() accepts (%s), get_flags() over the stored fields returns the same word'
              % sorted(set(accepted)) if not mism else 'flag word %d read from a file is reported as %s' % (
                  mism[0][0], mism[0][1]), gf.file, gf.line, config=config)


CLAIM = {
    'technique': 'table extraction and comparison (getter return forms; reader / writer / specification field '
                 'sequences), guard typestate for the count equality, linear offsets, interval interpretation of the '
                 'flag word, narrowed-operand lint over every comparison of the parsers, representable-sum facts for the offset accumulator',
    'text': 'static analysis: decides C13-a..f (mechanism) - every metadata getter returns the field it names; reader, '
            'writer and the transcribed specification agree on the ordered field sequence of lead, preface, index and '
            'signatures; a successful index parse has compared its entry count with the file\'s; chunk starts are the '
            'running sum of stored sizes; int fields are range checked before narrowing; the reported flag word equals '
            'the accepted one. Equality with an independent parser on all inputs is not decided.',
    'note': 'trusted: clang 14 front end; the SPEC table transcribed from zchunk_format.txt; canonical field-name map',
}

MUTANTS = [
    {'id': 'm13w', 'desc': 'running sum of stored sizes advanced without the overflow test (pre-fix form)',
     'file': 'src/lib/index/index_read.c',
     'old': 'if(chunk_length > (size_t)SSIZE_MAX - zck->header_size - idx_loc) {', 'new': 'if(chunk_length > (size_t)SSIZE_MAX) {',
     'expect': 'R4.offsets index_read [running-sum-representable]'},
    {'id': 'm13g', 'desc': 'count gate compares after narrowing to int (seeded c13r4)', 'file': 'src/lib/index/index_read.c',
     'old': 'if((size_t)count != index_count) {', 'new': 'if(count != (int)index_count) {',
     'expect': 'R9.narrow-compare index_read'},
    {'id': 'm48', 'desc': 'count comparison removed', 'file': 'src/lib/index/index_read.c',
     'old': 'if((size_t)count != index_count) {', 'new': 'if((size_t)count > index_count + 1000) {',
     'expect': 'R2.guard index_read'},
    {'id': 'm49', 'desc': 'offset accumulates the uncompressed size', 'file': 'src/lib/index/index_read.c',
     'old': 'idx_loc += new->comp_length;', 'new': 'idx_loc += new->length;', 'expect': 'R4.offsets index_read'},
    {'id': 'm50', 'desc': 'comp size getter returns the uncompressed size', 'file': 'src/lib/index/index_read.c',
     'old': """    return idx->comp_length;
}""", 'new': """    return idx->length;
}""", 'expect': 'R8.getter zck_get_chunk_comp_size'},
    {'id': 'm51', 'desc': 'writer swaps the two size fields', 'file': 'src/lib/index/index_create.c',
     'old': """            compint_from_size(index+index_size, tmp->comp_length,
                                  &index_size);
            /* Write uncompressed size */
            compint_from_size(index+index_size, tmp->length, &index_size);""",
     'new': """            compint_from_size(index+index_size, tmp->length,
                                  &index_size);
            /* Write uncompressed size */
            compint_from_size(index+index_size, tmp->comp_length, &index_size);""",
     'expect': 'R8.layout index_create'},
    {'id': 'm13f', 'desc': 'flag word bit-packed from stored masks (seeded c13)', 'file': 'src/lib/header.c',
     'old': """    size_t flags = 0;
    if(zck->has_streams)
        flags |= 1;
    if(zck->has_optional_elems)
        flags |= 2;
    if(zck->has_uncompressed_source)
        flags |= 4;
    return flags;""",
     'new': """    return zck->has_streams | (zck->has_optional_elems << 1) | (zck->has_uncompressed_source << 2);""",
     'expect': 'R9.interval get_flags'},
    {'id': 'm13h', 'desc': 'header length getter forgets the lead', 'file': 'src/lib/header.c',
     'old': '    return zck->lead_size + zck->header_length;', 'new': '    return zck->header_length;',
     'expect': 'R8.getter zck_get_header_length'},
    {'id': 'm13r', 'desc': 'reader parses index size before the compression type', 'file': 'src/lib/header.c',
     'old': """    if(!compint_to_int(zck, &tmp, header+length, &length, max_length))
        return false;
    if(!comp_ioption(zck, ZCK_COMP_TYPE, tmp))
        return false;""", 'new': """    if(!compint_to_int(zck, &tmp, header+length, &length, max_length))
        return false;
    zck->index_size = tmp;
    if(!compint_to_int(zck, &tmp, header+length, &length, max_length))
        return false;
    if(!comp_ioption(zck, ZCK_COMP_TYPE, tmp))
        return false;""", 'expect': 'R8.layout read_preface'},
    {'id': 'n13a', 'desc': 'getter through a local', 'file': 'src/lib/header.c',
     'old': '    return zck->lead_size + zck->header_length;',
     'new': '    size_t lead = zck->lead_size;\n    return zck->header_length + lead;', 'expect': None},
]


# SESSION7 additions to the claim (clauses added in DESIGN section 12)
CLAIM['technique'] += '; field value sets (flow-insensitive, closed over copies and call sites) against bit-field widths; header term of the representable running sum checked against the fields set before the index is parsed'
CLAIM['text'] += ' C13-h: every constant known to be stored in a bit-field fits its width. C13-e (extended): the sum proven representable includes the header size through a field that is already set when the index is parsed.'

MUTANTS += [
    {'id': 'm13b', 'desc': 'digest_size kept in a 6-bit field (seeded c13r7)', 'file': 'src/lib/zck_private.h',
     'old': """    int digest_size;
    int valid;
    size_t number;""", 'new': """    unsigned int digest_size:6;
    signed int valid:2;
    size_t number;""", 'expect': 'R9.bitfield-width zckChunk [digest_size]'},
    {'id': 'n13b', 'desc': 'valid kept in a signed 2-bit field, digest_size in 7 bits', 'file': 'src/lib/zck_private.h',
     'old': """    int digest_size;
    int valid;
    size_t number;""", 'new': """    unsigned int digest_size:7;
    signed int valid:2;
    size_t number;""", 'expect': None},
]


# SESSION7b additions to the claim (round 8, DESIGN 12.6)
CLAIM['technique'] += '; parameter-intact lint on the functions the header parsers call'
CLAIM['text'] += ' C13-i: a function handed a decoded value stores that value.'

"""C17  Memory safety and clean failure on arbitrary server responses (necessary conditions).

C17-a  regex lifecycle: for dl->hdr_regex, dl_regex, end_regex the modular invariant "non-NULL => compiled"
       holds at every exit of the functions that allocate them; regexec / regfree are never reached with a
       pattern that was allocated in the same function but not compiled.
C17-b  alloc/copy agreement: every memcpy / snprintf / indexed store into a buffer allocated in the same
       function stays within the allocation (linear forms; +1 where the buffer is used as a C string).
C17-c  unsigned subtraction: every `x -= y` on an unsigned quantity in the response scanners is implied by a
       preceding comparison x >= y (facts established inside small static helpers are seen: helpers are inlined).
C17-d  confinement and verification for garbage input: shared with C05-b/c/d.
C17-f  a pointer derived from a sub-match offset of a pattern that contains response text (dl_regex, end_regex) is
       dereferenced / passed on only when the group is known to have matched (rm_so == -1 otherwise).
Declined: memory safety of the in-place scanner as a whole; POSIX regex engine behaviour.
"""
from ..flow import M1, NEG, Z, P1, POS, NONNEG
from ..ir import strip, strip_transparent, show, callee_name, const_value, walk, walk_stmts, calls_in, is_unsigned_type
from ..program import rel, all_exprs, unique_defs
from ..rules.common import (FactRule, SymRule, GuardRule, run_rule, calls_of, pstr, last_field, Lin, lin, atom_cmp,
                            origin_names, assigned_fields, base_term)
from ..rules import dlrules

REGEX_FIELDS = ('hdr_regex', 'dl_regex', 'end_regex')
ALLOCS = ('zmalloc', 'malloc', 'calloc', 'zrealloc', 'realloc')


class RegexRule(FactRule):
    name = 'R6.regex'

    def __init__(self, prog, fn):
        FactRule.__init__(self, prog, fn)
        self.exits = 0
        self.uses = 0

    def field_of(self, e):
        f = last_field(e)
        if f in REGEX_FIELDS:
            return f
        # the object behind an out-parameter  regex_t **reg  of an allocating helper
        se = strip(e)
        while se is not None and se.k == 'cast' and se.a:
            se = strip(se.a[0])
        if se is not None and se.k == 'un' and se.op == '*':
            b = strip(se.a[0])
            if b is not None and b.k == 'var' and b.dk == 'ParmVarDecl' and 'regex_t **' in (b.t or ''):
                return '*' + b.op
        return None

    def field_of_arg(self, a):
        sa = strip(a)
        if sa is not None and sa.k == 'un' and sa.op == '&':
            return self.field_of(sa.a[0])
        return self.field_of(a)

    def on_assign(self, ctx, lhs, rhs, op, value, ts):
        f = self.field_of(lhs)
        if f and strip(lhs).k in ('mem', 'un') and op == '=':
            ts = frozenset(x for x in ts if not (isinstance(x, tuple) and x[0] == 'rx' and x[1] == f))
            r = strip(rhs) if rhs is not None else None
            if r is not None and r.k == 'call' and callee_name(r) in ALLOCS:
                ts = ts | frozenset([('rx', f, 'alloc')])
        return ts

    def on_edge(self, ctx, node, label, refined, ts):
        for expr, origins, before, after in refined:
            names = origin_names(origins)
            ex = strip_transparent(expr)
            if ex.k != 'call':
                continue
            f = None
            for a in ex.a[1:]:
                f = f or self.field_of_arg(a)
            if f is None:
                continue
            from ..rules.submatch import regex_compilers
            wrappers = set(regex_compilers(self.prog)) - set(['regcomp'])
            if names & wrappers:
                if after & ~(P1 | POS) == 0:
                    ts = ts | frozenset([('rx', f, 'comp')])
                elif after == Z and any(sa is not None and sa.k == 'un' and sa.op == '&' for sa in
                                        [strip(a) for a in ex.a[1:]]):
                    # an allocating helper (takes the field by address) failed: it leaves the field NULL, which is
                    # checked on the helper itself
                    ts = frozenset(x for x in ts if not (isinstance(x, tuple) and x[0] == 'rx' and x[1] == f))
            if 'regcomp' in names and after == Z:
                ts = ts | frozenset([('rx', f, 'comp')])
        # allocation failed: the field is NULL on the false edge of a truthiness test
        op, l, r = atom_cmp(node.e, label)
        f = self.field_of(l)
        if f and op == '==' and const_value(r) == 0:
            ts = frozenset(x for x in ts if not (isinstance(x, tuple) and x[0] == 'rx' and x[1] == f))
        return ts

    def pending(self, ts):
        alloc = set(x[1] for x in ts if isinstance(x, tuple) and x[0] == 'rx' and x[2] == 'alloc')
        comp = set(x[1] for x in ts if isinstance(x, tuple) and x[0] == 'rx' and x[2] == 'comp')
        return alloc - comp

    def on_call(self, ctx, call, ts):
        n = callee_name(call)
        if n in ('regexec', 'regfree') and ctx.fn is self.fn:
            self.uses += 1
            f = self.field_of(call.a[1])
            if f and f in self.pending(ts):
                self.violate(ctx, 'uncompiled-use', '%s(dl->%s) reachable with a pattern that was allocated but not '
                             'compiled' % (n, f), inst='use:' + f)
            if f and ('rx', f, 'released') in ts:
                self.violate(ctx, 'released-use', '%s(dl->%s) reachable after regfree(dl->%s) on the same path' % (n, f, f),
                             inst='use:' + f)
            if f and n == 'regfree':
                ts = ts | frozenset([('rx', f, 'released')])
        return ts

    def on_return(self, ctx, node, mask, ts):
        if ctx.fn is self.fn:
            self.exits += 1
            for f in sorted(x[1] for x in ts if isinstance(x, tuple) and x[0] == 'rx' and x[2] == 'released'):
                self.violate(ctx, 'released-exit', 'exit (return %s) leaves dl->%s pointing to a pattern that was '
                             'released with regfree() (the field is neither freed and set to NULL nor compiled again): the '
                             'next callback sees a non-NULL field and calls regexec() on it' % (
                                 show(node.e) if node.e is not None else '', f), inst='exit:' + f, node=node)
            for f in sorted(self.pending(ts)):
                self.violate(ctx, 'uncompiled-exit', 'exit (return %s) leaves dl->%s allocated but not compiled: '
                             'zck_dl_reset()/zck_dl_free() regfree() it and the next callback may regexec() it' % (
                                 show(node.e) if node.e is not None else '', f), inst='exit:' + f, node=node)
        return ts


class AllocRule(SymRule):
    name = 'R4.alloc-copy'

    def __init__(self, prog, fn):
        SymRule.__init__(self, prog, fn)
        self.checked = 0
        # fields that occur in allocation sizes / copy extents and are assigned in the function are
        # followed flow-sensitively
        relevant = set()
        for ex in all_exprs(fn):
            for c in calls_in(ex):
                if callee_name(c) in ALLOCS + ('memcpy', 'memmove', 'memset', 'snprintf', 'strncpy'):
                    for a in c.a[1:]:
                        relevant |= set(n.op for n in walk(a) if n.k == 'mem')
        assigned = set(strip(l).op for (l, r, op, n) in assigned_fields(fn)
                       if not (r is not None and strip(r).k == 'call' and callee_name(strip(r)) in ALLOCS))
        self.track_fields = tuple(sorted(relevant & assigned))
        # terms of unsigned type are non-negative
        self.unsigned_terms = set()
        for ex in all_exprs(fn):
            for n in walk(ex):
                if n.k in ('var', 'mem') and is_unsigned_type(n.t, n.dt):
                    self.unsigned_terms.add(pstr(n, self.subst))
        for v in list(fn.locals.values()) + list(fn.params):
            if is_unsigned_type(v.t, v.dt):
                self.unsigned_terms.add(v.op)

    def allocs(self, ts):
        return dict((x[1], x[2]) for x in ts if isinstance(x, tuple) and len(x) == 3 and x[0] == 'alloc')

    def set_alloc(self, ts, path, size):
        ts = frozenset(x for x in ts if not (isinstance(x, tuple) and len(x) == 3 and x[0] == 'alloc' and x[1] == path))
        if size is not None:
            ts = ts | frozenset([('alloc', path, size)])
        return ts

    def sym_assign(self, ctx, lhs, rhs, op, ts):
        if op == '=' and rhs is not None:
            r = strip(rhs)
            lp = pstr(lhs, self.subst)
            if r.k == 'call' and callee_name(r) in ALLOCS:
                szarg = r.a[1] if callee_name(r) in ('zmalloc', 'malloc') else r.a[2]
                if callee_name(r) == 'calloc':
                    szarg = None
                ts = self.set_alloc(ts, lp, self.value(szarg, ts) if szarg is not None else None)
                if strip(lhs).k == 'var':
                    # the local now names the new block: it is its own base symbol
                    ts = self.set_key(ts, ('v', strip(lhs).decl), Lin({lp: 1}))
            elif strip(lhs).k in ('var', 'mem'):
                # the pointer now refers to something else: forget the allocation; a field taking over a
                # freshly allocated local (comp->dc_data = temp) inherits it
                al = self.allocs(ts)
                rp = pstr(rhs, self.subst)
                if rp in al and strip(lhs).k == 'mem':
                    ts = self.set_alloc(ts, lp, al[rp])
                elif lp in al:
                    ts = self.set_alloc(ts, lp, None)
        # indexed store buf[i] = x
        l = strip(lhs)
        if l.k == 'idx':
            base = pstr(l.a[0], self.subst)
            al = self.allocs(ts)
            if base in al:
                self.checked += 1
                off = self.value(l.a[1], ts)
                self.bound(ctx, ts, base, al[base], off, Lin(None, 1), 'store %s' % show(l))
        return ts

    def leq_facts(self, ts):
        return [x[1] for x in ts if isinstance(x, tuple) and len(x) == 2 and x[0] == 'le']

    use_facts = False

    def on_edge(self, ctx, node, label, refined, ts):
        if ctx.fn is not self.fn or not self.use_facts:
            return ts
        op, l, r = atom_cmp(node.e, label)
        lv, rv = self.value(l, ts), self.value(r, ts)
        if lv is None or rv is None:
            return ts
        new = {'<=': lv - rv, '<': lv - rv + Lin(None, 1), '>=': rv - lv, '>': rv - lv + Lin(None, 1)}.get(op)
        if new is not None and not new.is_const():
            ts = ts | frozenset([('le', new)])
        return ts

    def bound(self, ctx, ts, base, size, off, n, what):
        if size is None or off is None or n is None:
            return
        need = off + n - size

        def nonpos(l):
            # constant <= 0, or only non-positive multiples of non-negative (unsigned) quantities
            return l.c <= 0 and all(v <= 0 and base_term(k) in self.unsigned_terms
                                    for k, v in l.t.items())
        ok = nonpos(need)
        if not ok:
            for f in self.leq_facts(ts):
                for k in (1, 2, 3, 4):
                    if nonpos(need - f.scale(k)):
                        ok = True
        if not ok:
            self.violate(ctx, 'overflow', '%s: writes %r bytes at offset %r into %s, which was allocated with %r bytes '
                         '(needs %r <= 0)' % (what, n, off, base, size, need), inst='%s' % base)

    def sym_call(self, ctx, call, ts):
        n = callee_name(call)
        al = self.allocs(ts)
        if n in ('memcpy', 'memmove', 'memset', 'snprintf', 'strncpy'):
            dst = call.a[1]
            dv = self.value(dst, ts)
            if dv is None:
                return ts
            # find the allocation the destination points into
            for base, size in al.items():
                if dv.t.get(base) == 1:
                    off = dv - Lin({base: 1})
                    ln = self.value(call.a[3] if n != 'snprintf' else call.a[2], ts)
                    self.checked += 1
                    self.bound(ctx, ts, base, size, off, ln, '%s(%s, ...)' % (n, show(dst)))
                    break
        return ts


def run(ctx):
    ck = ctx.check
    ck.explanation = (
        'Typestate for the three regex fields (allocated / compiled) over the functions that allocate and use them; '
        'flow-sensitive linear allocation sizes against the extent of every copy into a same-function allocation; '
        'comparison facts (with small static helpers inlined) required before every unsigned decrement in the '
        'response scanners; the confinement and verification rules of C05 apply unchanged to garbage input.  The '
        'scanner\'s index arithmetic as a whole is declined.')
    ck.declined += ['memory safety of the in-place multipart scanner as a whole', 'behaviour of the POSIX regex engine']
    for config in ctx.configs():
        prog = ctx.prog(config)
        # ---- a
        writers = set()
        for fn in prog.lib_funcs():
            for (l, r, op, n) in assigned_fields(fn):
                if last_field(l) in REGEX_FIELDS and r is not None and strip(r).k == 'call':
                    writers.add(fn.qname)
            # allocating helpers: *reg = zmalloc(...) through a regex_t ** parameter
            from ..program import all_exprs as _ae
            for ex in _ae(fn):
                for nd in walk(ex):
                    if nd.k == 'bin' and nd.op == '=' and strip(nd.a[0]).k == 'un' and strip(nd.a[0]).op == '*':
                        b = strip(strip(nd.a[0]).a[0])
                        if b is not None and b.k == 'var' and 'regex_t **' in (b.t or '') and \
                                strip(nd.a[1]) is not None and strip(nd.a[1]).k == 'call':
                            writers.add(fn.qname)
        users = set()
        for fn in prog.lib_funcs():
            if calls_of(fn, ('regexec', 'regfree')):
                users.add(fn.qname)
        ck.min_instances('functions allocating a regex field', len(writers), 2)
        total_exits = 0
        for q in sorted(writers | users):
            fn = prog.funcs[q]
            r = RegexRule(prog, fn)
            run_rule(prog, fn, r)
            total_exits += r.exits
            by = {}
            for v in r.violations:
                by.setdefault(v.inst, v)
            if not by:
                ck.ob('C17-a', 'R6.regex', fn.name, 'lifecycle', True,
                      '%d exit state(s), %d regexec/regfree use(s): every regex field is NULL or compiled' % (
                          r.exits, r.uses), fn.file, fn.line, config=config)
            for inst, v in sorted(by.items()):
                ck.ob('C17-a', 'R6.regex', fn.name, inst, False, v.msg, v.node.file, v.node.line, path=v.path,
                      config=config)
        # regfree only on the three fields, guarded by non-NULL (clear_dl_regex)
        # ---- b
        n = 0
        targets = ('multipart_get_boundary', 'multipart_extract', 'add_boundary_to_regex', 'read_preface',
                   'index_read', 'zck_set_soption', 'get_digest_string', 'comp_add_to_dc',
                   'comp_add_to_data')
        for name in targets:
            fn = prog.need_func(name)
            a = AllocRule(prog, fn)
            a.use_facts = name in ('get_digest_string',)
            run_rule(prog, fn, a)
            n += a.checked
            by = {}
            for v in a.violations:
                by.setdefault(v.inst, v)
            if not by:
                ck.ob('C17-b', 'R4.alloc-copy', name, 'copies', True,
                      '%d copy/store state(s) into same-function allocations, all within the allocated size' % a.checked,
                      fn.file, fn.line, config=config, trivial=a.checked == 0)
            for inst, v in sorted(by.items()):
                ck.ob('C17-b', 'R4.alloc-copy', name, inst, False, v.msg, v.node.file, v.node.line, path=v.path,
                      config=config)
        ck.min_instances('copies into same-function allocations', n, 8)
        # ---- f  sub-match offsets of patterns that contain response text
        from ..rules import submatch
        nf = submatch.check_submatch(ck, prog, config, 'C17-f')
        ck.min_instances('functions running a pattern built from the response', nf, 1)
        # ---- c
        nsub = 0
        for fn in sorted(prog.lib_funcs(), key=lambda f: f.qname):
            if not fn.unit.endswith('dl/multipart.c'):
                continue
            subs = []
            for ex in all_exprs(fn):
                for x in walk(ex):
                    if x.k == 'bin' and x.op == '-=' and is_unsigned_type(strip(x.a[0]).t, strip(x.a[0]).dt):
                        subs.append(x)
                    if x.k == 'bin' and x.op == '-' and is_unsigned_type(x.t, x.dt) and const_value(x.a[1]) is not None \
                            and const_value(x.a[1]) >= 1 and strip(x.a[0]) is not None and strip(x.a[0]).k in ('var', 'mem') \
                            and not (strip(x.a[0]).t or '').rstrip().endswith('*'):
                        subs.append(x)
            if not subs:
                continue

            class Sub(GuardRule):
                def guard_assign(s, c2, lhs, rhs, op, ts):
                    return ts

                def on_assign(s, c2, lhs, rhs, op, value, ts):
                    if c2.fn is s.fn and op == '-=' and is_unsigned_type(strip(lhs).t, strip(lhs).dt):
                        s.checked += 1
                        x = s.operand(lhs, c2, ts)
                        y = s.operand(rhs, c2, ts)
                        ok = False
                        for _, o, lp, rp in s.raw(ts):
                            for (a, b, oo) in ((lp, rp, o), (rp, lp, {'<': '>', '>': '<', '<=': '>=', '>=': '<=',
                                                                       '==': '==', '!=': '!='}[o])):
                                if a != x:
                                    continue
                                if b == y and oo in ('>', '>=', '=='):
                                    ok = True
                                if y.startswith('#') and b.startswith('#'):
                                    k, c = int(y[1:]), int(b[1:])
                                    if (oo == '>' and c >= k - 1) or (oo == '>=' and c >= k) or (oo == '==' and c >= k):
                                        ok = True
                        if not ok:
                            s.violate(c2, 'underflow', '%s -= %s on an unsigned quantity without a preceding comparison '
                                      'that implies %s >= %s on this path: wraps to a huge value' % (x, show(rhs), x, y),
                                      inst='%s-=%s' % (x.split('->')[-1], y.lstrip('#')))
                    # X - k (k a positive constant) on an unsigned 64-bit X inside the assigned value: same obligation
                    if c2.fn is s.fn and rhs is not None and op in ('=', '+=', '-='):
                        for nd_ in walk(rhs):
                            if nd_.k == 'bin' and nd_.op == '-' and is_unsigned_type(nd_.t, nd_.dt) and \
                                    const_value(nd_.a[1]) is not None and const_value(nd_.a[1]) >= 1 and \
                                    strip(nd_.a[0]) is not None and strip(nd_.a[0]).k in ('var', 'mem') and \
                                    not (strip(nd_.a[0]).t or '').rstrip().endswith('*') and \
                                    is_unsigned_type(strip(nd_.a[0]).t, strip(nd_.a[0]).dt):
                                s.checked += 1
                                x = s.operand(nd_.a[0], c2, ts)
                                k = const_value(nd_.a[1])
                                ok = False
                                for _, o, lp, rp in s.raw(ts):
                                    for (a, b, oo) in ((lp, rp, o), (rp, lp, {'<': '>', '>': '<', '<=': '>=', '>=': '<=',
                                                                               '==': '==', '!=': '!='}[o])):
                                        if a == x and b.startswith('#'):
                                            c = int(b[1:])
                                            if (oo == '>' and c >= k - 1) or (oo == '>=' and c >= k) or (oo == '==' and c >= k):
                                                ok = True
                                if not ok:
                                    s.violate(c2, 'underflow', '%s - %d on an unsigned quantity without a preceding comparison '
                                              'that implies %s >= %d on this path: wraps to a huge value (an offset or length '
                                              'derived from it points outside the buffer)' % (x, k, x, k),
                                              inst='%s-%d' % (x.split('->')[-1], k))
                    return GuardRule.on_assign(s, c2, lhs, rhs, op, value, ts)
            vocab = set()
            for x in subs:
                for m in walk(x):
                    if m.k == 'var':
                        vocab.add(m.op)
                    if m.k == 'mem':
                        vocab.add(m.op)
            sr = Sub(prog, fn, [], vocab=vocab)
            run_rule(prog, fn, sr)
            nsub += sr.checked
            by = {}
            for v in sr.violations:
                by.setdefault(v.inst, v)
            if not by:
                ck.ob('C17-c', 'R9.unsigned-sub', fn.name, 'decrements', True,
                      '%d unsigned decrement state(s), each implied by a preceding comparison' % sr.checked, fn.file,
                      fn.line, config=config)
            for inst, v in sorted(by.items()):
                ck.ob('C17-c', 'R9.unsigned-sub', fn.name, inst, False, v.msg, v.node.file, v.node.line, path=v.path,
                      config=config)
        ck.min_instances('unsigned decrements in the response scanners', nsub, 2)
        # ---- e ownership of carried-over buffers; reset completeness of the per-transfer state
        from ..rules import extra
        ne = extra.check_own_then_free(ck, prog, config, 'C17-e', units=('dl/dl.c', 'dl/multipart.c', 'dl/range.c'))
        ck.min_instances('functions storing a local pointer into a field and calling free()', ne, 1)
        extra.check_dl_reset(ck, prog, config, 'C17-e')
        # ---- f  the callbacks' fixed-size scratch arrays: every transfer stays inside the array
        from ..rules import arrayext
        na = arrayext.check_array_extents(ck, prog, config, 'C17-f', scope='lib', units=('dl/dl.c', 'dl/multipart.c', 'dl/range.c', 'lib/log.c'))
        ck.min_instances('(call, fixed-size array) sites below the download callbacks', na, 2)
        from ..rules import sizepair
        sizepair.check_size_pairs(ck, prog, config, 'C17-g', min_exits=1, units=('dl/multipart.c', 'dl/dl.c'))
        # ---- d
        dlrules.arming_guard(ck, prog, config, 'C17-d')
        dlrules.confinement(ck, prog, config, 'C17-d')
        dlrules.mismatch_arm(ck, prog, config, 'C17-d', 'set_chunk_valid', 'validate_chunk', M1 | NEG | Z, 'failure-arm')


CLAIM = {
    'technique': 'regex-field typestate (allocated/compiled) over all paths, flow-sensitive linear allocation sizes '
                 'vs copy extents, comparison facts with helper inlining before unsigned decrements, shared '
                 'confinement rules, sub-match offset rule over patterns classified literal/quoted/built (optional groups need a matched-group edge before a dereference)',
    'text': 'static analysis: decides necessary conditions C17-a..d - no exit leaves a regex allocated but uncompiled '
            'and no regexec/regfree sees one; copies into same-function allocations stay within their size (including '
            'the terminator byte); unsigned decrements in the response scanners are preceded by the comparison that '
            'makes them safe; what is written to the target satisfies the C05 confinement/verification rules for any '
            'input. The scanner index arithmetic as a whole is not decided. C17-f: pointers derived from sub-match offsets of patterns with optional groups are used only when the group matched.',
    'note': 'trusted: clang 14 front end; zmalloc = calloc(1, n), zrealloc = realloc; linear forms over access paths',
}

MUTANTS = [
    {'id': 'm17r', 'desc': 'patterns released but left in the fields', 'file': 'src/lib/dl/dl.c',
     'old': """        regfree(dl->dl_regex);
        free(dl->dl_regex);
        dl->dl_regex = NULL;""", 'new': """        regfree(dl->dl_regex);""", 'expect': 'R6.regex'},
    {'id': 'm17g', 'desc': 'first range group made optional in the part pattern and parsed with strtoull at an unchecked '
                           'sub-match offset', 'file': 'src/lib/dl/multipart.c', 'old': '', 'new': '',
     'edits': [('src/lib/dl/multipart.c', """        size_t rstart = 0;
        for(char *c=i + match[1].rm_so; c < i + match[1].rm_eo; c++)
            rstart = rstart*10 + (size_t)(c[0] - 48);""",
                """        size_t rstart = strtoull(i + match[1].rm_so, NULL, 10);"""),
               ('src/lib/dl/multipart.c', '"content-range: *bytes *([0-9]+) *- *([0-9]+) */[0-9]+";',
                '"content-range: *bytes *([0-9]+)? *- *([0-9]+) */[0-9]+";')],
     'expect': 'R10.submatch multipart_extract'},
    {'id': 'm17h', 'desc': 'boundary pasted into the pattern unquoted again and a sub-match offset used unchecked',
     'file': 'src/lib/dl/multipart.c', 'old': '', 'new': '',
     'edits': [('src/lib/dl/multipart.c', """        size_t rstart = 0;
        for(char *c=i + match[1].rm_so; c < i + match[1].rm_eo; c++)
            rstart = rstart*10 + (size_t)(c[0] - 48);""",
                """        size_t rstart = strtoull(i + match[1].rm_so, NULL, 10);"""),
               ('src/lib/dl/multipart.c', '    char *quoted = quote_for_regex(boundary);',
                '    char *quoted = strdup(boundary);')],
     'expect': 'R10.submatch multipart_extract'},
    {'id': 'n17g', 'desc': 'optional group, strtoull under a matched-group test', 'file': 'src/lib/dl/multipart.c',
     'old': '', 'new': '',
     'edits': [('src/lib/dl/multipart.c', """        size_t rstart = 0;
        for(char *c=i + match[1].rm_so; c < i + match[1].rm_eo; c++)
            rstart = rstart*10 + (size_t)(c[0] - 48);""",
                """        size_t rstart = 0;
        if(match[1].rm_so >= 0)
            rstart = strtoull(i + match[1].rm_so, NULL, 10);"""),
               ('src/lib/dl/multipart.c', '"content-range: *bytes *([0-9]+) *- *([0-9]+) */[0-9]+";',
                '"content-range: *bytes *([0-9]+)? *- *([0-9]+) */[0-9]+";')],
     'expect': None},
    {'id': 'n17h', 'desc': 'mandatory groups, quoted boundary: strtoull at the sub-match offset is fine',
     'file': 'src/lib/dl/multipart.c',
     'old': """        size_t rstart = 0;
        for(char *c=i + match[1].rm_so; c < i + match[1].rm_eo; c++)
            rstart = rstart*10 + (size_t)(c[0] - 48);""",
     'new': """        size_t rstart = strtoull(i + match[1].rm_so, NULL, 10);""", 'expect': None},
    {'id': 'm39', 'desc': 'failed compile leaves the allocated regex', 'file': 'src/lib/dl/multipart.c',
     'old': """        /* Never leave an allocated but uncompiled regex behind */
        free(dl->dl_regex);
        dl->dl_regex = NULL;
        return false;""", 'new2': None, 'new': """        return false;""", 'expect': 'R6.regex gen_regex [exit:dl_regex]'},
    {'id': 'm40', 'desc': 'boundary buffer without the terminator byte', 'file': 'src/lib/dl/multipart.c',
     'old': 'char *buf = zmalloc(size+1);', 'new': 'char *buf = zmalloc(size);',
     'expect': 'R4.alloc-copy multipart_get_boundary'},
    {'id': 'm17q', 'desc': 'quote stripping allowed for a one-character value (seeded c17)',
     'file': 'src/lib/dl/multipart.c',
     'old': """        if (boundary_start[0] == '\\"' && boundary_length > 2""",
     'new': """        if (boundary_start[0] == '\\"' && boundary_length > 0""",
     'expect': 'R9.unsigned-sub multipart_get_boundary'},
    {'id': 'm17m', 'desc': 'multipart buffer grows by one byte less', 'file': 'src/lib/dl/multipart.c',
     'old': 'buf = zrealloc(mp->buffer, mp->buffer_len + l);', 'new': 'buf = zrealloc(mp->buffer, mp->buffer_len + l - 1);',
     'expect': 'R4.alloc-copy multipart_extract'},
    {'id': 'm17l', 'desc': 'part length decremented on the wrong branch', 'file': 'src/lib/dl/multipart.c',
     'old': """            if(mp->length <= size) {
                size = mp->length;
                mp->length = 0;
                mp->state = 0;
                header_start = i + size;
            } else {
                mp->length -= size;
            }""", 'new': """            if(mp->length < size) {
                size = mp->length;
                mp->state = 0;
                header_start = i + size;
            }
            mp->length -= size;
            if(mp->length == 0)
                mp->state = 0;""", 'expect': None},
]


# SESSION7 additions to the claim (clauses added in DESIGN section 12)
CLAIM['technique'] += '; fixed-size array extents and size pairs in the download units'
CLAIM['text'] += " C17-f/g: the callbacks' fixed-size scratch arrays and carried-over buffers are accessed within their extents."


# SESSION7b additions to the claim (round 8, DESIGN 12.6)
CLAIM['technique'] += '; log.c arrays'
CLAIM['text'] += ''

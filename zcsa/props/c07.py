"""C07  Pinned header validation accepts exactly the authenticated header.

C07-a  every `return true` of read_lead passes, per pin (prep_hash_type, prep_digest,
       prep_hdr_size), the pin-unset edge or an EQUALITY edge against the stored value;
       the digest comparison is a memcmp of digest_size bytes against the bytes at the digest
       location; the length comparison is against header_length + lead length.
C07-b  zck_set_soption(ZCK_VAL_HEADER_DIGEST): prep_digest is assigned only after the hash
       type pin exists, after the digest_size*2 == length test, from ascii_checksum_to_bin,
       which returns NULL whenever hex_to_int is negative for a character.
C07-c  {c : hex_to_int(c) >= 0} = [0-9A-Fa-f] with values 0..15 (piecewise-affine abstract
       interpretation over the whole char range).
C07-d  zck_validate_lead returns read_lead's verdict and restores offset 0 on every
       non-failure exit.
C07-h  a pin stored through a narrowing conversion (ssize_t option value -> int) is range-tested first; the pinned
       total length is compared with header_length + lead length only where an edge proves the sum representable.
C07-g  no success exit of an option setter leaves a pin field freed or reset to its unset value: a pin in
       force stays in force (setting another pin must not silently drop the digest pin).
"""
from ..flow import M1, NEG, Z, P1, POS, POSITIVE, NONNEG, NEGATIVE, TOP, mask_str, Engine, Rule
from ..ir import strip, strip_transparent, show, callee_name, const_value, walk, calls_in
from ..program import rel, all_exprs, unique_defs
from ..rules.common import (FactRule, SymRule, GateRule, run_rule, call_name, calls_of, pstr, last_field, Lin, lin,
                            atom_cmp, origin_names)
from ..rules.absint import AffineInterp, describe_set
from ..rules import errdisc
from ..frontend import AnalysisBroken

DS = 'zck->hash_type.digest_size'
PINS = ('prep_hash_type', 'prep_digest', 'prep_hdr_size')


class PinRule(SymRule):
    name = 'R2.pin'

    def __init__(self, prog, fn):
        SymRule.__init__(self, prog, fn)
        self.details = {}
        self.success_exits = 0

    def sym_assign(self, ctx, lhs, rhs, op, ts):
        f = last_field(lhs)
        if f == 'hdr_digest_loc' and op == '=':
            v = self.value(rhs, ts)
            if v is not None and not (v.is_const() and v.c == 0):
                ts = self.set_key(ts, ('f', '@D'), v)
        if f == 'header_length' and op == '=' and rhs is not None:
            v = self.value(rhs, ts)
            if v is not None and not v.is_const():
                ts = self.set_key(ts, ('f', '@N'), v)
        return ts

    def on_edge(self, ctx, node, label, refined, ts):
        if ctx.fn is not self.fn:
            return ts
        op, l, r = atom_cmp(node.e, label)
        ts = self.nowrap_fact(op, l, r, ts)
        for side, other in ((l, r), (r, l)):
            f = last_field(side)
            if f in PINS and strip(side).k == 'mem':
                cv = const_value(other)
                # pin not set: prep_x <= -1 / < 0 / == -1 / pointer == NULL
                unset = False
                if f == 'prep_digest':
                    unset = (op == '==' and cv == 0)
                elif cv is not None:
                    o = op if side is l else {'<': '>', '>': '<', '<=': '>=', '>=': '<=', '==': '==', '!=': '!='}[op]
                    unset = (o == '<=' and cv == -1) or (o == '<' and cv == 0) or (o == '==' and cv == -1)
                if unset:
                    ts = ts | frozenset(['pin:' + f])
                    self.details.setdefault(f, set()).add('unset edge')
                elif op == '==' and cv is None and f != 'prep_digest':
                    if self.check_equal(ctx, f, other, ts):
                        ts = ts | frozenset(['pin:' + f])
        # memcmp(prep_digest, header + D, digest_size) == 0
        a = strip_transparent(l)
        if a.k == 'call' and callee_name(a) in ('memcmp', 'strncmp', 'strcmp', 'bcmp'):
            args = a.a[1:]
            names = [pstr(x, self.subst) for x in args]
            if any('prep_digest' in n for n in names[:2]):
                if op == '==' and const_value(r) == 0:
                    ok = callee_name(a) == 'memcmp' and len(args) == 3 and names[2] == DS
                    other = args[1] if 'prep_digest' in names[0] else args[0]
                    env, fields = self.env_of(ts)
                    ov = self.value(other, ts)
                    d = fields.get('@D')
                    loc_ok = ov is not None and d is not None and (ov - d).c == 0 and len((ov - d).t) == 1
                    self.details.setdefault('prep_digest', set()).add(
                        '%s(%s) at stored offset %s' % (callee_name(a), ', '.join(names), 'D' if loc_ok else '?'))
                    if ok and loc_ok:
                        ts = ts | frozenset(['pin:prep_digest'])
                    else:
                        ts = ts | frozenset(['bad:prep_digest'])
        return ts

    BIG = 2 ** 63 - 1

    def nowrap_fact(self, op, l, r, ts):
        """An edge that proves a sum of unsigned quantities representable: X <= MAX - Y (MAX a constant of at least
        2^63), or the wrap idiom A <= A + B.  Recorded as ('nowrap', X + Y)."""
        lv, rv = self.value(l, ts), self.value(r, ts)
        if lv is None or rv is None:
            return ts
        if op in ('>', '>='):
            lv, rv, op = rv, lv, {'>': '<', '>=': '<='}[op]
        if op in ('<', '<='):
            if rv.c >= self.BIG and all(c < 0 for c in rv.t.values()) and all(c > 0 for c in lv.t.values()) and lv.c >= 0:
                total = lv - Lin(rv.t, 0)       # X + Y
                ts = ts | frozenset([('nowrap', Lin(total.t, 0))])
            d = rv - lv
            if lv.t and d.c == 0 and d.t and all(c > 0 for c in d.t.values()) and all(c > 0 for c in lv.t.values()):
                ts = ts | frozenset([('nowrap', Lin(rv.t, 0))])     # A <= A + B
        return ts

    def check_equal(self, ctx, f, other, ts):
        if f == 'prep_hash_type':
            # the stored value: a local decoded from the lead by compint_to_int
            self.details.setdefault(f, set()).add('== ' + show(strip(other)))
            return strip(other).k == 'var' or last_field(other) == 'type'
        if f == 'prep_hdr_size':
            v = self.value(other, ts)
            env, fields = self.env_of(ts)
            d = fields.get('@D')
            n = fields.get('@N')
            self.details.setdefault(f, set()).add('== %r' % (v,))
            if v is None or d is None:
                return False
            want = Lin({'zck->header_length': 1}) + d + Lin({DS: 1})
            if v != want:
                return False
            # the sum must be representable: header_length comes from the file as a full 64-bit value, and a sum
            # that wraps compares equal to a small pinned length
            vv = v.subst('zck->header_length', n) if n is not None else v
            facts = [x[1] for x in ts if isinstance(x, tuple) and len(x) == 2 and x[0] == 'nowrap']
            ok = any(all(fk.t.get(k, 0) >= c for k, c in vv.t.items()) for fk in facts)
            self.details.setdefault(f, set()).add('sum proven representable' if ok else 'sum may wrap')
            if not ok:
                self.wrap = getattr(self, 'wrap', []) + [ctx.node]
            return ok
        return False

    def on_return(self, ctx, node, mask, ts):
        if ctx.fn is self.fn and mask & (P1 | POS):
            self.success_exits += 1
            for p in PINS:
                if 'pin:' + p not in ts:
                    self.violate(ctx, 'pin', 'success exit of read_lead without %s: neither the pin-unset edge nor an '
                                 'equality edge against the stored value was passed%s%s' % (
                                     p, ' (comparison present but not memcmp over digest_size at the digest location)'
                                     if 'bad:' + p in ts else '',
                                     ' (the compared sum header_length + lead length can wrap: no edge on the path bounds '
                                     'the 64-bit header length read from the file, so a stored length of 2^64 - k is '
                                     'accepted for a small pinned length)' if p == 'prep_hdr_size' and getattr(self, 'wrap', None)
                                     else ''), inst=p, node=node)
        return ts


class PinKeep(FactRule):
    """Success exits of an option setter: no pin field was last written with its 'unset' value (NULL / negative
    constant) or freed without being assigned a fresh value afterwards."""
    name = 'R6.pin-keep'

    def __init__(self, prog, fn):
        FactRule.__init__(self, prog, fn)
        self.success_exits = 0
        self.events = 0

    def on_call(self, ctx, call, ts):
        if ctx.fn is self.fn and callee_name(call) == 'free' and len(call.a) > 1:
            a = strip(call.a[1])
            if a is not None and a.k == 'mem' and a.op in PINS:
                self.events += 1
                ts = ts | frozenset(['dropped:' + a.op])
        return ts

    def on_edge(self, ctx, node, label, refined, ts):
        # upper bounds of locals/parameters established by comparisons with constants
        if ctx.fn is not self.fn:
            return ts
        op, l, r = atom_cmp(node.e, label)
        sl = strip(l)
        cv = const_value(r)
        if sl is not None and sl.k == 'var' and cv is not None:
            if op == '<=':
                ts = ts | frozenset([('ub', sl.decl, cv)])
            elif op == '<':
                ts = ts | frozenset([('ub', sl.decl, cv - 1)])
        return ts

    def on_assign(self, ctx, lhs, rhs, op, value, ts):
        if ctx.fn is not self.fn:
            return ts
        l = strip(lhs)
        if l is not None and l.k == 'var' and op.endswith('='):
            ts = frozenset(x for x in ts if not (isinstance(x, tuple) and x[0] == 'ub' and x[1] == l.decl))
        if l is None or l.k != 'mem' or l.op not in PINS or op != '=':
            return ts
        # a pin stored through a narrowing conversion needs a range test on the wide value first
        from ..ir import type_width
        src = rhs
        while src is not None and src.k == 'cast' and src.a:
            src = src.a[0]
        wl, ws = type_width(l.t, l.dt), (type_width(src.t, src.dt) if src is not None else None)
        if src is not None and src.k == 'var' and wl and ws and ws > wl:
            self.narrow_sites = getattr(self, 'narrow_sites', 0) + 1
            lim = (1 << (wl - 1)) - 1
            ubs = [x[2] for x in ts if isinstance(x, tuple) and x[0] == 'ub' and x[1] == src.decl]
            if not any(u <= lim for u in ubs):
                self.violate(ctx, 'pin-narrowed', '%s = %s: the %d-bit option value is stored into a %d-bit pin without a '
                             'range test; a pin of k + 2^%d is accepted and then matches a file whose stored value is k' % (
                                 show(lhs), show(rhs), ws, wl, wl), inst='narrow:' + l.op)
        self.events += 1
        cv = const_value(rhs) if rhs is not None else None
        unset = cv is not None and ((l.op == 'prep_digest' and cv == 0) or (l.op != 'prep_digest' and cv < 0))
        if unset:
            return ts | frozenset(['dropped:' + l.op])
        return ts - frozenset(['dropped:' + l.op])

    def on_return(self, ctx, node, mask, ts):
        if ctx.fn is self.fn and mask & (P1 | POS):
            self.success_exits += 1
            for p in PINS:
                if 'dropped:' + p in ts:
                    self.violate(ctx, 'pin-dropped', '%s() can return success after releasing or unsetting %s: a pin '
                                 'the caller put in force earlier is silently dropped, and the next lead is accepted '
                                 'without that comparison' % (self.fn.name, p), inst=p, node=node)
        return ts


def pin_persistence(ck, prog, config):
    n = 0
    for name in ('zck_set_ioption', 'zck_set_soption'):
        fn = prog.need_func(name)
        r = PinKeep(prog, fn)
        run_rule(prog, fn, r)
        ck.require(r.success_exits >= 1, '%s has no success exit' % name)
        n += r.events
        nar = [v for v in r.violations if v.kind == 'pin-narrowed']
        r.violations = [v for v in r.violations if v.kind != 'pin-narrowed']
        if getattr(r, 'narrow_sites', 0) or nar:
            ck.ob('C07-h', 'R9.narrow-store', name, 'pin-width', not nar,
                  'a pin stored through a narrowing conversion is range-tested on the wide value first (%d site(s))'
                  % getattr(r, 'narrow_sites', 0) if not nar else nar[0].msg, fn.file,
                  nar[0].node.line if nar else fn.line, path=nar[0].path if nar else None, config=config)
        ck.ob('C07-g', 'R6.pin-keep', name, 'pins', not r.violations,
              'no success exit of %s leaves a pin field freed or reset to its unset value (%d pin writes followed '
              'over %d success exits)' % (name, r.events, r.success_exits) if not r.violations else r.violations[0].msg,
              fn.file, r.violations[0].node.line if r.violations else fn.line,
              path=r.violations[0].path if r.violations else None, config=config)
    ck.min_instances('pin writes in the option setters', n, 3)
    # who may touch a pin: the option setters set them, and what releases the context's resources may drop them only on
    # the way to freeing the context.  A function that clears or frees a pin and is reachable from an entry point other
    # than zck_free() (an init that "releases what the previous file left") un-pins a context the caller believes pinned
    PINS = ('prep_digest', 'prep_hash_type', 'prep_hdr_size')
    SETTERS = ('zck_set_ioption', 'zck_set_soption')
    writers = {}
    for f_ in prog.lib_funcs():
        if f_.body is None:
            continue
        for ex in all_exprs(f_):
            for n_ in walk(ex):
                if n_.k == 'bin' and n_.op.endswith('=') and n_.op not in ('==', '!=', '<=', '>='):
                    l_ = strip(n_.a[0])
                    if l_ is not None and l_.k == 'mem' and l_.op in PINS:
                        writers.setdefault(f_.qname, (f_, n_, 'assigns %s' % l_.op))
                elif n_.k == 'call' and callee_name(n_) == 'free' and len(n_.a) > 1:
                    a_ = strip(n_.a[1])
                    if a_ is not None and a_.k == 'mem' and a_.op in PINS:
                        writers.setdefault(f_.qname, (f_, n_, 'frees %s' % a_.op))
    callers = prog.callers()
    bad = []
    for q_, (f_, n_, how_) in sorted(writers.items()):
        if f_.name in SETTERS:
            continue
        if 'zckCtx' in (f_.rtype or '') and (f_.rtype or '').rstrip().endswith('*'):
            continue        # the constructor gives a fresh context its unset pins
        # every chain of callers must end in zck_free
        seen_, stack_ = set(), [f_]
        while stack_:
            g_ = stack_.pop()
            if g_.qname in seen_:
                continue
            seen_.add(g_.qname)
            cs_ = callers.get(g_.qname, [])
            if g_.name == 'zck_free':
                continue
            if any('visibility' in str(a_).lower() for a_ in (g_.attrs or [])):
                bad.append((f_, n_, how_, g_.name))      # a public entry point other than the release of the context
                continue
            for cf_, c_ in cs_:
                if prog.is_lib_unit(cf_.unit):
                    stack_.append(cf_)
    ck.ob('C07-j', 'R7.pin-writers', 'pins', 'who-may-clear', not bad,
          '%d function(s) write a pin: the option setters, and %s reachable only from zck_free()' % (
              len(writers), ', '.join(sorted(f_.name for f_, _, _ in writers.values() if f_.name not in SETTERS)) or 'none')
          if not bad else '%s() %s and is reachable from %s(), which is not the release of the context: a pinned context '
          'silently loses that pin (a NULL prep_digest means "no digest pinned") while the caller still relies on it'
          % (bad[0][0].name, bad[0][2], bad[0][3]), bad[0][1].file if bad else None, bad[0][1].line if bad else 0,
          config=config)


class NegToPtr(errdisc.SiteRule):
    pass


def run(ctx):
    ck = ctx.check
    ck.explanation = (
        'Pin gates of read_lead as a fact typestate over all paths (each success exit must pass, per pin, the unset '
        'edge or an equality edge against the stored value, with linear forms for the length and the digest offset); '
        'option-setter order facts; exact accepted set and value map of hex_to_int by a piecewise-affine abstract '
        'interpreter over the whole char range; verdict propagation and offset restore in zck_validate_lead.')
    for config in ctx.configs():
        prog = ctx.prog(config)
        # ---- a
        rl = prog.need_func('read_lead')
        # ---- i  no pin is compared after a narrowing conversion (equality modulo 2^32 is not equality)
        from ..rules import extra as _x7
        _x7.check_narrow_compare(ck, prog, config, 'C07-i', ('src/lib/header.c',), what='pinned or stored header value')
        r = PinRule(prog, rl)
        run_rule(prog, rl, r)
        ck.require(r.success_exits >= 1, 'read_lead has no success exit')
        for p in PINS:
            vs = [v for v in r.violations if v.inst == p]
            ck.ob('C07-a', 'R2.pin', rl.name, p, not vs,
                  'every success exit passes the %s gate (%s)' % (p, '; '.join(sorted(r.details.get(p, [])))[:160])
                  if not vs else vs[0].msg, rl.file, vs[0].node.line if vs else rl.line,
                  path=vs[0].path if vs else None, config=config,
                  sample={'pin': p, 'edges': sorted(r.details.get(p, []))})
        # ---- e  the pins belong to the caller's request: only the option setters and the context life-cycle may
        #         write, free or hand over the pin fields
        PIN_FIELDS = ('prep_digest', 'prep_hash_type', 'prep_hdr_size')
        OWNERS = {'zck_set_soption': 'string option setter', 'zck_set_ioption': 'integer option setter',
                  'zck_clear': 'context clean-up', 'zck_create': 'context creation', 'zck_free': 'context clean-up',
                  'zck_init_adv_read': 'context initialisation', 'zck_init_read': 'context initialisation'}
        from ..rules.common import assigned_fields
        from ..program import all_exprs
        from ..ir import calls_in
        nw = 0
        for fn in sorted(prog.lib_funcs(), key=lambda f: f.qname):
            bad = []
            for (l, r_, op, node) in assigned_fields(fn):
                if strip(l).op in PIN_FIELDS:
                    nw += 1
                    if fn.name not in OWNERS:
                        bad.append((node.line, 'writes %s' % show(node)[:50]))
                # the pin's buffer handed to another field
                if r_ is not None and strip(r_) is not None and strip(r_).k == 'mem' and strip(r_).op == 'prep_digest' \
                        and strip(l).op != 'prep_digest':
                    bad.append((node.line, 'hands the pinned digest buffer to %s' % show(l)[:40]))
            for ex in all_exprs(fn):
                for c in calls_in(ex):
                    if callee_name(c) == 'free' and len(c.a) > 1 and strip(c.a[1]) is not None and \
                            strip(c.a[1]).k == 'mem' and strip(c.a[1]).op == 'prep_digest':
                        nw += 1
                        if fn.name not in OWNERS:
                            bad.append((c.line, 'frees the pinned digest'))
            for line, what in bad:
                ck.ob('C07-e', 'R7.pin-owner', fn.name, what.split()[0] + ':' + what.split()[-1][:30], False,
                      '%s %s: a pin set by the caller must stay in force for every lead read on the context; only the '
                      'option setters and the context life-cycle functions may change it' % (fn.name, what),
                      fn.file, line, config=config)
        ck.ob('C07-e', 'R7.pin-owner', '*', 'owners', True,
              '%d write/free site(s) of the pin fields, all in %s' % (nw, ', '.join(sorted(OWNERS))), config=config)
        ck.min_instances('write/free sites of the pin fields', nw, 4)
        # ---- g  a pin in force is never dropped by a successful setter call
        pin_persistence(ck, prog, config)
        # ---- b
        so = prog.need_func('zck_set_soption')

        class SetRule(FactRule):
            name = 'R2.order'

            def __init__(s, prog, fn):
                FactRule.__init__(s, prog, fn)
                s.assigns = 0

            def on_edge(s, c2, node, label, refined, ts):
                op, l, rr = atom_cmp(node.e, label)
                if last_field(l) == 'prep_hash_type' and ((op == '>=' and const_value(rr) == 0) or
                                                          (op == '>' and const_value(rr) == -1)):
                    ts = ts | frozenset(['type-pinned'])
                names = (pstr(l, s.subst), pstr(rr, s.subst))
                ll, lr = lin(l, s.subst), lin(rr, s.subst)
                if op == '==' and ll is not None and lr is not None:
                    d = ll - lr
                    # digest_size*2 == length
                    keys = sorted(d.t.items())
                    if len(keys) == 2 and d.c == 0 and any(k.endswith('digest_size') and abs(v) == 2 for k, v in keys) \
                            and any(k == 'length' and abs(v) == 1 for k, v in keys):
                        ts = ts | frozenset(['length-checked'])
                for expr, origins, before, after in refined:
                    if 'hash_setup' in origins and after & ~(P1 | POS) == 0:
                        ts = ts | frozenset(['type-valid'])
                return ts

            def on_assign(s, c2, lhs, rhs, op, value, ts):
                if last_field(lhs) == 'prep_digest' and c2.fn is s.fn:
                    s.assigns += 1
                    src = set(callee_name(n) for n in walk(rhs) if n.k == 'call') if rhs is not None else set()
                    missing = [f for f in ('type-pinned', 'type-valid', 'length-checked') if f not in ts]
                    if 'ascii_checksum_to_bin' not in src:
                        s.violate(c2, 'source', 'prep_digest assigned from %s, not from ascii_checksum_to_bin()' %
                                  show(rhs), inst='source')
                    if missing:
                        s.violate(c2, 'order', 'prep_digest assigned before: %s' % ', '.join(missing), inst='order')
                return ts
        sr = SetRule(prog, so)
        run_rule(prog, so, sr)
        ck.require(sr.assigns >= 1, 'zck_set_soption no longer assigns prep_digest')
        ck.ob('C07-b', 'R2.order', so.name, 'prep_digest', not sr.violations,
              'prep_digest := ascii_checksum_to_bin(...) only after prep_hash_type >= 0, hash_setup success and '
              'digest_size*2 == length' if not sr.violations else sr.violations[0].msg, so.file,
              sr.violations[0].node.line if sr.violations else so.line,
              path=sr.violations[0].path if sr.violations else None, config=config)
        # NULL result is an error: success exit needs prep_digest != NULL edge
        gr = GateRule(prog, so, {}, P1 | POS)

        def null_edge(rule, c2, node, label, refined, ts):
            op, l, rr = atom_cmp(node.e, label)
            if last_field(l) == 'prep_digest' and op == '!=' and const_value(rr) == 0:
                ts = ts | frozenset(['nonnull'])
            if last_field(l) == 'prep_digest' and op == '==' and const_value(rr) == 0:
                ts = ts | frozenset(['null'])
            return ts
        gr.extra_edge = null_edge

        def on_ret(c2, node, mask, ts, gr=gr):
            if c2.fn is so and mask & (P1 | POS) and 'null' in ts:
                gr.violate(c2, 'null', 'zck_set_soption succeeds although the digest conversion returned NULL',
                           inst='null', node=node)
            return ts
        gr.on_return = on_ret
        run_rule(prog, so, gr)
        ck.ob('C07-b', 'R2.gate', so.name, 'conversion-null', not gr.violations,
              'a NULL conversion result never reaches a success exit' if not gr.violations else gr.violations[0].msg,
              so.file, gr.violations[0].node.line if gr.violations else so.line, config=config)
        # ascii_checksum_to_bin: a negative hex_to_int result never reaches a non-NULL return
        ac = prog.need_func('ascii_checksum_to_bin')
        hs = calls_of(ac, ('hex_to_int',))
        ck.require(len(hs) >= 1, 'ascii_checksum_to_bin no longer calls hex_to_int')
        convs = errdisc.Conventions(prog)
        for k, h in enumerate(hs):
            rule = errdisc.SiteRule(prog, convs, ac, h, 'hex_to_int', 'neg', M1 | Z | P1 | POS, 'ptr',
                                    unique_defs(ac), 'io')
            eng = Engine(prog, rule)
            eng.summary(ac, 'pre')
            ck.ob('C07-b', 'R1.errdisc', ac.name, 'hex_to_int#%d' % (k + 1), not rule.violations,
                  'a negative hex_to_int() result never reaches a non-NULL return' if not rule.violations else
                  'non-hex character accepted: the -1 of hex_to_int() is not tested on its own before it is used (%s)'
                  % rule.violations[0]['what'], h.file, h.line, config=config)
        # the loop visits every character exactly once (semantic form: any loop spelling)
        from ..rules.indexwalk import check_index_walk
        check_index_walk(ck, prog, config, 'C07-b', ac, 'checksum', 'checksum_length', 'hex_to_int')
        # ---- c
        hx = prog.need_func('hex_to_int')
        res = AffineInterp(hx, -128, 127).run()
        accepted = {}
        for lo, hi, v, line in res:
            for c in range(lo, hi + 1):
                val = v.at(c)
                if val >= 0:
                    accepted[c] = val
        spec = {}
        for i, ch in enumerate('0123456789'):
            spec[ord(ch)] = i
        for i, ch in enumerate('abcdef'):
            spec[ord(ch)] = 10 + i
            spec[ord(ch.upper())] = 10 + i
        extra = sorted(set(accepted) - set(spec))
        missing = sorted(set(spec) - set(accepted))
        wrong = sorted(c for c in spec if c in accepted and accepted[c] != spec[c])
        pieces = ['[%d,%d] -> %r' % (lo, hi, v) for lo, hi, v, line in res if v.a != 0 or v.b >= 0]
        ok = not extra and not missing and not wrong
        msg = 'accepted set = [0-9A-Fa-f], values 0..15 (%d pieces of the char range)' % len(res)
        if not ok:
            msg = 'hex_to_int accepted set differs from [0-9A-Fa-f]:'
            if extra:
                msg += ' also accepts %s' % describe_set(extra)
            if missing:
                msg += ' rejects %s' % describe_set(missing)
            if wrong:
                msg += ' wrong value for %s' % describe_set(wrong)
        ck.ob('C07-c', 'R9.affine', hx.name, 'accepted-set', ok, msg, hx.file, hx.line, config=config,
              sample={'function': 'hex_to_int', 'domain': '[-128,127]', 'pieces': pieces[:20],
                      'accepted': describe_set(sorted(accepted))})
        ck.extra['hex_to_int_partition'] = ['[%d,%d] -> %r' % (lo, hi, v) for lo, hi, v, line in res]
        # ---- d
        vl = prog.need_func('zck_validate_lead')
        g2 = GateRule(prog, vl, {'read_lead': P1 | POS, 'seek_data': P1 | POS}, P1 | POS)
        run_rule(prog, vl, g2)
        ck.require(g2.success_exits >= 1, 'zck_validate_lead has no success exit')
        ck.ob('C07-d', 'R2.gate', vl.name, 'verdict+rewind', not g2.violations,
              'success exits return read_lead\'s verdict after seek_data(...) succeeded' if not g2.violations else
              g2.violations[0].msg, vl.file, g2.violations[0].node.line if g2.violations else vl.line,
              path=g2.violations[0].path if g2.violations else None, config=config)
        sk = calls_of(vl, ('seek_data',))
        okseek = len(sk) >= 1 and all(const_value(c.a[2]) == 0 and const_value(c.a[3]) == 0 for c in sk)
        ck.ob('C07-d', 'R4.extent', vl.name, 'rewind-to-0', okseek,
              'seek_data(zck, 0, SEEK_SET) restores the stream position' if okseek else
              'zck_validate_lead does not seek back to offset 0 / SEEK_SET', vl.file, sk[0].line if sk else vl.line,
              config=config)


CLAIM = {
    'technique': 'fact typestate over all paths of read_lead (pin gates with linear forms), order facts in the option '
                 'setter, piecewise-affine abstract interpretation of hex_to_int over the whole char range, pin-ownership inventory (who may write, free or hand over the pin fields), pin-persistence typestate over the option setters',
    'text': 'static analysis: decides C07-a..d - each success exit of read_lead passes, per pin, the unset edge or an '
            'equality edge against the stored value (memcmp over digest_size at the digest offset; header_length + '
            'lead length); the digest pin is only installed after type and length checks from a conversion that '
            'rejects every non-hex character; the accepted set of hex_to_int is computed exactly by abstract '
            'interpretation and equals [0-9A-Fa-f] -> 0..15; zck_validate_lead propagates the verdict and rewinds. C07-e: only the option setters and the context life-cycle write, free or hand over the pins. C07-g: no successful setter call drops a pin that is in force.',
    'note': 'trusted: clang 14 front end; the affine fragment (anything else is analysis-broken); char is signed 8 bit',
}

MUTANTS = [
    {'id': 'm07g', 'desc': 'hash type setter drops the digest pin (seeded c07r4)', 'file': 'src/lib/zck.c',
     'old': """        if(zck->prep_digest != NULL) {
            set_error(zck, "For validation, you must set the header hash type "
                           "*before* the header digest itself");
            return false;
        }""", 'new': """        if(zck->prep_digest != NULL && zck->prep_hash_type != value) {
            free(zck->prep_digest);
            zck->prep_digest = NULL;
        }""", 'expect': 'R6.pin-keep zck_set_ioption'},
    {'id': 'm07o', 'desc': 'read_lead takes the pinned digest buffer over (seeded c07r3)', 'file': 'src/lib/header.c',
     'old': """    memcpy(zck->header_digest, header + length, zck->hash_type.digest_size);
    length += zck->hash_type.digest_size;""",
     'new': """    memcpy(zck->header_digest, header + length, zck->hash_type.digest_size);
    if(zck->prep_digest) {
        free(zck->header_digest);
        zck->header_digest = zck->prep_digest;
        zck->prep_digest = NULL;
    }
    length += zck->hash_type.digest_size;""", 'expect': 'R7.pin-owner read_lead'},
    {'id': 'm06', 'desc': 'read_lead: digest pin check removed', 'file': 'src/lib/header.c',
     'old': """    if(zck->prep_digest &&
       memcmp(zck->prep_digest, header + length, zck->hash_type.digest_size) != 0) {""",
     'new': """    if(zck->prep_digest && zck->prep_hash_type > 64 &&
       memcmp(zck->prep_digest, header + length, zck->hash_type.digest_size) != 0) {""",
     'expect': 'R2.pin read_lead [prep_digest]'},
    {'id': 'm07', 'desc': 'read_lead: length pin compared with <', 'file': 'src/lib/header.c',
     'old': '(size_t)zck->prep_hdr_size != zck->header_length + length) {',
     'new': '(size_t)zck->prep_hdr_size < zck->header_length + length) {',
     'expect': 'R2.pin read_lead [prep_hdr_size]'},
    {'id': 'm07b', 'desc': 'read_lead: length pin compared against header_length only', 'file': 'src/lib/header.c',
     'old': '(size_t)zck->prep_hdr_size != zck->header_length + length) {',
     'new': '(size_t)zck->prep_hdr_size != zck->header_length) {',
     'expect': 'R2.pin read_lead [prep_hdr_size]'},
    {'id': 'm07c', 'desc': 'read_lead: digest pin compared over 8 bytes', 'file': 'src/lib/header.c',
     'old': 'memcmp(zck->prep_digest, header + length, zck->hash_type.digest_size) != 0) {',
     'new': 'memcmp(zck->prep_digest, header + length, 8) != 0) {',
     'expect': 'R2.pin read_lead [prep_digest]'},
    {'id': 'm07d', 'desc': 'read_lead: hash type pin only checked for type > 0', 'file': 'src/lib/header.c',
     'old': 'if(zck->prep_hash_type > -1 && zck->prep_hash_type != hash_type) {',
     'new': 'if(zck->prep_hash_type > 0 && zck->prep_hash_type != hash_type) {',
     'expect': 'R2.pin read_lead [prep_hash_type]'},
    {'id': 'm08', 'desc': 'hex_to_int accepts g', 'file': 'src/lib/zck.c',
     'old': "c <= 'f'", 'new': "c <= 'g'", 'expect': 'R9.affine hex_to_int'},
    {'id': 'm09', 'desc': 'zck_set_soption: length test dropped', 'file': 'src/lib/zck.c',
     'old': 'if(chk_type.digest_size*2 != length) {', 'new': 'if(chk_type.digest_size*2 > length) {',
     'expect': 'R2.order zck_set_soption'},
    {'id': 'm09b', 'desc': 'ascii_checksum_to_bin: negative value only logged', 'file': 'src/lib/zck.c',
     'old': """        if (cksum < 0) {
            free(raw_checksum);
            return NULL;
        }""", 'new': """        if (cksum < 0)
            zck_log(ZCK_LOG_WARNING, "Non-hex character in checksum");""",
     'expect': 'R1.errdisc ascii_checksum_to_bin'},
    {'id': 'm07e', 'desc': 'zck_validate_lead returns true when the rewind works', 'file': 'src/lib/header.c',
     'old': """    if(!seek_data(zck, 0, SEEK_SET))
        return false;
    return retval;""", 'new': """    if(!seek_data(zck, 0, SEEK_SET))
        return false;
    return true;""", 'expect': 'R2.gate zck_validate_lead'},
    {'id': 'n07a', 'desc': 'pin test written the other way round', 'file': 'src/lib/header.c',
     'old': 'if(zck->prep_hash_type > -1 && zck->prep_hash_type != hash_type) {',
     'new': 'if(zck->prep_hash_type >= 0 && hash_type != zck->prep_hash_type) {', 'expect': None},
]


# SESSION7 additions to the claim (clauses added in DESIGN section 12)
CLAIM['technique'] += '; narrowed-operand lint on the pin comparisons'
CLAIM['text'] += ' C07-i: no pin is compared after a narrowing conversion.'


# SESSION7b additions to the claim (round 8, DESIGN 12.6)
CLAIM['technique'] += '; who-may-clear inventory of the pin fields over the call graph'
CLAIM['text'] += ' C07-j: only the option setters, the constructor and functions reachable solely from zck_free() write or free a pin.'

"""C11  Interrupted updates resume; partial chunks are never trusted (mechanism part).

What makes resumption sound is that nothing is remembered and everything is re-derived:
C11-a  zckdl main: zck_find_valid_chunks(tgt) precedes the first range request, failed chunks are reset
       before the fetch loop, the target is opened without O_TRUNC.
C11-b  a truncated tail is never classified valid: read failures / short counts in the validity scan change
       the verdict, the scan hashes exactly what it read (shared with C09-c/f); a chunk becomes valid only
       under a digest comparison (C05-a) and the write window is armed only for the matching chunk (C05-b).
C11-c  the download write path uses unbuffered descriptor I/O only (no FILE* writer reachable from the
       callbacks), so what was written before an interruption is on the descriptor.
C11-d  the restart's scan classifies every chunk (no early exit of the chunk loop except for a detached header), so
       a chunk that was completely written is found valid and not fetched again (shared with C09-d).
C11-e  the restart converges: exit status 0 of the restarted zckdl is reachable only with no chunk missing, through
       a whole-file gate and after ftruncate(dst_fd, zck_get_length(tgt)) - also on the path where the scan finds
       every chunk already valid (an interruption after the last chunk byte but before the final truncate
       leaves a longer pre-existing target with its old tail) (shared with C04-a).
Declined: the quantification over crash points and the on-disk intermediate states.
"""
from ..rules import dlmain, dlrules
from . import c09

CALLBACKS = ('zck_write_chunk_cb', 'zck_write_zck_header_cb', 'zck_header_cb')
STDIO_WRITERS = ('fwrite', 'fputs', 'fputc', 'putc', 'fprintf', 'vfprintf', 'fopen', 'fdopen', 'setvbuf', 'setbuf',
                 'fflush', 'puts', 'printf', 'putchar')


def run(ctx):
    ck = ctx.check
    ck.explanation = (
        'Resumption is decided through the mechanism it rests on: protocol order of zckdl main (typestate over all '
        'paths), open flags of the target, the read discipline and loop extents of the validity scan, the '
        'validity-flag inventory and the arming guard, and call-graph reachability showing that no buffered stdio '
        'writer is reachable from the download callbacks.  Crash points are not enumerated.')
    ck.declined += ['quantification over crash points and on-disk intermediate states']
    for config in ctx.configs():
        prog = ctx.prog(config)
        dlmain.check_protocol(ck, prog, config, {'scan-first': 'C11-a', 'reset-failed': 'C11-a', 'truncate': 'C11-e',
                                                 'complete': 'C11-e', 'gate': 'C11-e'})
        dlmain.check_open_flags(ck, prog, config, 'C11-a')
        # the copy step of the restart takes chunks from the source only, under the full match guard
        dlrules.copy_guard(ck, prog, config, 'C11-f')
        # what was received and verified is on disk: the download and copy paths never step over bytes
        from ..rules import extra as _x11
        _x11.check_no_forward_seek(ck, prog, config, 'C11-g', ('zck_write_chunk_cb', 'zck_write_zck_header_cb', 'zck_copy_chunks'),
                                   'download and copy path')
        c09.scan_reads(ck, prog, config, 'C11-b', 'C11-b')
        # the rescan takes a short count for the end of the file: the read wrapper must make the two coincide
        from ..rules import shorteof
        shorteof.check_short_is_eof(ck, prog, config, 'C11-b')
        c09.scan_loop_exits(ck, prog, config, 'C11-d')
        c09.verdict_store(ck, prog, config, 'C11-d')
        n = dlrules.valid_inventory(ck, prog, config, 'C11-b')
        ck.min_instances('stores to zckChunk.valid', n, 10)
        dlrules.arming_guard(ck, prog, config, 'C11-b')
        roots = [prog.need_func(c) for c in CALLBACKS]
        seen, ext = prog.reachable_calls(roots)
        bad = []
        for w in STDIO_WRITERS:
            for f, c in ext.get(w, []):
                bad.append((w, f, c))
        ck.ob('C11-c', 'R7.effects', 'download callbacks', 'no-buffered-writer', not bad,
              '%d functions reachable from the callbacks, none calls a buffered stdio writer' % len(seen) if not bad
              else 'buffered stdio writer reachable from a download callback: ' + ', '.join(
                  '%s() in %s' % (w, f.name) for w, f, c in bad), bad[0][2].file if bad else roots[0].file,
              bad[0][2].line if bad else roots[0].line, config=config)
        ck.min_instances('functions reachable from the download callbacks', len(seen), 10)


CLAIM = {
    'technique': 'protocol-order typestate over zckdl main(), open-flag check, read-discipline and loop-extent rules '
                 'of the validity scan, validity-flag inventory, arming guard, call-graph reachability (no buffered '
                 'writer below the callbacks), scan loop-exit and verdict-store rules shared with C09, exit-status obligations (complete, gate, truncate) on every path of the restart',
    'text': 'static analysis: decides C11-a..c (mechanism) - a restart re-derives validity from checksums before any '
            'request, resets failed chunks, never truncates the target on open; a short or failed read cannot classify '
            'a chunk valid and the scan hashes exactly what it read; chunks become valid only under a digest '
            'comparison; writes go straight to the descriptor. Crash points are not enumerated. C11-d: the restart\'s scan classifies every chunk and stores every verdict. C11-e: every exit with status 0 of the restarted tool has no chunk missing, passed a whole-file gate and truncated the target to the new length.',
    'note': 'trusted: clang 14 front end; O_TRUNC = 01000 (Linux); call graph over-approximates slots',
}

MUTANTS = [
    {'id': 'm11t', 'desc': 'all-valid restart path leaves without truncating (seeded c11r4)', 'file': 'src/zck_dl.c',
     'old': """            if(ftruncate(dst_fd, zck_get_length(zck_tgt)) < 0) {
                perror(NULL);
                exit_val = 10;
                goto out;
            }
            exit_val = 0;
            goto out;""", 'new': """            exit_val = 0;
            goto out;""", 'expect': 'R2.protocol zckdl main [truncate]'},
    {'id': 'm24', 'desc': 'failed chunks not reset', 'file': 'src/zck_dl.c',
     'old': """        zck_reset_failed_chunks(zck_tgt);""", 'new': '', 'expect': 'BROKEN'},
    {'id': 'm24b', 'desc': 'failed chunks reset only with a source', 'file': 'src/zck_dl.c',
     'old': """        zck_reset_failed_chunks(zck_tgt);""", 'new': """        if(zck_src)
            zck_reset_failed_chunks(zck_tgt);""", 'expect': 'R2.protocol zckdl main [reset-failed]'},
    {'id': 'm25', 'desc': 'target opened with O_TRUNC', 'file': 'src/zck_dl.c',
     'old': 'int dst_fd = open(outname, O_RDWR | O_CREAT, 0666);',
     'new': 'int dst_fd = open(outname, O_RDWR | O_CREAT | O_TRUNC, 0666);', 'expect': 'R7.open-flags'},
    {'id': 'm11s', 'desc': 'scan skipped when a source is given', 'file': 'src/zck_dl.c',
     'old': """        int retval = zck_find_valid_chunks(zck_tgt);
        if(retval == 0) {""", 'new': """        int retval = zck_src ? -1 : zck_find_valid_chunks(zck_tgt);
        if(retval == 0) {""", 'expect': 'R2.protocol zckdl main [scan-first]'},
    {'id': 'm11b', 'desc': 'buffered writer in the chunk callback', 'file': 'src/lib/dl/dl.c',
     'old': """    size_t wb = 0;
    dl->dl += l*c;""", 'new': """    size_t wb = 0;
    dl->dl += l*c;
    if(dl->write_data)
        fwrite(ptr, l, c, (FILE *)dl->write_data);""", 'expect': 'R7.effects'},
    {'id': 'm11r', 'desc': 'scan hashes the requested length after a short read', 'file': 'src/lib/hash/hash.c',
     'old': """                if(!hash_update(zck, &(zck->check_chunk_hash), buf, rb))
                    return 0;""", 'new': """                if(!hash_update(zck, &(zck->check_chunk_hash), buf, rsize))
                    return 0;""", 'expect': 'validate_checksums'},
]


# SESSION7 additions to the claim (clauses added in DESIGN section 12)
CLAIM['technique'] += '; copy guard shared with C08'
CLAIM['text'] += ' C11-f: the copy step of a restart uses source chunks only, under the full match guard.'


# SESSION7b additions to the claim (round 8, DESIGN 12.6)
CLAIM['technique'] += '; no-forward-seek on the download and copy paths'
CLAIM['text'] += ' C11-g: what was received and verified is on disk.'

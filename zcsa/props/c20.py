"""C20  Compressed-integer codec: bounded reads, exact value or rejection, no narrowing.

C20-a  compint_to_size: every read through the input pointer is preceded, since the last advance of the
       caller's cursor (*length), by a test *length < max_length (the caller's cursor, not a private count).
C20-b  interval interpretation with bounded unrolling: on every accepting path no arithmetic node leaves
       the range of its C type (no wrap, no int-width shift), at most MAX_COMP_SIZE bytes are read,
       consecutively from the pointer, *length advances by exactly the bytes read; on every rejecting
       path *length is restored; the accepted value interval of an n-byte encoding is [0, min(128^n - 1, SIZE_MAX)].
C20-c  compint_to_int: the size_t -> int narrowing is dominated by a range test (no value > INT_MAX accepted).
C20-d  MAX_COMP_SIZE = ceil(64/7) = 10; the encoder emits at most that many bytes; every encoder destination
       reserves enough bytes for the integers written into it.
C20-e  every decoder call site passes (base + cursor, &cursor, limit) with the same cursor in both places.
C20-f  the encoder emits exactly n bytes for values that need n seven-bit groups (interval run per range).
Declined: encode/decode value agreement bit for bit (relational arithmetic).
"""
from ..ir import strip, strip_transparent, show, callee_name, const_value, walk, walk_stmts, calls_in
from ..program import rel, all_exprs, unique_defs
from ..rules.common import calls_of, pstr, lin, Lin, last_field
from ..rules.absint import IntervalInterp, type_range
from ..frontend import AnalysisBroken

SIZE_MAX = 2 ** 64 - 1
INT_MAX = 2 ** 31 - 1
BIG = 2 ** 62


def dedup_events(evs):
    seen = set()
    out = []
    for e in evs:
        k = (e['line'], e['expr'], e['kind'])
        if k not in seen:
            seen.add(k)
            out.append(e)
    return out


def analyse_decoder(prog, fn, l0):
    it = IntervalInterp(prog, fn, input_params=('compint',), out_params=('val', 'length'))
    it.cursor_names = ('*length',)
    it.limit_names = ('max_length',)
    params = dict((p.op, p) for p in fn.params)
    init = {}
    for need in ('compint', 'val', 'length', 'max_length'):
        if need not in params:
            raise AnalysisBroken('%s: parameter %s not found (signature changed)' % (fn.name, need))
    init[('d', params['length'].decl, '*length')] = (l0, l0)
    init[('v', params['max_length'].decl, 'max_length')] = (l0, BIG)
    init[('d', params['val'].decl, '*val')] = (0, SIZE_MAX)
    return it, it.run(init), params


def decoder(ck, prog, config, ca='C20-a', cb='C20-b', cc='C20-c', cd='C20-d'):
    """Bounded reads, exact value / no wrap, cursor bookkeeping and narrowing of the two decoders."""
    fn = prog.need_func('compint_to_size')
    maxc = prog.macro('MAX_COMP_SIZE')
    ck.require(maxc is not None, 'MAX_COMP_SIZE cannot be evaluated')
    ck.ob(cd, 'R9.const', 'zck_private.h', 'MAX_COMP_SIZE', maxc == 10,
          'MAX_COMP_SIZE = %s (ceil(64/7) = 10 bytes hold every 64-bit value)' % maxc, config=config)
    unb = {}
    accept_n = {}
    problems = []
    n_accept = n_reject = 0
    for l0 in (0, 1000):
        it, exits, params = analyse_decoder(prog, fn, l0)
        kl = ('d', params['length'].decl, '*length')
        kv = ('d', params['val'].decl, '*val')
        for rv, st, node in exits:
            if rv is None:
                problems.append(('no-return', node.line, 'control reaches the end of the function'))
                continue
            reads = [r for r in st.reads if r[0] == 'compint']
            accepting = rv[0] > 0 or rv[1] < 0
            rejecting = rv == (0, 0)
            cur = st.env.get(kl)
            if accepting:
                n_accept += 1
                # the same input byte may be read more than once (low bits and stop bit taken separately): bytes are
                # counted by offset, in the order in which they are first read
                offs = []
                for r in reads:
                    if r[1] not in offs:
                        offs.append(r[1])
                n = len(offs)
                for r in reads:
                    if not r[3]:
                        unb[r[2]] = 'input byte read at line %d without a preceding *length < max_length test ' \
                                    'since the cursor last moved (start cursor %d)' % (r[2], l0)
                if offs != list(range(n)):
                    problems.append(('reads', node.line, 'accepting path reads offsets %s, expected 0..%d' % (offs, n - 1)))
                if n > maxc:
                    problems.append(('too-long', node.line, 'accepting path reads %d bytes (> MAX_COMP_SIZE)' % n))
                stop_off = st.reads[st.stop][1] if (st.stop is not None and 0 <= st.stop < len(st.reads)) else None
                if stop_off is None or not offs or stop_off != offs[-1]:
                    problems.append(('unterminated', node.line, 'a %d-byte encoding is accepted on a path that never found '
                                     'the stop bit (>= 128) in the last byte it read: an encoding that does not end '
                                     'within %d bytes decodes with success' % (n, maxc)))
                if cur != (l0 + n, l0 + n):
                    problems.append(('cursor', node.line, 'accepting path read %d bytes but *length moved from %d to %s'
                                     % (n, l0, cur)))
                for ev in dedup_events(st.events):
                    problems.append(('overflow', ev['line'], '%s in `%s` (interval [%d, %d] as %s) on a path that '
                                     'accepts a %d-byte encoding' % (ev['kind'], ev['expr'], ev['interval'][0],
                                                                     ev['interval'][1], ev['type'], n)))
                val = st.env.get(kv)
                want = (0, min(128 ** n - 1, SIZE_MAX))
                accept_n.setdefault(n, set()).add(val)
                if val != want and not st.events:
                    problems.append(('value', node.line, 'accepted %d-byte encodings decode to [%s, %s]; the '
                                     'mathematical range is [0, %d]' % (n, val[0] if val else '?',
                                                                        val[1] if val else '?', want[1])))
            elif rejecting:
                n_reject += 1
                if cur != (l0, l0):
                    problems.append(('restore', node.line, 'rejecting path leaves *length at %s (entered with %d)'
                                     % (cur, l0)))
                for r in reads:
                    if not r[3]:
                        unb[r[2]] = 'input byte read at line %d without a preceding *length < max_length test ' \
                                    'since the cursor last moved (start cursor %d)' % (r[2], l0)
            else:
                problems.append(('verdict', node.line, 'return value %s is neither true nor false' % (rv,)))
    ck.require(n_accept >= 1 and n_reject >= 1, 'compint_to_size: no accepting or no rejecting path found')
    ck.ob(ca, 'R5.bounded-read', fn.name, 'reads', not unb,
          'every input byte is read under *length < max_length (%d accepting, %d rejecting path states, cursor '
          'started at 0 and at 1000)' % (n_accept, n_reject) if not unb else '; '.join(sorted(unb.values()))[:400],
          fn.file, sorted(unb)[0] if unb else fn.line, config=config)
    kinds = {}
    for k, line, msg in problems:
        kinds.setdefault(k, []).append((line, msg))
    for k, text in (('overflow', 'no arithmetic node leaves the range of its C type on an accepting path'),
                    ('value', 'accepted n-byte encodings decode to exactly [0, min(128^n - 1, SIZE_MAX)]'),
                    ('reads', 'bytes are read consecutively from the pointer'),
                    ('too-long', 'at most MAX_COMP_SIZE bytes are accepted'),
                    ('unterminated', 'every accepting path has seen the stop bit in the last byte it read'),
                    ('cursor', '*length advances by exactly the bytes read on success'),
                    ('restore', '*length is restored on every rejecting path'),
                    ('verdict', 'the decoder returns true or false'), ('no-return', 'every path returns')):
        bad = kinds.get(k)
        ck.ob(cb, 'R9.interval', fn.name, k, not bad, text if not bad else bad[0][1] +
              (' (+%d more)' % (len(bad) - 1) if len(bad) > 1 else ''), fn.file, bad[0][0] if bad else fn.line,
              config=config, sample={'accepted_lengths': sorted(accept_n)} if k == 'value' else None)
    # ---- c
    f2 = prog.need_func('compint_to_int')

    def model(interp, call, st):
        if callee_name(call) == 'compint_to_size':
            a = strip(call.a[2])
            if a.k == 'un' and a.op == '&':
                key = interp.key_of(a.a[0])
                if key is not None:
                    st.env[key] = (0, SIZE_MAX)
    it2 = IntervalInterp(prog, f2, input_params=('compint',), out_params=('val', 'length'), call_model=model)
    p2 = dict((x.op, x) for x in f2.params)
    ck.require('val' in p2, 'compint_to_int signature changed')
    exits = it2.run({('d', p2['val'].decl, '*val'): (0, 0)})
    bad = []
    nacc = 0
    for rv, st, node in exits:
        if rv is not None and (rv[0] > 0):
            nacc += 1
            for ev in dedup_events(st.events):
                bad.append((ev['line'], '%s in `%s`: a decoded value in [%d, %d] is converted to %s on an accepting '
                            'path' % (ev['kind'], ev['expr'], ev['interval'][0], ev['interval'][1], ev['type'])))
    ck.require(nacc >= 1, 'compint_to_int: no accepting path')
    ck.ob(cc, 'R9.interval', f2.name, 'narrowing', not bad,
          'the size_t result is narrowed to int only after it is known to be <= INT_MAX' if not bad else bad[0][1],
          f2.file, bad[0][0] if bad else f2.line, config=config)
    return maxc


def run(ctx):
    ck = ctx.check
    ck.explanation = (
        'compint_to_size and compint_to_int are interpreted abstractly over intervals with the decode loop unrolled '
        '(bounded by MAX_COMP_SIZE from the source): bytes are [0,255], every arithmetic node is checked against the '
        'range of its C type from the type-checked AST, the caller\'s cursor is followed concretely from two '
        'different start values so that a bound on a private counter is told from a bound on the cursor.  Encoder '
        'side: MAX_COMP_SIZE, loop bound and destination reservations.  Call sites: same cursor in both argument '
        'positions.  Round-trip equality for all values is declined.')
    ck.declined += ['encode(decode(x)) == x for all values (relational arithmetic)']
    for config in ctx.configs():
        prog = ctx.prog(config)
        maxc = decoder(ck, prog, config)
        # ---- d encoder: loop writes one byte per iteration, terminates when val == 0; at most 10 iterations
        enc = prog.need_func('compint_from_size')
        ite = IntervalInterp(prog, enc, input_params=(), out_params=('length',))
        p = dict((x.op, x) for x in enc.params)
        ck.require('val' in p and 'length' in p, 'compint_from_size signature changed')
        ite.MAX_STEPS = 20000
        try:
            ex = ite.run({('v', p['val'].decl, 'val'): (0, SIZE_MAX), ('d', p['length'].decl, '*length'): (0, 0)})
            lens = sorted(set(st.env.get(('d', p['length'].decl, '*length')) for rv, st, node in ex))
            mx = max(l[1] for l in lens if l is not None)
            ck.ob('C20-d', 'R9.interval', enc.name, 'encoded-length', mx <= maxc,
                  'encoder emits between %d and %d bytes for any 64-bit value' % (min(l[0] for l in lens), mx),
                  enc.file, enc.line, config=config)
        except AnalysisBroken as ex2:
            ck.ob('C20-d', 'R9.interval', enc.name, 'encoded-length', False,
                  'encoder loop is not bounded by the interval analysis: %s' % ex2, enc.file, enc.line, config=config)
        # ---- f  the number of bytes emitted is the number of 7-bit groups of the value: for v in [128^(n-1), 128^n - 1]
        #         exactly n bytes (n = 10 for [128^9, 2^64 - 1]); together with the decoder's value range per length
        #         (C20-b: n bytes decode to at most 128^n - 1) this is a necessary condition of the round trip - a
        #         value that is emitted in fewer bytes cannot decode to itself
        bad_len = []
        for n_ in range(1, 11):
            lo_ = 0 if n_ == 1 else 128 ** (n_ - 1)
            hi_ = min(128 ** n_ - 1, SIZE_MAX)
            itn = IntervalInterp(prog, enc, input_params=(), out_params=('length',))
            itn.MAX_STEPS = 20000
            try:
                exn = itn.run({('v', p['val'].decl, 'val'): (lo_, hi_), ('d', p['length'].decl, '*length'): (0, 0)})
            except AnalysisBroken as ex3:
                bad_len.append((n_, 'not bounded: %s' % ex3))
                continue
            got = sorted(set(st.env.get(('d', p['length'].decl, '*length')) for rv, st, node in exn))
            if got != [(n_, n_)]:
                bad_len.append((n_, 'values in [%d, %d] are emitted in %s byte(s)' % (lo_, hi_, got)))
        ck.ob('C20-f', 'R9.interval', enc.name, 'length-per-range', not bad_len,
              'for every n in 1..10 the values that need n seven-bit groups are emitted in exactly n bytes' if not bad_len
              else 'encoder: %s, expected exactly %d: the value cannot decode to itself (the decoder returns at most '
              '128^n - 1 from n bytes)' % (bad_len[0][1], bad_len[0][0]), enc.file, enc.line, config=config)
        # reservations
        reservations(ck, prog, config, maxc)
        # ---- e call sites
        n = 0
        for f in sorted(prog.lib_funcs(), key=lambda x: x.qname):
            if f.name in ('compint_to_int',):
                continue
            subst = unique_defs(f)
            for c in calls_of(f, ('compint_to_size', 'compint_to_int')):
                n += 1
                a = c.a[1:]
                src = lin(a[2], subst)
                cur = strip(a[3])
                curp = pstr(cur.a[0], subst) if cur.k == 'un' and cur.op == '&' else None
                ok = curp is not None and src is not None and src.t.get(curp) == 1
                if not ok and curp is not None and src is not None and curp not in src.t:
                    # base passed with a cursor that is still 0: its declaration initialises it to 0 and
                    # nothing touches it before this call
                    cv = strip(cur.a[0])
                    touched = 0
                    init0 = False
                    for st_ in walk_stmts(f.body):
                        if st_.k == 'decl' and st_.var.decl == cv.decl:
                            init0 = st_.e is not None and const_value(st_.e) == 0
                        elif st_.e is not None and st_.line < c.line:
                            touched += len([x for x in walk(st_.e) if x.k == 'var' and x.decl == cv.decl])
                    ok = init0 and touched == 0
                base_terms = [k for k in (src.t if src is not None else {}) if k != curp]
                ck.ob('C20-e', 'R5.cursor-args', f.name, 'site@%d' % n, ok,
                      '%s(%s, &%s, %s): source = base + cursor with the cursor passed by address' % (
                          callee_name(c), show(a[2]), curp, show(a[4])) if ok else
                      '%s: source %s is not base + the cursor %s passed by address' % (callee_name(c), show(a[2]), curp),
                      c.file, c.line, config=config)
        ck.min_instances('decoder call sites', n, 13)


def max_encoded_bytes(prog, arg):
    """Upper bound of the bytes compint_from_* emits for this argument expression."""
    a = strip_transparent(arg)
    while a.k == 'cast':
        a = a.a[0]
    if a.k == 'call' and callee_name(a) == 'get_flags':
        gf = prog.need_func('get_flags')
        it = IntervalInterp(prog, gf, (), ())
        ex = it.run({})
        hi = max(rv[1] for rv, st, node in ex if rv is not None)
        return bytes_for(hi), 'get_flags() <= %d' % hi
    rng = type_range(a.t, a.dt)
    if rng is None:
        return 10, 'unknown type'
    return bytes_for(rng[1]), '%s <= %d' % (a.t, rng[1])


def bytes_for(v):
    n = 1
    while v >= 128:
        v //= 128
        n += 1
    return n


def reservations(ck, prog, config, maxc):
    for name in ('lead_create', 'preface_create', 'sig_create'):
        fn = prog.need_func(name)
        subst = unique_defs(fn)
        allocs = [c for c in calls_of(fn, ('zmalloc',))]
        ck.require(len(allocs) >= 1, '%s: allocation not found' % name)
        size = lin(allocs[0].a[1], subst)
        need = Lin()
        detail = []
        for ex in all_exprs(fn):
            for c in calls_in(ex):
                cn = callee_name(c)
                if cn in ('compint_from_size', 'compint_from_int'):
                    b, why = max_encoded_bytes(prog, c.a[2] if cn == 'compint_from_size' else c.a[3])
                    need = need + Lin(None, b)
                    detail.append('%d (%s)' % (b, why))
                elif cn == 'memcpy' and pstr(c.a[1], subst).startswith('header'):
                    l = lin(c.a[3], subst)
                    if l is not None:
                        need = need + l
                        detail.append(repr(l))
        # cursor skips (length += digest_size) reserve space too
        for ex in all_exprs(fn):
            for n in walk(ex):
                if n.k == 'bin' and n.op == '+=' and pstr(n.a[0], subst) == 'length':
                    l = lin(n.a[1], subst)
                    if l is not None and not l.is_const():
                        # only count skips that are not the advance after a memcpy of the same length
                        pass
        if name == 'lead_create':
            need = need + Lin({'zck->hash_type.digest_size': 1})
            detail.append('digest window')
        ok = False
        if size is not None:
            d = size - need
            ok = all(v >= 0 for v in d.t.values()) and d.c >= 0
        ck.ob('C20-d', 'R4.reserve', name, 'destination', ok,
              'allocates %r bytes, writes at most %r (%s)' % (size, need, ' + '.join(detail)), allocs[0].file,
              allocs[0].line, config=config)
    # index_create: per-entry reservation 2 * MAX_COMP_SIZE + digests
    fn = prog.need_func('index_create')
    loops = [s for s in walk_stmts(fn.body) if s.k in ('while', 'for', 'do')]
    ck.require(len(loops) >= 2, 'index_create: reservation and write loops not found')
    defs = {}
    for s in walk_stmts(fn.body):
        if s.k == 'decl' and s.e is not None:
            defs.setdefault(s.var.decl, []).append(s.e)
    res_const = None

    def consts_of(e, depth=0):
        out = []
        for m in walk(e):
            cv = const_value(m)
            if cv is not None:
                out.append(cv)
            elif m.k == 'var' and depth < 2 and len(defs.get(m.decl, [])) == 1:
                out += consts_of(defs[m.decl][0], depth + 1)     # a per-entry size hoisted into a local
        return out
    # the accumulator of the reservation: the local whose value sizes the index allocation
    accs = set()
    for c_ in calls_of(fn, ('zmalloc', 'malloc', 'zrealloc')):
        sz = c_.a[-1]
        for m in walk(sz):
            if m.k == 'var' and m.dk == 'VarDecl':
                accs.add(m.op)
    ck.require(bool(accs), 'index_create: allocation sized by a local not found')
    res_loop = None
    for lp in loops:
        exprs = [s.e for s in walk_stmts(lp.body) if s.e is not None]
        if lp.k == 'for' and lp.inc is not None and not isinstance(lp.inc, list):
            exprs.append(lp.inc)
        for e in exprs:
            for n in walk(e):
                if n.k == 'bin' and n.op == '+=' and pstr(n.a[0]) in accs:
                    # constant part of the per-entry reservation
                    for cv in consts_of(n.a[1]):
                        if cv >= maxc:
                            res_const = max(res_const or 0, cv)
                            res_loop = lp
    wl = [lp for lp in loops if lp is not res_loop and any(
        callee_name(c) in ('compint_from_size', 'compint_from_int') for s in walk_stmts(lp.body) if s.e is not None
        for c in calls_in(s.e))]
    ck.require(len(wl) >= 1, 'index_create: the loop that writes the entries was not found')
    loops = [res_loop or loops[0], wl[0]]
    writes = [c for s in walk_stmts(loops[1].body) if s.e is not None for c in calls_in(s.e)
              if callee_name(c) in ('compint_from_size', 'compint_from_int')]
    ok = res_const is not None and res_const >= maxc * len(writes) and len(writes) >= 1
    ck.ob('C20-d', 'R4.reserve', fn.name, 'per-entry', ok,
          'per entry: reserves %s bytes for %d integers (%d needed)' % (res_const, len(writes), maxc * len(writes)),
          fn.file, loops[0].line, config=config)


CLAIM = {
    'technique': 'interval abstract interpretation with bounded unrolling of the decoder (type-range check on every '
                 'arithmetic node of the type-checked AST), cursor bookkeeping from two start values, encoder bound and '
                 'reservation checks, call-site argument agreement, stop-bit origin tracking (every accepting path saw the stop bit in the last byte read)',
    'text': 'static analysis: decides C20-a..e - no input byte is read without a preceding cursor < limit test; on '
            'accepting paths no wrap, overflow or narrowing, at most 10 consecutive bytes, exact cursor bookkeeping and '
            'the exact value range per length; rejecting paths restore the cursor; compint_to_int narrows only values '
            '<= INT_MAX; the encoder emits <= MAX_COMP_SIZE bytes into sufficiently reserved buffers; all 13+ call '
            'sites pass base+cursor with the same cursor by address. Round-trip equality for all values is not decided. Every accepting path has seen the stop bit in the last byte it read.',
    'note': 'trusted: clang 14 front end and its types; intervals over mathematical integers; LP64 (size_t 64 bit, int 32)',
}

MUTANTS = [
    {'id': 'm45', 'desc': 'bound on the private counter', 'file': 'src/lib/compint.c',
     'old': 'if(*length >= max_length) {', 'new': 'if((size_t)count >= max_length) {',
     'expect': 'R5.bounded-read compint_to_size'},
    {'id': 'm46', 'desc': 'overflow rejection removed', 'file': 'src/lib/compint.c',
     'old': 'if(c > (SIZE_MAX >> (7 * count))) {', 'new': 'if(count > MAX_COMP_SIZE) {',
     'expect': 'R9.interval compint_to_size [overflow]'},
    {'id': 'm47', 'desc': 'INT_MAX test removed', 'file': 'src/lib/compint.c',
     'old': 'if(new > INT_MAX) {', 'new': 'if(new > UINT32_MAX) {', 'expect': 'R9.interval compint_to_int'},
    {'id': 'm20s', 'desc': 'scale computed in int (seeded c20)', 'file': 'src/lib/compint.c',
     'old': '*val += c << (7 * count);', 'new': '*val += (unsigned char)c << (7 * count);',
     'expect': 'R9.interval compint_to_size [overflow]'},
    {'id': 'm20r', 'desc': 'cursor not restored on rejection', 'file': 'src/lib/compint.c',
     'old': """            set_fatal_error(zck, "Number too large");
            *length -= count;""", 'new': """            set_fatal_error(zck, "Number too large");""",
     'expect': 'R9.interval compint_to_size [restore]'},
    {'id': 'm20w', 'desc': 'scale 8 bits per byte', 'file': 'src/lib/compint.c',
     'old': '*val += c << (7 * count);', 'new': '*val += c << (8 * count);', 'expect': 'compint_to_size'},
    {'id': 'm20e', 'desc': 'preface reserves too little', 'file': 'src/lib/header.c',
     'old': 'int header_malloc = zck->hash_type.digest_size + 4 + 2*MAX_COMP_SIZE;',
     'new': 'int header_malloc = zck->hash_type.digest_size + 2 + MAX_COMP_SIZE;', 'expect': 'R4.reserve preface_create'},
    {'id': 'm20c', 'desc': 'call site passes a different cursor', 'file': 'src/lib/header.c',
     'old': 'if(!compint_to_size(zck, &flags, header+length, &length, max_length))',
     'new': 'if(!compint_to_size(zck, &flags, header, &length, max_length))', 'expect': 'R5.cursor-args read_preface'},
    {'id': 'n20a', 'desc': 'bound test written as max_length <= *length', 'file': 'src/lib/compint.c',
     'old': 'if(*length >= max_length) {', 'new': 'if(max_length <= *length) {', 'expect': None},
]

"""C18  Checksum backends are interchangeable across builds (structural part).

C18-a  dispatch agreement: for every hash type the three dispatchers lib_hash_init/_update/_final of
       openssl.c (EVP and deprecated API) and of bundled/libsha.c select the same algorithm and allocate the
       same digest buffer; hash_setup gives 20/32/64/16 bytes and SHA-512/128 is SHA-512 truncated.
C18-b  constants: the initial hash values and round constants of the bundled SHA-256 / SHA-512 equal FIPS 180-4
       (recomputed here from the primes), SHA-1 uses the standard initial state and round constants.
C18-c  interface width: no narrowing of the update length between the interface (size_t) and a backend.
C18-d  buffered-length invariant: every exit of the bundled block-buffering update functions leaves
       ctx->len < block size, assuming it on entry (linear facts) - the finalisation relies on it.
Declined: numerical equality of the digests (arithmetic of the compression functions).
"""
from ..flow import M1, NEG, Z, P1, POS
from ..ir import strip, strip_transparent, show, callee_name, const_value, walk, walk_stmts, calls_in, \
    is_unsigned_type, type_width
from ..program import rel, all_exprs, unique_defs
from ..rules.common import (SymRule, run_rule, calls_of, pstr, last_field, Lin, lin, atom_cmp)
from ..rules.absint import IntervalInterp

ALGO_OF = (('sha1', 'sha1'), ('sha256', 'sha256'), ('sha512', 'sha512'), ('sha224', 'sha224'), ('sha384', 'sha384'))
EXPECT = {'ZCK_HASH_SHA1': ('sha1', 20), 'ZCK_HASH_SHA256': ('sha256', 32), 'ZCK_HASH_SHA512': ('sha512', 64),
          'ZCK_HASH_SHA512_128': ('sha512', 64)}
SETUP_SIZE = {'ZCK_HASH_SHA1': 20, 'ZCK_HASH_SHA256': 32, 'ZCK_HASH_SHA512': 64, 'ZCK_HASH_SHA512_128': 16}


def algo_of(name):
    n = (name or '').lower()
    for key, a in (('sha512', 'sha512'), ('sha384', 'sha384'), ('sha256', 'sha256'), ('sha224', 'sha224'),
                   ('sha1', 'sha1')):
        if key in n:
            return a
    return None


def dispatch(prog, fn, tval):
    """Interpret fn with hash->type->type == tval; return (algorithms selected, digest buffer sizes, generic?)."""
    algos, sizes, generic = set(), set(), set()

    def model(interp, call, st):
        n = callee_name(call) or ''
        a = algo_of(n)
        if a and n not in ('zck_hash_name_from_type',):
            algos.add(a)
        if n in ('EVP_DigestUpdate', 'EVP_DigestFinal_ex'):
            generic.add(n)
        if n == 'zmalloc':
            v = interp.ev(call.a[1], st)
            if v is not None and v[0] == v[1]:
                sizes.add(v[0])
    it = IntervalInterp(prog, fn, (), (), call_model=model)
    it.max_loop_visits = 3      # a piecewise update loop: the algorithm selected does not depend on the trip count
    it.run({('f', 'hash->type->type', 'hash->type->type'): (tval, tval)})
    return algos, sizes, generic


def primes(n):
    out = []
    k = 2
    while len(out) < n:
        if all(k % p for p in out if p * p <= k):
            out.append(k)
        k += 1
    return out


def iroot(x, r):
    lo, hi = 0, 1
    while hi ** r <= x:
        hi *= 2
    while lo + 1 < hi:
        mid = (lo + hi) // 2
        if mid ** r <= x:
            lo = mid
        else:
            hi = mid
    return lo


def frac_root(p, r, bits):
    """first `bits` bits of the fractional part of the r-th root of p"""
    scaled = iroot(p << (bits * r), r)
    return scaled & ((1 << bits) - 1)


def fips_tables():
    p = primes(80)
    return {
        'sha256_h0': [frac_root(x, 2, 32) for x in p[:8]],
        'sha256_k': [frac_root(x, 3, 32) for x in p[:64]],
        'sha512_h0': [frac_root(x, 2, 64) for x in p[:8]],
        'sha512_k': [frac_root(x, 3, 64) for x in p[:80]],
    }


def init_values(g):
    vals = []
    if g.init is None:
        return None
    for n in strip(g.init).a if strip(g.init).k == 'init' else []:
        v = const_value(n)
        if v is None:
            return None
        vals.append(v)
    return vals


class LenInv(SymRule):
    """ctx->len < BLOCK at every exit, assuming it on entry."""
    name = 'R4.buffer-invariant'

    def __init__(self, prog, fn, field, block):
        SymRule.__init__(self, prog, fn)
        self.track_fields = (field,)
        self.field = field
        self.block = block
        self.exits = 0
        self.path = None
        for ex in all_exprs(fn):
            for n in walk(ex):
                if n.k == 'mem' and n.op == field:
                    self.path = pstr(n)
        self.start = frozenset([('le', Lin({self.path: 1}, -(block - 1))), ('le', Lin({self.path: -1}))]) \
            if self.path else frozenset()

    def facts(self, ts):
        return [x[1] for x in ts if isinstance(x, tuple) and len(x) == 2 and x[0] == 'le']

    def on_edge(self, ctx, node, label, refined, ts):
        if ctx.fn is not self.fn:
            return ts
        op, l, r = atom_cmp(node.e, label)
        lv, rv = self.value(l, ts), self.value(r, ts)
        if lv is None or rv is None:
            return ts
        new = {'<=': lv - rv, '<': lv - rv + Lin(None, 1), '>=': rv - lv, '>': rv - lv + Lin(None, 1)}.get(op)
        if new is not None and not new.is_const():
            ts = ts | frozenset([('le', new)])
        return ts

    def value(self, e, ts):
        se = strip(e)
        # x % c : a fresh quantity in [0, c-1]; min via ?: is handled by the CFG (both arms)
        if se is not None and se.k == 'bin' and se.op == '%' and const_value(se.a[1]):
            return Lin({'(%s)%%%d' % (show(se.a[0]), const_value(se.a[1])): 1})
        return SymRule.value(self, e, ts)

    def sym_assign(self, ctx, lhs, rhs, op, ts):
        # remember ranges of modulo results
        if rhs is not None:
            for n in walk(rhs):
                if n.k == 'bin' and n.op == '%' and const_value(n.a[1]):
                    term = '(%s)%%%d' % (show(n.a[0]), const_value(n.a[1]))
                    ts = ts | frozenset([('le', Lin({term: 1}, -(const_value(n.a[1]) - 1)))])
        return ts

    def on_return(self, ctx, node, mask, ts):
        if ctx.fn is not self.fn:
            return ts
        self.exits += 1
        v = self.value_of_field(ts)
        need = v - Lin(None, self.block - 1)
        ok = need.is_const() and need.c <= 0
        if not ok:
            for f in self.facts(ts):
                d = need - f
                if d.is_const() and d.c <= 0:
                    ok = True
        if not ok:
            self.violate(ctx, 'len-invariant', 'exit with %s = %r, not provably < %d: a block that is exactly full '
                         'stays buffered and the finalisation pads over message bytes' % (self.path, v, self.block),
                         inst='len<block', node=node)
        return ts

    def value_of_field(self, ts):
        env, fields = self.env_of(ts)
        return fields.get(self.path, Lin({self.path: 1}))


def run(ctx):
    ck = ctx.check
    ck.explanation = (
        'Sibling cross-check of the two hash backends over three build configurations (EVP, deprecated OpenSSL API, '
        'bundled): the dispatchers are interpreted once per hash type with the type as a singleton interval and the '
        'selected algorithm / digest buffer size recorded; the constant tables of the bundled SHA-2 code are compared '
        'with FIPS 180-4 values recomputed from the primes; the buffered-length invariant of the bundled update '
        'functions is proved with linear facts; narrowing casts at the backend boundary are listed.  The digest '
        'arithmetic itself is declined.')
    ck.declined += ['numerical equality of digests (arithmetic of the compression functions)']
    configs = ['main', 'openssl-deprecated', 'bundled-hash']
    tables = {}
    for config in configs:
        prog = ctx.prog(config)
        enums = prog.enums
        for tname, (algo, size) in sorted(EXPECT.items()):
            tval = enums.get(tname)
            ck.require(tval is not None, 'enum %s not found' % tname)
            for fname in ('lib_hash_init', 'lib_hash_update', 'lib_hash_final'):
                fn = prog.need_func(fname)
                algos, sizes, generic = dispatch(prog, fn, tval)
                if fname == 'lib_hash_update' and not algos and generic:
                    ck.ob('C18-a', 'R8.dispatch', fname, '%s:%s' % (tname, config), True,
                          'generic EVP update: algorithm fixed by lib_hash_init', fn.file, fn.line, config=config,
                          trivial=True)
                    continue
                ok = algos == set([algo])
                msg = '%s -> %s' % (tname, '/'.join(sorted(algos)) or 'nothing')
                if fname == 'lib_hash_final':
                    ok = ok or (not algos and bool(generic))
                    ok = ok and sizes == set([size])
                    msg += ', digest buffer %s bytes' % '/'.join(str(s) for s in sorted(sizes))
                ck.ob('C18-a', 'R8.dispatch', fname, '%s:%s' % (tname, config), ok,
                      msg + ('' if ok else ' (expected %s, %d bytes)' % (algo, size)), fn.file, fn.line,
                      config=config, sample={'config': config, 'function': fname, 'type': tname,
                                             'algorithms': sorted(algos), 'buffer': sorted(sizes)})
        # hash_setup sizes
        hs = prog.need_func('hash_setup')
        for tname, size in sorted(SETUP_SIZE.items()):
            tval = enums[tname]
            p = dict((x.op, x) for x in hs.params)
            ck.require('h' in p and 'ht' in p, 'hash_setup signature changed')
            it = IntervalInterp(prog, hs, (), ())
            ex = it.run({('v', p['h'].decl, 'h'): (tval, tval)})
            got = set()
            for rv, st, node in ex:
                if rv is not None and rv[0] > 0:
                    got.add(st.env.get(('f', 'ht->digest_size', 'ht->digest_size')))
            ck.ob('C18-a', 'R8.dispatch', 'hash_setup', '%s:%s' % (tname, config), got == set([(size, size)]),
                  '%s: digest_size %s (expected %d)' % (tname, sorted(got), size), hs.file, hs.line, config=config)
        # ---- c narrowing at the backend boundary
        fn = prog.need_func('lib_hash_update')
        narrow = []
        for c in [x for ex_ in all_exprs(fn) for x in calls_in(ex_)]:
            for a in c.a[1:]:
                sa = a
                while sa is not None and sa.k == 'cast':
                    if sa.op == 'IntegralCast':
                        inner = strip(sa)
                        wi, wo = type_width(inner.t, inner.dt), type_width(sa.t, sa.dt)
                        if wi and wo and wo < wi and pstr(inner) == 'size':
                            narrow.append((callee_name(c), sa.t, c.line))
                    sa = sa.a[0]
        for cn, t, line in narrow:
            ck.ob('C18-c', 'R8.width', 'lib_hash_update', '%s:%s' % (cn, config), False,
                  '%s() takes the length as %s: the interface\'s size_t is narrowed (a single update of 4 GiB or more '
                  'hashes a different length than the other backend)' % (cn, t), fn.file, line, config=config)
        if not narrow:
            ck.ob('C18-c', 'R8.width', 'lib_hash_update', 'no-narrowing:%s' % config, True,
                  'update length reaches the backend without narrowing', fn.file, fn.line, config=config)
        if config == 'bundled-hash':
            # ---- j  the piecewise feed of long updates: remainder and data position move together
            from ..rules.consume import check_consume_loop
            check_consume_loop(ck, prog, config, 'C18-j', fn, 'size',
                               [('SHA1_Update', 2), ('sha256_update', 2), ('sha512_update', 2)],
                               rule_name='R4.piece-loop',
                               data_ops={'SHA1_Update': 1, 'sha256_update': 1, 'sha512_update': 1})
            # ---- b constants
            want = fips_tables()
            for name, vals in sorted(want.items()):
                g = [x for x in prog.globals if x.name == name]
                ck.require(len(g) == 1, 'bundled table %s not found' % name)
                got = init_values(g[0])
                ck.require(got is not None, 'initialiser of %s is not a list of constants' % name)
                bad = [i for i in range(min(len(got), len(vals))) if got[i] != vals[i]]
                ck.ob('C18-b', 'R8.constants', 'sha2.c', name, got == vals,
                      '%s: %d entries equal FIPS 180-4' % (name, len(vals)) if got == vals else
                      '%s differs from FIPS 180-4 at index %s (%d vs %d entries)' % (name, bad[:3], len(got), len(vals)),
                      g[0].file, g[0].line, config=config)
            # SHA-1: initial state and round constants
            s1 = prog.need_func('SHA1_Init')
            consts = set(const_value(n) for ex_ in all_exprs(s1) for n in walk(ex_) if const_value(n) is not None)
            h0 = set([0x67452301, 0xEFCDAB89, 0x98BADCFE, 0x10325476, 0xC3D2E1F0])
            ck.ob('C18-b', 'R8.constants', 'sha1.c', 'SHA1 initial state', h0 <= consts,
                  'SHA1_Init stores the five standard state words' if h0 <= consts else
                  'SHA1_Init: missing %s' % sorted(hex(x) for x in h0 - consts), s1.file, s1.line, config=config)
            st = prog.need_func('SHA1_Transform')
            consts = set(const_value(n) for ex_ in all_exprs(st) for n in walk(ex_) if const_value(n) is not None)
            ks = set([0x5A827999, 0x6ED9EBA1, 0x8F1BBCDC, 0xCA62C1D6])
            ck.ob('C18-b', 'R8.constants', 'sha1.c', 'SHA1 round constants', ks <= consts,
                  'SHA1_Transform uses the four standard round constants' if ks <= consts else
                  'SHA1_Transform: missing %s' % sorted(hex(x) for x in ks - consts), st.file, st.line, config=config)
            # ---- h  a backend with mutable static storage is not re-entrant: digests go wrong under concurrent use
            from . import c19
            nst = c19.static_inventory(ck, prog, config, 'C18-h', unit_filter=lambda u: '/hash/bundled/' in u or '/hash/openssl/' in u)
            from ..rules import extra as _x
            _x.check_const_input(ck, prog, config, 'C18-i', lambda u: '/hash/bundled/' in u or '/hash/openssl/' in u or u.endswith('hash/hash.c'))
            ck.min_instances('objects with static storage in the hash backends', nst, 4)
            # ---- e  finalisation layout, for every possible number of buffered bytes
            from ..rules.layout import LayoutInterp, Ptr, check_padding, length_bytes
            SINKS = {'SHA1_Transform': (1, 64, None), 'sha256_transf': (1, 64, 2), 'sha512_transf': (1, 128, 2)}
            FINALS = (
                # function, context parameter, length cell, scale, extra cells, buffer, block, length field
                ('SHA1_Final', 'context', 'count[0]', 8, {'count[1]': 0}, 'buffer', 64, 8),
                ('sha256_final', 'ctx', 'len', 1, {}, 'block', 64, 8),
                ('sha512_final', 'ctx', 'len', 1, {}, 'block', 128, 16),
            )
            for sname in SINKS:
                prog.need_func(sname)
            for fname, cparam, cell, scale, extra, buf, block, lenfield in FINALS:
                f = prog.need_func(fname)
                ck.require(any(p_.op == cparam for p_ in f.params), '%s: context parameter %s not found' % (fname, cparam))
                bad = None
                shapes = set()
                runs = 0
                minlen = None
                out_extents = set()
                for r in range(block):
                    for hi in ((0, 1) if scale == 8 else (0,)):       # bit counter: two representatives mod 512
                        it = LayoutInterp(prog, SINKS)
                        it.length_cells = ('ctx.count', 'ctx.tot_len', 'ctx.len')
                        it.scalars['ctx.' + cell] = r * scale + hi * block * scale
                        for k_, v_ in extra.items():
                            it.scalars['ctx.' + k_] = v_
                        it.regions['ctx.' + buf] = dict((i, ('M', i)) for i in range(r))
                        it.invoke(f, ['ctx' if p_.op == cparam else Ptr('digest', 0) for p_ in f.params])
                        runs += 1
                        dg_ = it.regions.get('digest') or {}
                        out_extents.add(tuple(sorted(k_ for k_ in dg_ if isinstance(k_, int))))
                        ok, msg = check_padding(it.stream, r, block, lenfield)
                        if not ok and bad is None:
                            bad = (r, msg)
                        shapes.add(msg if ok else 'bad')
                        if ok:
                            nb_ = length_bytes(it.stream, lenfield)
                            minlen = nb_ if minlen is None else min(minlen, nb_)
                ck.ob('C18-e', 'R9.layout', fname, 'padding', bad is None,
                      'for each of the %d possible buffered lengths the compression function receives message, 0x80, zeros '
                      'and a %d-byte length, ending on the first block boundary that fits (%d interpretations)' % (
                          block, lenfield, runs) if bad is None else
                      'with %d byte(s) buffered: %s' % bad, f.file, f.line, config=config,
                      sample={'function': fname, 'buffered': block - 1, 'layout': sorted(shapes)[-1]})
                # ---- k  the digest written out is the whole digest of the algorithm: bytes 0 .. size-1, for every buffered
                #         length (the caller's buffer is zero-filled, so a shorter output is a different digest)
                want_sz = {'SHA1_Final': 20, 'sha256_final': 32, 'sha512_final': 64}.get(fname)
                if want_sz is not None:
                    ck.require(any(out_extents) , '%s: no store into the digest parameter seen by the interpreter' % fname)
                    okx = out_extents == set([tuple(range(want_sz))])
                    ck.ob('C18-k', 'R9.digest-extent', fname, 'output', okx,
                          '%s() writes digest bytes 0..%d for every buffered length' % (fname, want_sz - 1) if okx else
                          '%s() writes the digest bytes %s, the algorithm\'s digest has %d bytes (0..%d): the remaining bytes '
                          'stay whatever the caller\'s buffer held, the digest differs from the standard algorithm and from '
                          'the OpenSSL build' % (fname, sorted('%d..%d' % (e_[0], e_[-1]) if e_ else 'none' for e_ in out_extents),
                                                 want_sz, want_sz - 1), f.file, f.line, config=config)
                # ---- g  the length field carries (at least) 64 bits computed from the counters
                if bad is None:
                    ck.ob('C18-g', 'R9.length-width', fname, 'length-field', minlen is not None and minlen >= 8,
                          '%d bytes of the length field are computed from the length counters (64-bit message length)' % minlen
                          if minlen is not None and minlen >= 8 else
                          'only %s byte(s) of the %d-byte length field are computed from the length counters, the rest is '
                          'constant zero: a message of 2^%d bytes or more gets a wrong length and a digest that differs '
                          'from the standard algorithm and from the OpenSSL build' % (
                              minlen, lenfield, 8 * (minlen or 0) - 3), f.file, f.line, config=config)
            # ---- f  update layout: what is compressed and what stays buffered, at the class boundaries of the length
            UPDATES = (('SHA1_Update', 'context', 'count[0]', 8, {'count[1]': 0}, 'buffer', 64),
                       ('sha256_update', 'ctx', 'len', 1, {'tot_len': 0}, 'block', 64),
                       ('sha512_update', 'ctx', 'len', 1, {'tot_len': 0}, 'block', 128))
            for fname, cparam, cell, scale, extra, buf, block in UPDATES:
                f = prog.need_func(fname)
                # width of the running length counter(s) the update maintains (everything but the buffered count)
                bits = 0
                seen_cells = set()
                for ex_ in all_exprs(f):
                    for n_ in walk(ex_):
                        if n_.k == 'mem' and n_.op in ('tot_len', 'count') and n_.op not in seen_cells:
                            seen_cells.add(n_.op)
                            t_ = (n_.dt or n_.t or '')
                            if '[' in t_:
                                ew = type_width(t_[:t_.index('[')].strip(), None) or 0
                                if not ew:
                                    # element type is a typedef: take the width from an indexing expression
                                    for m_ in walk(ex_):
                                        if m_.k == 'idx' and strip(m_.a[0]) is not None and strip(m_.a[0]).k == 'mem' \
                                                and strip(m_.a[0]).op == n_.op:
                                            ew = type_width(m_.t, m_.dt) or 0
                                            break
                                bits += ew * int(t_[t_.index('[') + 1:t_.index(']')])
                            else:
                                bits += type_width(n_.t, n_.dt) or 0
                ck.ob('C18-g', 'R9.length-width', fname, 'length-counter', bits >= 64,
                      'the running message length is kept in %d bits (%s)' % (bits, ', '.join(sorted(seen_cells)))
                      if bits >= 64 else
                      'the running message length is kept in %d bits (%s): it wraps for messages of 2^%d bytes or more, '
                      'the digest then differs from the standard algorithm' % (bits, ', '.join(sorted(seen_cells)) or
                                                                              'no counter found', bits),
                      f.file, f.line, config=config)
                bad = None
                runs = 0
                for r in range(block):
                    lens = set([0, 1, 2, block, block + 1, 2 * block, 3 * block + 5])
                    for d in (-2, -1, 0, 1, 2):
                        for m in (1, 2):
                            if m * block - r + d >= 0:
                                lens.add(m * block - r + d)
                    for n_ in sorted(lens):
                        it = LayoutInterp(prog, SINKS)
                        it.scalars['ctx.' + cell] = r * scale
                        for k_, v_ in extra.items():
                            it.scalars['ctx.' + k_] = v_
                        it.regions['ctx.' + buf] = dict((i, ('M', i)) for i in range(r))
                        it.regions['data'] = dict((i, ('D', i)) for i in range(n_))
                        vals = []
                        for p_ in f.params:
                            t_ = (p_.dt or p_.t or '')
                            vals.append('ctx' if p_.op == cparam else Ptr('data', 0) if t_.rstrip().endswith('*') else n_)
                        it.invoke(f, vals)
                        runs += 1
                        whole = [('M', i) for i in range(r)] + [('D', i) for i in range(n_)]
                        nblk = (r + n_) // block
                        rest = (r + n_) % block
                        left = it.scalars.get('ctx.' + cell)
                        left = None if left is None else (left // scale) % block
                        bufnow = [it.regions['ctx.' + buf].get(i) for i in range(rest)]
                        why = None
                        if it.stream != whole[:nblk * block]:
                            why = 'the compression function received %d byte(s) that are not the first %d block(s) of ' \
                                  'buffered + new data in order' % (len(it.stream), nblk)
                        elif left != rest:
                            why = 'the buffered count afterwards is %s, expected %d' % (left, rest)
                        elif bufnow != whole[nblk * block:]:
                            why = 'the bytes left in the buffer are not the unprocessed tail of the data'
                        if why and bad is None:
                            bad = (r, n_, why)
                ck.ob('C18-f', 'R9.layout', fname, 'buffering', bad is None,
                      'for every buffered length and update lengths at the class boundaries (0, 1, fill-2..fill+2, one and two '
                      'blocks, 3 blocks+5): compressed blocks are buffered+new data in order, the tail stays buffered and the '
                      'count is (buffered+len) mod %d (%d interpretations; the update length is sampled, not exhausted)' % (
                          block, runs) if bad is None else
                      'with %d byte(s) buffered and an update of %d byte(s): %s' % bad, f.file, f.line, config=config)
            # ---- d
            for fname, field, block in (('sha256_update', 'len', 64), ('sha512_update', 'len', 128)):
                f = prog.need_func(fname)
                r = LenInv(prog, f, field, block)
                ck.require(r.path is not None, '%s: buffered length field not found' % fname)
                run_rule(prog, f, r)
                ck.require(r.exits >= 2, '%s: expected at least two exits' % fname)
                ck.ob('C18-d', 'R4.buffer-invariant', fname, 'len<block', not r.violations,
                      'every exit leaves %s < %d (assumed on entry): %d exit states' % (r.path, block, r.exits)
                      if not r.violations else r.violations[0].msg, f.file,
                      r.violations[0].node.line if r.violations else f.line,
                      path=r.violations[0].path if r.violations else None, config=config)


CLAIM = {
    'technique': 'sibling cross-check by interval interpretation of the dispatchers per hash type over three build '
                 'configurations, constant tables vs recomputed FIPS 180-4 values, linear-fact proof of the '
                 'buffered-length invariant, narrowing-cast inventory at the backend boundary, tagged-buffer abstract interpretation of the bundled finalisation (exhaustive in the buffered length) and update buffering (length sampled at class boundaries), length-field/counter width by taint, static inventory of the backends',
    'text': 'static analysis: decides C18-a..d (structure) - both backends (and both OpenSSL API generations) map each '
            'hash type to the same algorithm and digest buffer, SHA-512/128 is SHA-512 cut to 16 bytes; the bundled '
            'SHA-2 tables equal FIPS 180-4 and SHA-1 uses the standard words; the bundled block buffering keeps its '
            'length below the block size on every exit; narrowing of the update length is reported. Digest arithmetic '
            'is not decided. C18-e..h: padding layout for every buffered length; update buffering; 64-bit length counter and field; no mutable static in a backend.',
    'note': 'trusted: clang 14 front end; OpenSSL; FIPS constants recomputed with integer roots of the first 80 primes',
}

MUTANTS = [
    {'id': 'm18w', 'desc': 'sha256 length field written with 32 bits again (pre-fix form)',
     'file': 'src/lib/hash/bundled/sha2/sha2.c', 'old': '', 'new': '',
     'edits': [('src/lib/hash/bundled/sha2/sha2.c', """                     < (ctx->len % SHA256_BLOCK_SIZE)));

    len_b = (ctx->tot_len + ctx->len) << 3;
    pm_len = block_nb << 6;

    memset(ctx->block + ctx->len, 0, pm_len - ctx->len);
    ctx->block[ctx->len] = 0x80;
    UNPACK64(len_b, ctx->block + pm_len - 8);""", """                     < (ctx->len % SHA256_BLOCK_SIZE)));

    len_b = (ctx->tot_len + ctx->len) << 3;
    pm_len = block_nb << 6;

    memset(ctx->block + ctx->len, 0, pm_len - ctx->len);
    ctx->block[ctx->len] = 0x80;
    UNPACK32(len_b, ctx->block + pm_len - 4);""")], 'expect': 'R9.length-width sha256_final'},
    {'id': 'm18x', 'desc': 'sha2 running length kept in 32 bits again', 'file': 'src/lib/hash/bundled/sha2/sha2.h',
     'old': """typedef struct {
    uint64 tot_len;
    unsigned int len;
    unsigned char block[2 * SHA256_BLOCK_SIZE];""", 'new': """typedef struct {
    unsigned int tot_len;
    unsigned int len;
    unsigned char block[2 * SHA256_BLOCK_SIZE];""", 'expect': 'R9.length-width sha256_update'},
    {'id': 'm18p', 'desc': 'sha256_final: second block chosen one byte too late', 'file': 'src/lib/hash/bundled/sha2/sha2.c',
     'old': """    block_nb = (1 + ((SHA256_BLOCK_SIZE - 9)
                     < (ctx->len % SHA256_BLOCK_SIZE)));

    len_b = (ctx->tot_len + ctx->len) << 3;
    pm_len = block_nb << 6;

    memset(ctx->block + ctx->len, 0, pm_len - ctx->len);
    ctx->block[ctx->len] = 0x80;
    UNPACK64(len_b, ctx->block + pm_len - 8);

    sha256_transf""", 'new': """    block_nb = (1 + ((SHA256_BLOCK_SIZE - 8)
                     < (ctx->len % SHA256_BLOCK_SIZE)));

    len_b = (ctx->tot_len + ctx->len) << 3;
    pm_len = block_nb << 6;

    memset(ctx->block + ctx->len, 0, pm_len - ctx->len);
    ctx->block[ctx->len] = 0x80;
    UNPACK64(len_b, ctx->block + pm_len - 8);

    sha256_transf""", 'expect': 'R9.layout sha256_final'},
    {'id': 'm18q', 'desc': 'SHA1_Final pads in one go with a length that is 0 at 56 mod 64 (seeded c18r2)',
     'file': 'src/lib/hash/bundled/sha1/sha1.c',
     'old': """        SHA1_Update(context, (sha1_byte *)"\\200", 1);
        while ((context->count[0] & 504) != 448) {
            SHA1_Update(context, (sha1_byte *)"\\0", 1);
        }""", 'new': """        static const sha1_byte sha1_padding[SHA1_BLOCK_LENGTH] = { 0x80 };
        j = (context->count[0] >> 3) & 63;
        SHA1_Update(context, sha1_padding, (SHA1_BLOCK_LENGTH + 56 - j) & 63);""", 'expect': 'R9.layout SHA1_Final'},
    {'id': 'n18q', 'desc': 'SHA1_Final pads in one go with the right length', 'file': 'src/lib/hash/bundled/sha1/sha1.c',
     'old': """        SHA1_Update(context, (sha1_byte *)"\\200", 1);
        while ((context->count[0] & 504) != 448) {
            SHA1_Update(context, (sha1_byte *)"\\0", 1);
        }""", 'new': """        static const sha1_byte sha1_padding[SHA1_BLOCK_LENGTH] = { 0x80 };
        j = (context->count[0] >> 3) & 63;
        SHA1_Update(context, sha1_padding, ((55 - j) & 63) + 1);""", 'expect': None},
    {'id': 'm18u', 'desc': 'sha512_update copies the tail from the wrong offset', 'file': 'src/lib/hash/bundled/sha2/sha2.c',
     'old': """    sha512_transf(ctx, shifted_message, block_nb);

    rem_len = new_len % SHA512_BLOCK_SIZE;

    memcpy(ctx->block, &shifted_message[block_nb << 7],""",
     'new': """    sha512_transf(ctx, shifted_message, block_nb);

    rem_len = new_len % SHA512_BLOCK_SIZE;

    memcpy(ctx->block, &shifted_message[block_nb << 6],""", 'expect': 'R9.layout sha512_update'},
    {'id': 'm58', 'desc': 'bundled backend maps SHA-512/128 to SHA-256', 'file': 'src/lib/hash/bundled/libsha.c',
     'old': """        } else if(hash->type->type >= ZCK_HASH_SHA512 &&
                hash->type->type <= ZCK_HASH_SHA512_128) {
                zck_log(ZCK_LOG_DDEBUG, "Initializing SHA-512 hash");""",
     'new': """        } else if(hash->type->type == ZCK_HASH_SHA512_128) {
                hash->ctx = zmalloc(sizeof(SHA256_CTX));
                if (!hash->ctx)
                        return false;
                SHA256_Init((SHA256_CTX *) hash->ctx);
                return true;
        } else if(hash->type->type >= ZCK_HASH_SHA512 &&
                hash->type->type <= ZCK_HASH_SHA512_128) {
                zck_log(ZCK_LOG_DDEBUG, "Initializing SHA-512 hash");""", 'expect': 'R8.dispatch lib_hash_init'},
    {'id': 'm59', 'desc': 'one SHA-512 round constant altered', 'file': 'src/lib/hash/bundled/sha2/sha2.c',
     'old': '0x428a2f98d728ae22ULL', 'new': '0x428a2f98d728ae23ULL', 'expect': 'R8.constants sha2.c [sha512_k]'},
    {'id': 'm18b', 'desc': 'exactly full block stays buffered (seeded c18)', 'file': 'src/lib/hash/bundled/sha2/sha2.c',
     'old': """    if (ctx->len + len < SHA256_BLOCK_SIZE) {""", 'new': """    if (len <= tmp_len) {""",
     'expect': 'R4.buffer-invariant sha256_update'},
    {'id': 'm18s', 'desc': 'hash_setup: SHA-512/128 keeps 64 bytes', 'file': 'src/lib/hash/hash.c',
     'old': '            ht->digest_size = 16;', 'new': '            ht->digest_size = 64;',
     'expect': 'R8.dispatch hash_setup'},
    {'id': 'm18e', 'desc': 'EVP backend: SHA-256 initialised as SHA-512', 'file': 'src/lib/hash/openssl/openssl.c',
     'old': 'if (!EVP_DigestInit_ex(hash->ctx, EVP_sha256(), NULL)) {',
     'new': 'if (!EVP_DigestInit_ex(hash->ctx, EVP_sha512(), NULL)) {', 'expect': 'R8.dispatch lib_hash_init'},
    {'id': 'n18a', 'desc': 'equivalent buffering test', 'file': 'src/lib/hash/bundled/sha2/sha2.c',
     'old': """    if (ctx->len + len < SHA256_BLOCK_SIZE) {""", 'new': """    if (len < tmp_len) {""", 'expect': None},
]


# SESSION7 additions to the claim (clauses added in DESIGN section 12)
CLAIM['technique'] += '; piece-loop rule (remainder and data position move together, linear values + Fourier-Motzkin)'
CLAIM['text'] += ' C18-j: the bundled backend feeds long updates piecewise with the data pointer advancing by each piece.'

MUTANTS += [
    {'id': 'm18j', 'desc': 'piece loop no longer advances the data pointer (after seeded c18r7)', 'file': 'src/lib/hash/bundled/libsha.c',
     'old': """            message += piece;
            left -= piece;""", 'new': """            left -= piece;""", 'expect': 'R4.piece-loop lib_hash_update'},
]


# SESSION7b additions to the claim (round 8, DESIGN 12.6)
CLAIM['technique'] += '; digest output extent of the bundled finals by the layout interpreter'
CLAIM['text'] += ' C18-k: each bundled final writes bytes 0..size-1 of its digest for every buffered length.'
